"""C06 — identifiers are unique within a workspace and stable across copies (structural clauses).

The rules decide on the PATHS of the anchored functions (sa/rules/_c06_sym.py): what happens on a path, in which order, under
which decided conditions — with locals replaced by what they stand for, private helpers executed in place, hoisted tables
unrolled.  Nothing here depends on the name of a local, on the shape of a condition or on the function a statement lives in.
"""

from __future__ import annotations

import ast

from ..kinds import tv
from ..model import AnalysisError, unparse
from ..normalize import single_assignments
from ..report import RuleResult
from ._c06_sym import PURE_BUILTINS, Sym, call_name, norm_cond

REGISTRIES = ("_data", "_groups", "_objects", "_types", "_property_groups")
ENTITY_REGISTRIES = ("_data", "_groups", "_objects")
KIND_OF = {"_types": "EntityType", "_groups": "Group", "_data": "Data", "_objects": "ObjectBase", "_property_groups": "PropertyGroup"}
REBIND_IN = ("__init__", "open")
LOOKUPS = ("get_entity", "find_entity", "find_property_group", "find_data", "find_object", "find_group")
CROSS_KIND = ("find_entity", "get_entity", "list_entities_name")
ATTACH = ("append", "extend", "insert")
READ_ONLY = LOOKUPS + CROSS_KIND + ("get", "keys", "values", "items")


# ---------------------------------------------------------------------- small expression helpers
def _t(e) -> str:
    return unparse(e) if e is not None else ""


def _root(e):
    """Name at the root of an attribute / subscript / call chain."""
    while isinstance(e, (ast.Attribute, ast.Subscript, ast.Call)):
        e = e.func if isinstance(e, ast.Call) else e.value
    return e.id if isinstance(e, ast.Name) else None


def _implied(expr, pol=True) -> list:
    """Atomic facts (normalised expr, polarity) that hold when `expr` has truth value `pol`."""
    if isinstance(expr, ast.UnaryOp) and isinstance(expr.op, ast.Not):
        return _implied(expr.operand, not pol)
    if isinstance(expr, ast.BoolOp) and isinstance(expr.op, ast.And if pol else ast.Or):
        return [f for v in expr.values for f in _implied(v, pol)]
    if isinstance(expr, ast.BoolOp):
        return []
    return [norm_cond(expr, pol)]


def _is_none_test(c):
    """`X is None` / `X == None` -> X, else None."""
    if isinstance(c, ast.Compare) and len(c.ops) == 1 and isinstance(c.ops[0], (ast.Is, ast.Eq)) \
            and isinstance(c.comparators[0], ast.Constant) and c.comparators[0].value is None:
        return c.left
    return None


def _absent(facts, pred) -> bool:
    """The facts establish that some X with pred(X) is None / falsy."""
    for c, pol in facts:
        x = _is_none_test(c)
        if x is not None and pol and pred(x):
            return True
        if x is None and not pol and not isinstance(c, ast.Compare) and pred(c):
            return True  # `if not X:`
    return False


def _registry_attr(e, self_name):
    if isinstance(e, ast.Attribute) and e.attr in REGISTRIES and isinstance(e.value, ast.Name) and e.value.id == self_name:
        return e.attr
    return None


def _mentions(e, self_name, names) -> set:
    return {x.attr for x in ast.walk(e) if isinstance(x, ast.Attribute) and x.attr in names and isinstance(x.value, ast.Name) and x.value.id == self_name}


def _ev_exprs(ev):
    return [x for x in (ev.expr, ev.value) if x is not None]


def _const_key_values(e, key):
    """Values stored under the constant key in any dict display inside the expression, and passed as keyword `key` to any call in it."""
    out = []
    for d in ast.walk(e):
        if isinstance(d, ast.Dict):
            out += [v for k, v in zip(d.keys, d.values) if isinstance(k, ast.Constant) and k.value == key]
        elif isinstance(d, ast.Call):
            out += [k.value for k in d.keywords if k.arg == key]
    return out


def _alternatives(v, facts=()):
    """A value that is a conditional expression, as (value, facts that select it)."""
    if isinstance(v, ast.IfExp):
        yield from _alternatives(v.body, tuple(facts) + tuple(_implied(v.test, True)))
        yield from _alternatives(v.orelse, tuple(facts) + tuple(_implied(v.test, False)))
    else:
        yield v, tuple(facts)


def _paths(ctx, fn, boring=None, tag=""):
    """Paths of a function (cached per check run)."""
    key = ("c06.paths", fn.qualname, tag)
    if key not in ctx.cache:
        ctx.cache[key] = Sym(ctx, fn, boring=boring).run()
    return ctx.cache[key]


def _no_lookup(c) -> bool:
    """A condition that does not ask whether an identifier is in use."""
    return not any(isinstance(x, ast.Call) and call_name(x) in LOOKUPS for x in ast.walk(c))


def _not_about_kind_or_registry(c) -> bool:
    return not any(isinstance(x, ast.Call) and call_name(x) == "isinstance" or isinstance(x, ast.Attribute) and x.attr in REGISTRIES for x in ast.walk(c))


def _not_about_uids(c) -> bool:
    return not any(isinstance(x, ast.Attribute) and x.attr in ("uid", "_types") or isinstance(x, ast.Constant) and x.value == "uid"
                   or isinstance(x, ast.Call) and call_name(x) == "any" for x in ast.walk(c))


# ---------------------------------------------------------------------- who may re-bind a registry
def _rebind_allowed(p, ws) -> set:
    """Names of the Workspace methods in which a registry may be replaced: __init__ / open, and private helpers that are
    only ever called (on self) from such a method."""
    family = [c for c in p.classes if ws in c.mro]
    cands = {n for c in family for n in c.methods if n.startswith("_") and not n.startswith("__")}
    refs: dict = {n: [] for n in cands}  # name -> [(enclosing class is of the family, enclosing function, is a call on self)]
    fam_names = {c.name for c in family}

    def visit(node, cls_in_family, fname, self_name):
        for ch in ast.iter_child_nodes(node):
            if isinstance(ch, ast.ClassDef):
                visit(ch, ch.name in fam_names, None, None)
            elif isinstance(ch, (ast.FunctionDef, ast.AsyncFunctionDef)):
                if fname is None:
                    a = ch.args.posonlyargs + ch.args.args
                    visit(ch, cls_in_family, ch.name, a[0].arg if a else None)
                else:
                    visit(ch, cls_in_family, fname, self_name)
            else:
                if isinstance(ch, ast.Call) and isinstance(ch.func, ast.Attribute) and ch.func.attr in refs:
                    on_self = isinstance(ch.func.value, ast.Name) and ch.func.value.id == self_name
                    refs[ch.func.attr].append((cls_in_family, fname, on_self))
                    for sub in [ch.func.value] + list(ch.args) + [k.value for k in ch.keywords]:
                        visit(ast.Expr(value=sub), cls_in_family, fname, self_name)
                    continue
                if isinstance(ch, ast.Attribute) and ch.attr in refs:
                    refs[ch.attr].append((cls_in_family, fname, False))  # taken as a value: could be called from anywhere
                if isinstance(ch, ast.Constant) and isinstance(ch.value, str) and ch.value in refs:
                    refs[ch.value].append((cls_in_family, fname, False))  # getattr(self, "_name")
                visit(ch, cls_in_family, fname, self_name)

    for mod in p.modules.values():
        visit(mod.tree, False, None, None)
    allowed = set(REBIND_IN)
    changed = True
    while changed:
        changed = False
        for n in sorted(cands - allowed):
            if refs[n] and all(fam and on_self and f in allowed for fam, f, on_self in refs[n]):
                allowed.add(n)
                changed = True
    return allowed


# ---------------------------------------------------------------------- Workspace.register, per kind of entity
def _register_paths(ctx):
    """kind -> paths of Workspace.register for an entity of exactly that kind (the five kinds are disjoint)."""
    if "c06.register" not in ctx.cache:
        reg = ctx.p.func("Workspace.register")
        if len(reg.params) < 2:
            raise AnalysisError("Workspace.register: entity parameter not found")
        ent = reg.params[1]
        out = {}
        for kind in KIND_OF.values():
            facts = {k: (k == kind) for k in KIND_OF.values()}
            out[kind] = Sym(ctx, reg, assume=lambda c, facts=facts: tv(c, ent, facts), boring=_not_about_kind_or_registry).run()
        ctx.cache["c06.register"] = out
    return ctx.cache["c06.register"]


def _registry_writes(path, self_name, p, mod):
    """(event, registry) for the calls on a path that receive one of the registries (the dead-reference sweeps apart)."""
    out = []
    for ev in path.trace:
        if ev.kind == "call" and isinstance(ev.expr, ast.Call) and not _is_sweep(p, mod, ev.expr):
            for a in list(ev.expr.args) + [k.value for k in ev.expr.keywords]:
                r = _registry_attr(a, self_name)
                if r:
                    out.append((ev, r))
                    break
                if call_name(ev.expr) == "insert_once" and a is (ev.expr.args[0] if ev.expr.args else None) \
                        and isinstance(a, ast.Call) and call_name(a) == "getattr":
                    raise AnalysisError(f"Workspace.register: cannot tell which registry `{_t(a)[:60]}` is")
    return out


def _is_weakref_util(p, mod, call, names) -> bool:
    f = call.func
    if isinstance(f, ast.Name):
        return f.id in names
    if isinstance(f, ast.Attribute) and f.attr in names and isinstance(f.value, ast.Name):
        r = p.resolve_name(mod, f.value.id)
        return f.value.id == "weakref_utils" or bool(r and r[0] == "module" and r[1].relpath.endswith("weakref_utils.py"))
    return False


def _is_insert_once(p, mod, call) -> bool:
    return _is_weakref_util(p, mod, call, ("insert_once",))


def _is_sweep(p, mod, call) -> bool:
    """The look-up / clean-up functions of weakref_utils: they only drop entries whose referent is dead."""
    return _is_weakref_util(p, mod, call, ("get_clean_ref", "remove_none_referents"))


def _is_effect(ev, path, p, mod) -> bool:
    if ev.kind == "call":
        f = ev.expr.func
        if _is_sweep(p, mod, ev.expr):
            return False
        # look-ups and pure builtins change nothing
        return not (isinstance(f, ast.Name) and f.id in PURE_BUILTINS or isinstance(f, ast.Attribute) and f.attr in READ_ONLY)
    if ev.kind in ("store", "del", "aug"):
        return _root(ev.expr) not in path.objdefs  # filling a local object is not an effect
    return False


def _computed_registry(v, sn):
    """`getattr(<self>, <name built at run time>, ..)` whose name pattern (constant parts of an f-string / `"_" + x`) fits one of the
    registries: that registry's name (the first that fits), else None."""
    if not (isinstance(v, ast.Call) and isinstance(v.func, ast.Name) and v.func.id == "getattr" and len(v.args) >= 2
            and isinstance(v.args[0], ast.Name) and v.args[0].id == sn):
        return None
    nm = v.args[1]
    if isinstance(nm, ast.JoinedStr) and any(isinstance(x, ast.FormattedValue) for x in nm.values):
        pre = nm.values[0].value if isinstance(nm.values[0], ast.Constant) else ""
        suf = nm.values[-1].value if isinstance(nm.values[-1], ast.Constant) and len(nm.values) > 1 else ""
    elif isinstance(nm, ast.BinOp) and isinstance(nm.op, ast.Add) and isinstance(nm.left, ast.Constant) and isinstance(nm.left.value, str):
        pre, suf = nm.left.value, ""
    else:
        return None
    if not pre.startswith("_"):
        return None
    for r in sorted(REGISTRIES):
        if r.startswith(pre) and r.endswith(suf) and len(r) >= len(pre) + len(suf):
            return r
    return None


def rule_own(ctx, rule_id="C06.OWN", prop="C06") -> RuleResult:
    res = RuleResult(
        rule_id,
        prop,
        "the five uid registries are re-bound only in Workspace.__init__/open, receive items only through "
        "weakref_utils.insert_once (which raises on a live duplicate before it stores a weakref.ref), lose items only in the "
        "dead-reference sweeps; children lists hold the entity objects themselves",
        floor=12,
    )
    p = ctx.p
    ws = p.cls("Workspace")
    allowed = _rebind_allowed(p, ws)
    for fn in p.all_functions():
        in_ws = fn.cls is not None and ws in fn.cls.mro
        aliases = {}
        if any(isinstance(n, ast.Attribute) and n.attr in REGISTRIES for n in ast.walk(fn.node)):
            aliases = {k: v for k, v in single_assignments(fn.node).items() if isinstance(v, ast.Attribute) and v.attr in REGISTRIES}
            # `for registry in (self._groups, self._data, ..):` — the loop variable stands for each of them
            for lp in ast.walk(fn.node):
                tgt, it = (lp.target, lp.iter) if isinstance(lp, (ast.For, ast.comprehension)) else (None, None)
                if isinstance(tgt, ast.Name) and isinstance(it, (ast.Tuple, ast.List, ast.Set)):
                    regs = [e for e in it.elts if isinstance(e, ast.Attribute) and e.attr in REGISTRIES]
                    if regs:
                        aliases[tgt.id] = regs[0]
        # a registry reached by a COMPUTED name: `registry = getattr(self, f"_{kind.lower()}", None)` in a Workspace method stands
        # for every registry the built name can denote (round 5, C06-r52: `del registry[child.uid]` on such a local)
        if in_ws and fn.self_name:
            for k, v in single_assignments(fn.node).items():
                r_ = _computed_registry(v, fn.self_name)
                if r_ is not None:
                    aliases[k] = ast.Attribute(value=ast.Name(id=fn.self_name, ctx=ast.Load()), attr=r_, ctx=ast.Load())
        for n in ast.walk(fn.node):
            # re-binding
            if isinstance(n, ast.Attribute) and n.attr in REGISTRIES and isinstance(n.ctx, ast.Store) and isinstance(n.value, ast.Name):
                if in_ws and n.value.id == fn.self_name:
                    ok = fn.name in allowed
                    res.inst(f"{fn.qualname}:{n.lineno} re-binds self.{n.attr}", ok=ok)
                    if not ok:
                        res.find("Workspace", fn.prop or fn.name, f"re-binds registry self.{n.attr}", f"{fn.module.relpath}:{n.lineno}",
                                 "a registry is replaced outside __init__/open: live entities drop out of the uid lookup and their uids can be reused")
            if isinstance(n, ast.Call) and isinstance(n.func, ast.Name) and n.func.id == "setattr" and len(n.args) == 3 and in_ws \
                    and isinstance(n.args[0], ast.Name) and n.args[0].id == fn.self_name and isinstance(n.args[1], ast.Constant) and n.args[1].value in REGISTRIES:
                ok = fn.name in allowed
                res.inst(f"{fn.qualname}:{n.lineno} re-binds self.{n.args[1].value}", ok=ok)
                if not ok:
                    res.find("Workspace", fn.prop or fn.name, f"re-binds registry self.{n.args[1].value}", f"{fn.module.relpath}:{n.lineno}",
                             "a registry is replaced outside __init__/open: live entities drop out of the uid lookup and their uids can be reused")
            # setattr(self, name, ..) in a loop over a literal table of attribute names that holds registries
            if isinstance(n, ast.For) and in_ws and isinstance(n.target, ast.Name):
                it = n.iter
                if isinstance(it, ast.Name):
                    r = p.resolve_name(fn.module, it.id)
                    it = r[1][1] if r and r[0] == "assign" else it
                elif isinstance(it, ast.Attribute) and isinstance(it.value, ast.Name):
                    # a table bound at class level: self.NAMES / cls.NAMES / Class.NAMES
                    owner = fn.cls if it.value.id in ("self", "cls", fn.self_name or "") else None
                    if owner is None:
                        r = p.resolve_name(fn.module, it.value.id)
                        owner = r[1] if r and r[0] == "class" else None
                    m = owner.lookup(it.attr) if owner is not None else None
                    it = m[2] if m and m[1] == "assign" and m[2] is not None else it
                hit = sorted({e.value for e in ast.walk(it) if isinstance(e, ast.Constant) and e.value in REGISTRIES}) if isinstance(it, (ast.Tuple, ast.List, ast.Set, ast.Dict)) else []
                sets = [c for b in n.body for c in ast.walk(b) if isinstance(c, ast.Call) and isinstance(c.func, ast.Name) and c.func.id == "setattr" and len(c.args) == 3
                        and isinstance(c.args[0], ast.Name) and c.args[0].id == fn.self_name and isinstance(c.args[1], ast.Name) and c.args[1].id == n.target.id]
                for r_ in hit if sets else []:
                    ok = fn.name in allowed
                    res.inst(f"{fn.qualname}:{n.lineno} re-binds self.{r_}", ok=ok)
                    if not ok:
                        res.find("Workspace", fn.prop or fn.name, f"re-binds registry self.{r_}", f"{fn.module.relpath}:{n.lineno}",
                                 "a registry is replaced outside __init__/open: live entities drop out of the uid lookup and their uids can be reused")
            # item store / delete on a registry expression (directly or through a local alias of the registry)
            base = n.value if isinstance(n, ast.Subscript) and isinstance(n.ctx, (ast.Store, ast.Del)) else None
            if isinstance(base, ast.Name) and base.id in aliases:
                base = aliases[base.id]
            if isinstance(base, ast.Call) and isinstance(base.func, ast.Name) and base.func.id == "getattr" and len(base.args) >= 2 \
                    and isinstance(base.args[1], ast.Constant) and base.args[1].value in REGISTRIES:
                base = ast.Attribute(value=base.args[0], attr=base.args[1].value, ctx=ast.Load())
            if isinstance(base, ast.Attribute) and base.attr in REGISTRIES:
                if isinstance(base.value, ast.Name) and (fn.cls is None or base.value.id == fn.self_name and in_ws or base.value.id != fn.self_name):
                    # fields named _data / _groups ... of other classes (Concatenator._data) are different fields
                    if fn.cls is not None and not in_ws and base.value.id == fn.self_name:
                        continue
                    res.inst(f"{fn.qualname}:{n.lineno} direct item store on {unparse(base)}", ok=False)
                    res.find(fn.cls.name if fn.cls else fn.module.short, fn.prop or fn.name, f"direct store/delete on registry {unparse(base)}",
                             f"{fn.module.relpath}:{n.lineno}", "a registry entry is written without the duplicate check of insert_once")
            # mutating calls on a registry
            if isinstance(n, ast.Call) and isinstance(n.func, ast.Attribute) and n.func.attr in ("update", "pop", "clear", "setdefault", "popitem", "__setitem__", "__delitem__"):
                b = n.func.value
                if isinstance(b, ast.Name) and b.id in aliases:
                    b = aliases[b.id]
                if isinstance(b, ast.Attribute) and b.attr in REGISTRIES and isinstance(b.value, ast.Name) and in_ws and b.value.id == fn.self_name:
                    what = f"{n.func.attr}(..) on registry self.{b.attr}" if b is not n.func.value else unparse(n)[:40] + " on a registry"
                    res.inst(f"{fn.qualname}:{n.lineno} {unparse(n)[:40]}", ok=False)
                    res.find("Workspace", fn.prop or fn.name, what, f"{fn.module.relpath}:{n.lineno}",
                             "registry edited outside insert_once / the dead-reference sweep")
    # register -> insert_once only, as the first effect, for every kind
    reg = p.func("Workspace.register")
    me = reg.self_name
    regs_used = set()
    seen_calls = set()
    for kind, paths in _register_paths(ctx).items():
        order_ok, inserts = True, 0
        for path in paths:
            writes = _registry_writes(path, me, p, reg.module)
            for ev, r in writes:
                c = ev.expr
                ok = _is_insert_once(p, reg.module, c) and len(c.args) == 3 and not c.keywords and _registry_attr(c.args[0], me) == r \
                    and _t(c.args[1]) == _t(c.args[2]) + ".uid" and not ev.maybe
                if ok:
                    regs_used.add(r)
                if (id(ev.node), _t(c)) not in seen_calls:
                    seen_calls.add((id(ev.node), _t(c)))
                    res.inst(f"register: {_t(c)[:70]}", ok=ok)
                if not ok:
                    res.find("Workspace", "register", f"registry self.{r} written by {call_name(c) or 'a call'}(..)", f"{reg.module.relpath}:{ev.lineno}",
                             "an entity is registered without the live-duplicate check, or under a key that is not its own uid")
            first = next((ev for ev, _ in writes if _is_insert_once(p, reg.module, ev.expr)), None)
            if first is not None:
                inserts += 1
                if any(_is_effect(ev, path, p, reg.module) for ev in path.before(first)):
                    order_ok = False
        if inserts:
            res.inst(f"register[{kind}]: insert_once is the first effect of the branch", nontrivial=True, ok=order_ok)
            if not order_ok:
                res.find("Workspace", "register", f"an effect precedes insert_once in the {kind} branch", reg.where,
                         "a registration that insert_once refuses (uid in use) has already written to the file / changed other state")
    ok = regs_used == set(REGISTRIES)
    res.inst(f"register covers registries {sorted(regs_used)}", ok=ok)
    if not ok:
        res.find("Workspace", "register", f"registries {sorted(set(REGISTRIES) - regs_used)} never receive entries", reg.where,
                 "entities of that kind are not registered: lookups by uid fail and uids can be duplicated")
    _own_insert_once(ctx, res)
    _own_children(ctx, res)
    return res


def _own_insert_once(ctx, res):
    """insert_once: the entry is stored as a weak reference, and only when no live referent holds the key; the live case raises."""
    p = ctx.p
    io = p.module("shared/weakref_utils.py").functions.get("insert_once")
    if io is None or len(io.params) < 3:
        raise AnalysisError("anchor weakref_utils.insert_once not found")
    d, k, v = io.params[:3]
    paths = _paths(ctx, io)
    entry = {f"{d}.get({k})", f"{d}.get({k}, None)", f"{d}[{k}]"}

    def existing(x):  # the entry under the key, or its referent
        return _t(x) in entry or (isinstance(x, ast.Call) and not x.args and not x.keywords and _t(x.func) in entry)

    def key_in_dict(c):
        return isinstance(c, ast.Compare) and len(c.ops) == 1 and isinstance(c.ops[0], ast.In) and _t(c.left) == k \
            and _t(c.comparators[0]) in (d, f"{d}.keys()")

    def referent(x):
        return isinstance(x, ast.Call) and existing(x) and _t(x) not in entry

    stores = {}
    silent = False
    replaces_dead = False
    for path in paths:
        mine = [ev for ev in path.trace if ev.kind == "store" and isinstance(ev.expr, ast.Subscript) and _t(ev.expr.value) == d]
        if path.end != "raise" and all(ev.maybe for ev in mine):
            silent = True
        for ev in mine:
            facts = path.conds_before(ev)
            guarded = _t(ev.expr.slice) == k and (_absent(facts, existing) or any(key_in_dict(c) and not pol for c, pol in facts))
            replaces_dead |= _absent(facts, referent)
            weak = _t(ev.value) in (f"weakref.ref({v})", f"ref({v})", f"ReferenceType({v})", f"weakref.ReferenceType({v})")
            s = stores.setdefault(id(ev.node), {"ev": ev, "weak": True, "guarded": True})
            s["weak"] &= weak
            s["guarded"] &= guarded
    if not stores:
        raise AnalysisError("weakref_utils.insert_once: store not found")
    for s in stores.values():
        ev = s["ev"]
        res.inst(f"insert_once stores {_t(ev.value)} (weak reference)", ok=s["weak"])
        if not s["weak"]:
            res.find("weakref_utils", "insert_once", "the registry entry stored is not a weak reference to the value", f"{io.module.relpath}:{ev.lineno}",
                     "the registry holds a strong reference: removed entities never die, their nodes are never swept and their uids stay taken")
        # refused only when the referent is alive: an entry whose referent died is replaced
        ok = s["guarded"] and not silent and replaces_dead
        res.inst("insert_once: `existing is not None and existing() is not None -> raise` dominates the store", nontrivial=True, ok=ok)
        if not ok:
            res.find("weakref_utils", "insert_once", "live-duplicate raise does not dominate the store", f"{io.module.relpath}:{ev.lineno}",
                     "a second live entity can take a uid that is in use")


def _uids_of_children(e, me) -> bool:
    """The expression is the collection of the uids of self's children."""
    while isinstance(e, ast.Call) and (isinstance(e.func, ast.Name) and e.func.id in ("set", "list", "tuple", "frozenset", "dict", "sorted") and len(e.args) == 1
                                       or isinstance(e.func, ast.Attribute) and e.func.attr == "keys" and not e.args):
        e = e.args[0] if e.args else e.func.value
    if isinstance(e, (ast.ListComp, ast.SetComp, ast.GeneratorExp, ast.DictComp)) and len(e.generators) == 1:
        g = e.generators[0]
        key = e.key if isinstance(e, ast.DictComp) else e.elt
        return _t(g.iter) in (f"{me}._children", f"{me}.children") and isinstance(g.target, ast.Name) and _t(key) == f"{g.target.id}.uid"
    return False


def _attached(ev, me):
    """(element expression, facts about the element) for an event that adds to self._children, else None."""
    c = ev.expr
    if ev.kind == "call" and isinstance(c.func, ast.Attribute) and c.func.attr in ATTACH and _t(c.func.value) == f"{me}._children" and c.args:
        arg = c.args[-1]
    elif ev.kind == "aug" and _t(c) == f"{me}._children":
        arg = ev.value
    else:
        return None
    if ev.kind == "call" and c.func.attr != "extend":
        return [(arg, [])]
    if isinstance(arg, (ast.ListComp, ast.GeneratorExp, ast.SetComp)) and len(arg.generators) == 1:
        return [(arg.elt, [f for cond in arg.generators[0].ifs for f in _implied(cond, True)])]
    if isinstance(arg, (ast.List, ast.Tuple)):
        return [(x, []) for x in arg.elts]
    return [(arg, [])]


def _own_children(ctx, res):
    """children lists hold the entities themselves; ObjectBase refuses a child whose uid is already among its children's uids."""
    p = ctx.p
    for cname in ("EntityContainer", "ObjectBase", "Concatenator"):
        K = p.cls(cname)
        fn = K.methods.get("add_children")
        if fn is None:
            if cname == "EntityContainer":
                # groups/base.py defines add_children on Group
                fn = p.cls("Group").methods.get("add_children")
            if fn is None:
                continue
        me = fn.self_name
        sites = {}
        for path in _paths(ctx, fn, boring=_not_about_uids, tag="uids"):
            for ev in path.trace:
                for elem, facts in _attached(ev, me) or []:
                    s = sites.setdefault((id(ev.node), _t(elem)), {"ev": ev, "elem": elem, "by_uid": True})
                    facts = list(facts) + path.conds_before(ev)
                    child = _t(elem)
                    not_among = any(not pol and isinstance(c, ast.Compare) and isinstance(c.ops[0], ast.In) and _t(c.left) == f"{child}.uid"
                                    and _uids_of_children(c.comparators[0], me) for c, pol in facts)
                    not_any = any(not pol and isinstance(c, ast.Call) and call_name(c) == "any" and len(c.args) == 1 and isinstance(c.args[0], ast.GeneratorExp)
                                  and len(c.args[0].generators) == 1 and _t(c.args[0].generators[0].iter) in (f"{me}._children", f"{me}.children")
                                  and isinstance(c.args[0].elt, ast.Compare) and isinstance(c.args[0].elt.ops[0], ast.Eq)
                                  and {_t(c.args[0].elt.left), _t(c.args[0].elt.comparators[0])} == {f"{child}.uid", f"{_t(c.args[0].generators[0].target)}.uid"}
                                  for c, pol in facts)
                    s["by_uid"] &= not_among or not_any
        if cname == "ObjectBase" and not sites:
            raise AnalysisError("ObjectBase.add_children: the statement that attaches a child to self._children was not found")
        for s in sites.values():
            ev, elem = s["ev"], s["elem"]
            ok = isinstance(elem, ast.Name)
            res.inst(f"{fn.qualname}: self._children gets {_t(elem)[:40]}: keeps the entity itself", ok=ok)
            if not ok:
                res.find(fn.cls.name, "add_children", "children list stores something else than the child itself", f"{fn.module.relpath}:{ev.lineno}",
                         "children are not kept alive by their parent: they die at the next GC and their nodes are swept from the file")
            if cname == "ObjectBase":
                res.inst("ObjectBase.add_children refuses a child whose uid is already among the children's uids", nontrivial=True, ok=s["by_uid"])
                if not s["by_uid"]:
                    res.find("ObjectBase", "add_children", "duplicate guard compares objects, not identifiers", f"{fn.module.relpath}:{ev.lineno}",
                             "a new child that re-uses a sibling's uid is attached before registration refuses it: the object ends up with two children "
                             "sharing one identifier")


def rule_xkind(ctx) -> RuleResult:
    res = RuleResult(
        "C06.XKIND",
        "C06",
        "the duplicate test that precedes the registration of a group / object / data consults every entity registry "
        "(a uid is unique across kinds: get_entity(uid) searches all of them)",
        floor=3,
    )
    p = ctx.p
    reg = p.func("Workspace.register")
    me = reg.self_name
    kinds = {"Group": "_groups", "Data": "_data", "ObjectBase": "_objects"}
    allp = _register_paths(ctx)
    # registries (or cross-kind lookups) consulted on the way to each insertion
    for kind in kinds:
        seen, cross, n = None, True, 0
        for path in allp[kind]:
            ins = [ev for ev, _ in _registry_writes(path, me, p, reg.module)]
            if not ins:
                continue
            n += 1
            upto = path.before(ins[0]) + [ins[0]]
            s = set()
            for ev in upto:
                for x in _ev_exprs(ev):
                    s |= _mentions(x, me, ENTITY_REGISTRIES)
            seen = s if seen is None else seen & s
            cross = cross and any(ev.kind == "call" and not ev.maybe and call_name(ev.expr) in CROSS_KIND for ev in upto[:-1])
        if not n:
            continue
        ok = cross or seen == set(ENTITY_REGISTRIES)
        res.inst(f"register[{kind}] consults {sorted(seen)}{' + cross-kind lookup' if cross else ''}", nontrivial=True, ok=ok)
        if not ok:
            res.find("Workspace", "register", "duplicate test limited to the registry of the entity's own kind", reg.where,
                     f"a {kind} is only checked against self.{kinds[kind]}: an entity of another kind may hold the same uid and "
                     "get_entity(uid) then returns only one of them", kind=kind)
    return res


def rule_effect(ctx) -> RuleResult:
    res = RuleResult(
        "C06.EFFECT",
        "C06",
        "in the constructors of entities and property groups the fallible workspace.register(self) is not preceded by an "
        "effect on another object (parent.add_children, directly or through map_attributes -> parent setter)",
        floor=2,
    )
    p = ctx.p
    for spec in ("Entity.__init__", "PropertyGroup.__init__"):
        fn = p.func(spec)
        me = fn.self_name

        def kind_of(ev):
            if ev.kind == "call":
                c = ev.expr
                name = call_name(c)
                if name == "register" and isinstance(c.func, ast.Attribute) and c.args and _t(c.args[0]) == me:
                    return "register"
                if name == "map_attributes" or (name == "add_children" and isinstance(c.func, ast.Attribute)):
                    return "effect"
                if isinstance(c.func, ast.Name) and name == "setattr" and len(c.args) >= 2 and _t(c.args[0]) == me and "parent" in _t(c.args[1]):
                    return "effect"
            if ev.kind in ("store", "aug") and _t(ev.expr) == f"{me}.parent":
                return "effect"
            return None

        regs = {}
        uid_param = "uid" if "uid" in fn.params else None
        final, told = True, 0
        for path in _paths(ctx, fn, boring=lambda c: True, tag="order"):
            effects = []
            ident = None  # what the identifier was last set from
            first = True
            for ev in path.trace:
                k = kind_of(ev)
                if ev.kind in ("store", "aug") and _t(ev.expr) in (f"{me}._uid", f"{me}.uid") and not ev.maybe:
                    # the value, and what was decided about the caller's request on the way to it (no valid request -> a new one)
                    ident = ast.Tuple(elts=[ev.value] + [c for c, _ in path.conds_before(ev)], ctx=ast.Load())
                if k in ("effect", "register") and first and uid_param is not None:
                    # the first time another object (the parent, the workspace) hears of the entity, its identifier is the final
                    # one: it was set, and set from what the caller asked for
                    first = False
                    told += 1
                    final &= ident is not None and any(isinstance(x, ast.Name) and x.id == uid_param for x in ast.walk(ident))
                if k == "effect":
                    effects.append(ev.lineno)
                elif k == "register":
                    regs.setdefault(id(ev.node), (ev, set()))[1].update(effects)
        if not regs:
            raise AnalysisError(f"{spec}: workspace.register(self) not found")
        if uid_param is not None and told:
            res.inst(f"{spec}: the identifier is set from the caller's `{uid_param}` before the parent / the workspace hear of the entity", nontrivial=True, ok=final)
            if not final:
                res.find(fn.cls.name, "__init__", "identifier not final when the entity is first shown to its parent / the workspace", fn.where,
                         "the entity is attached (map_attributes -> parent setter -> add_children) or registered under a provisional identifier and takes the "
                         "requested one afterwards: the parent's duplicate test by uid does not see the collision, a refused creation stays among the children "
                         "and two children answer to one identifier")
        for r, lines in regs.values():
            before = sorted(lines)
            ok = not before
            res.inst(f"{spec}: register(self) at line {r.lineno}, effects on other objects before it: {before}", nontrivial=True, ok=ok)
            if not ok:
                res.find(fn.cls.name, "__init__", "effect on the parent precedes the fallible registration", fn.where,
                         f"lines {before} (map_attributes -> parent setter -> parent.add_children / add_children) run before "
                         "workspace.register(self) can refuse a duplicate uid: a refused creation leaves a ghost child in the parent, "
                         "which close() then links on file")
    return res


def _strip_ws(e):
    """X for X.workspace, X.root.workspace, ...: the root of a workspace lives in that workspace, Workspace.workspace is the workspace."""
    while isinstance(e, ast.Attribute) and e.attr in ("workspace", "root"):
        e = e.value
    return e


def _uid_reuse(ev):
    """Values an event puts under the key / keyword 'uid' (a dict item store, a dict display, a keyword argument)."""
    if ev.kind == "store" and isinstance(ev.expr, ast.Subscript) and isinstance(ev.expr.slice, ast.Constant) and ev.expr.slice.value == "uid":
        return [ev.value]
    if ev.kind == "obj":
        return _const_key_values(ev.value, "uid")
    if ev.kind == "call":
        c = ev.expr
        if call_name(c) == "setdefault" and len(c.args) == 2 and isinstance(c.args[0], ast.Constant) and c.args[0].value == "uid":
            return [c.args[1]]
        return _const_key_values(c, "uid")
    return []


def rule_guard(ctx) -> RuleResult:
    res = RuleResult(
        "C06.GUARD",
        "C06",
        "every place that re-uses an identifier on copy does so only under a lookup for that uid in the TARGET workspace",
        floor=3,
    )
    p = ctx.p
    # (function, name of the parameter that stands for the target, the call that creates the copy)
    for spec, target, creators in (("Workspace.copy_to_parent", "parent", ("create_entity",)),
                                   ("Workspace.copy_property_groups", "entity", ("find_or_create_property_group",))):
        fn = p.func(spec)
        if target not in fn.params:
            raise AnalysisError(f"{spec}: parameter {target} not found")
        sites = {}
        for path in _paths(ctx, fn, boring=_no_lookup, tag="lookup"):
            for i, ev in enumerate(path.trace):
                if ev.kind == "call" and call_name(ev.expr) in LOOKUPS:
                    continue  # get_entity(uid=...) is the question, not a re-use
                for val in _uid_reuse(ev):
                    for v, sel in _alternatives(val):
                        if not (isinstance(v, ast.Attribute) and v.attr == "uid"):
                            continue  # None / a fresh uid: not a re-use
                        made = next((e for e in path.trace[i:] if e.kind == "call" and call_name(e.expr) in creators and isinstance(e.expr.func, ast.Attribute)), None)
                        if made is None:
                            continue  # no copy is created on this path
                        where_made = _t(_strip_ws(made.expr.func.value))
                        src = _t(v)

                        def free_in_target(x):
                            if isinstance(x, ast.Subscript) and isinstance(x.slice, ast.Constant) and x.slice.value == 0:
                                x = x.value
                            if not (isinstance(x, ast.Call) and isinstance(x.func, ast.Attribute) and x.func.attr in LOOKUPS and x.args and _t(x.args[0]) == src):
                                return False
                            recv = x.func.value
                            return isinstance(recv, ast.Attribute) and recv.attr == "workspace" and _root(recv) == target and _t(_strip_ws(recv)) == where_made

                        ok = _absent(list(sel) + path.conds_before(ev), free_in_target)
                        s = sites.setdefault((id(ev.node), src), {"ev": ev, "ok": True})
                        s["ok"] &= ok
        if not sites:
            raise AnalysisError(f"{spec}: uid re-use statement not found")
        for (_, src), s in sites.items():
            ev = s["ev"]
            res.inst(f"{spec}: uid re-use of `{src[:50]}` at line {ev.lineno} only when the lookup in {target}.workspace finds nothing", nontrivial=True, ok=s["ok"])
            if not s["ok"]:
                res.find("Workspace", fn.name, "uid re-use not guarded by a lookup in the target", f"{fn.module.relpath}:{ev.lineno}",
                         f"the copy takes the source's uid without checking that it is free in {target}.workspace: copying into the same "
                         "workspace (or one that already holds that uid) is refused or duplicates the identifier")
    # the default must be 'no uid' (fresh)
    ctp = p.func("Workspace.copy_to_parent")
    src_param = ctp.params[1] if len(ctp.params) > 1 else None
    harvest = {}
    for path in _paths(ctx, ctp, boring=_no_lookup, tag="lookup"):
        for ev in path.trace:
            if ev.kind == "call" and call_name(ev.expr) == "get_attributes" and ev.expr.args and _t(ev.expr.args[0]) == src_param:
                c = ev.expr
                kw = {k.arg: k.value for k in c.keywords}
                omit = kw.get("omit_list", c.args[1] if len(c.args) > 1 else None)
                attrs = kw.get("attributes", c.args[2] if len(c.args) > 2 else None)
                if isinstance(attrs, ast.Name) and attrs.id in path.objdefs:
                    attrs = path.objdefs[attrs.id]
                if isinstance(omit, ast.Name) and omit.id in path.objdefs:
                    omit = path.objdefs[omit.id]
                omit_uid = omit is not None and any(isinstance(x, ast.Constant) and x.value == "_uid" for x in ast.walk(omit))
                no_uid = isinstance(attrs, ast.Dict) and any(isinstance(v, ast.Constant) and v.value is None for v in _const_key_values(attrs, "uid")) \
                    and all(isinstance(v, ast.Constant) and v.value is None for v in _const_key_values(attrs, "uid"))
                harvest[id(ev.node)] = harvest.get(id(ev.node), True) and omit_uid and no_uid
    ok = bool(harvest) and all(harvest.values())
    res.inst("copy_to_parent: harvested attributes start without a uid (omit '_uid', attributes={'uid': None})", ok=ok)
    if not ok:
        res.find("Workspace", "copy_to_parent", "the source uid is harvested into the copy's constructor arguments", ctp.where,
                 "copies into the same workspace re-use the identifier of their source")
    _guard_type_copy(ctx, res)
    _guard_concatenated(ctx, res)
    _guard_type_uid(ctx, res)
    return res


def _surely_has_key(path, ev, obj, key) -> bool:
    """The local dictionary `obj` certainly holds `key` when event `ev` happens: it was created with it (a display, or the result of
    get_attributes(.., attributes={key: ..}) / of get_attributes over an object whose `_key` is not omitted) or the key was stored
    into it, and nothing removed it since."""
    def made_with(v, upto, depth=0):
        """The dictionary built by the (closed) expression holds the key."""
        if depth > 4:
            return False
        if isinstance(v, ast.Name):
            return v.id in path.objdefs and _surely_has_key(path, upto, v.id, key)
        if isinstance(v, ast.Dict):
            return any(isinstance(k, ast.Constant) and k.value == key for k in v.keys) or any(k is None and made_with(x, upto, depth + 1) for k, x in zip(v.keys, v.values))
        if isinstance(v, ast.Call) and call_name(v) == "get_attributes":
            kw = {k.arg: k.value for k in v.keywords}
            start = kw.get("attributes", v.args[2] if len(v.args) > 2 else None)
            omit = kw.get("omit_list", v.args[1] if len(v.args) > 1 else None)
            literal = omit is None or isinstance(omit, (ast.List, ast.Tuple, ast.Set)) and all(isinstance(x, ast.Constant) for x in omit.elts)
            harvested = key == "uid" and literal and not any(isinstance(x, ast.Constant) and x.value == "_" + key for x in ast.walk(omit or ast.Tuple(elts=[])))
            return harvested or (start is not None and made_with(start, upto, depth + 1))
        # copies with the same keys: dict(d), d.copy(), deepcopy(d), {k: f(v) for k, v in d.items()}
        if isinstance(v, ast.Call) and (isinstance(v.func, ast.Name) and v.func.id in ("dict", "deepcopy", "copy") and len(v.args) == 1 and not v.keywords
                                        or isinstance(v.func, ast.Attribute) and v.func.attr in ("deepcopy",) and len(v.args) == 1):
            return made_with(v.args[0], upto, depth + 1)
        if isinstance(v, ast.Call) and isinstance(v.func, ast.Attribute) and v.func.attr == "copy" and not v.args:
            return made_with(v.func.value, upto, depth + 1)
        if isinstance(v, ast.DictComp) and len(v.generators) == 1 and not v.generators[0].ifs:
            g = v.generators[0]
            it = g.iter
            if isinstance(g.target, ast.Tuple) and len(g.target.elts) == 2 and _t(v.key) == _t(g.target.elts[0]) \
                    and isinstance(it, ast.Call) and isinstance(it.func, ast.Attribute) and it.func.attr == "items" and not it.args:
                return made_with(it.func.value, upto, depth + 1)
            if isinstance(g.target, ast.Name) and _t(v.key) == g.target.id:
                if isinstance(it, ast.Call) and isinstance(it.func, ast.Attribute) and it.func.attr == "keys" and not it.args:
                    it = it.func.value
                return made_with(it, upto, depth + 1)
        return False

    has = False
    for e in path.before(ev):
        if e.maybe:
            continue
        if e.kind == "obj" and _t(e.expr) == obj:
            has = made_with(e.value, e)
        elif e.kind == "store" and isinstance(e.expr, ast.Subscript) and _t(e.expr.value) == obj and isinstance(e.expr.slice, ast.Constant) and e.expr.slice.value == key:
            has = True
        elif e.kind == "del" and isinstance(e.expr, ast.Subscript) and _t(e.expr.value) == obj and (not isinstance(e.expr.slice, ast.Constant) or e.expr.slice.value == key):
            has = False
        elif e.kind == "call" and isinstance(e.expr.func, ast.Attribute) and _t(e.expr.func.value) == obj and e.expr.func.attr in ("pop", "clear", "popitem"):
            if e.expr.func.attr != "pop" or not (e.expr.args and isinstance(e.expr.args[0], ast.Constant) and e.expr.args[0].value != key):
                has = False
    return has


def _excludes_key(e, key, has_key=lambda obj: False) -> bool:
    """The (closed) iterable / filter leaves the key out: `.. - {key}`, `.. - d.keys()` with d a dictionary that surely holds the key,
    `k != key`, `k not in (.., key, ..)`, `k not in d`."""
    def holds(x):
        if any(isinstance(c, ast.Constant) and c.value == key for c in ast.walk(x)):
            return True
        if isinstance(x, ast.Call) and isinstance(x.func, ast.Attribute) and x.func.attr == "keys" and not x.args:
            x = x.func.value
        if isinstance(x, ast.Call) and isinstance(x.func, ast.Name) and x.func.id in ("set", "list", "tuple", "frozenset") and len(x.args) == 1:
            x = x.args[0]
        return isinstance(x, ast.Name) and has_key(x.id)

    for x in ast.walk(e):
        if isinstance(x, ast.BinOp) and isinstance(x.op, ast.Sub) and holds(x.right):
            return True
        if isinstance(x, ast.Compare) and len(x.ops) == 1 and isinstance(x.ops[0], ast.NotIn) and holds(x.comparators[0]):
            return True
        if isinstance(x, ast.Compare) and len(x.ops) == 1 and isinstance(x.ops[0], (ast.NotEq, ast.NotIn)) \
                and any(isinstance(c, ast.Constant) and c.value == key for c in ast.walk(x.comparators[0])):
            return True
    return False


def _guard_type_uid(ctx, res):
    """copy_to_parent: the caller's keyword arguments override the attributes harvested from the source, entity and type alike.  The
    identifier asked for is the COPY's: whatever writes caller-chosen keys into the dictionary of the TYPE must leave 'uid' out."""
    fn = ctx.p.func("Workspace.copy_to_parent")
    kwargs = fn.node.args.kwarg.arg if fn.node.args.kwarg else None
    if kwargs is None:
        return
    sites = {}

    def from_caller(e):
        return e is not None and any(isinstance(x, ast.Name) and x.id == kwargs for x in ast.walk(e))

    for path in _paths(ctx, fn, boring=_no_lookup, tag="lookup"):
        made = next((e for e in path.trace if e.kind == "call" and call_name(e.expr) == "create_entity"), None)
        if made is None:
            continue
        types = {v.id for k in made.expr.keywords for v in ([k.value] if k.arg == "entity_type" else
                                                             [y for x, y in zip(k.value.keys, k.value.values) if isinstance(x, ast.Constant) and x.value == "entity_type"]
                                                             if k.arg is None and isinstance(k.value, ast.Dict) else []) if isinstance(v, ast.Name)}
        for ev in path.before(made):
            ok = None

            def has(obj, ev=ev):
                return _surely_has_key(path, ev, obj, "uid")

            if ev.kind == "call" and isinstance(ev.expr.func, ast.Attribute) and ev.expr.func.attr == "update" and _t(ev.expr.func.value) in types:
                for a in ev.expr.args:
                    if isinstance(a, (ast.GeneratorExp, ast.ListComp, ast.DictComp)) and from_caller(a):
                        ok = _excludes_key(a, "uid", has)
                    elif isinstance(a, ast.Name) and a.id == kwargs:
                        ok = False
            elif ev.kind == "store" and isinstance(ev.expr, ast.Subscript) and _t(ev.expr.value) in types and not isinstance(ev.expr.slice, ast.Constant):
                k = path.iteration_of(ev)
                loop = path.trace[k] if k is not None else None
                if from_caller(ev.value) or (loop is not None and from_caller(loop.expr)):
                    key = _t(ev.expr.slice)
                    ok = (loop is not None and loop.expr is not None and _excludes_key(loop.expr, "uid", has)) or any(
                        not pol and isinstance(c, ast.Compare) and isinstance(c.ops[0], (ast.Eq, ast.In)) and _t(c.left) == key
                        and (any(isinstance(x, ast.Constant) and x.value == "uid" for x in ast.walk(c.comparators[0]))
                             or isinstance(c.ops[0], ast.In) and _excludes_key(ast.Compare(left=c.left, ops=[ast.NotIn()], comparators=c.comparators), "uid", has))
                        for c, pol in path.conds_before(ev))
            if ok is not None:
                s_ = sites.setdefault(id(ev.node), {"ev": ev, "ok": True})
                s_["ok"] &= ok
    for s_ in sites.values():
        ev = s_["ev"]
        res.inst(f"copy_to_parent: caller's keyword arguments written into the type attributes at line {ev.lineno} leave 'uid' out", nontrivial=True, ok=s_["ok"])
        if not s_["ok"]:
            res.find("Workspace", "copy_to_parent", "caller's uid also overrides the uid of the copy's type", f"{fn.module.relpath}:{ev.lineno}",
                     "copy(uid=X) asks for a type with uid X as well: no copy is made for an object (no class owns type X), a data copy gets a new type "
                     "under the data's own identifier instead of sharing the type of its source")


CONCATENATED_IDS = ("concatenated_object_ids", "concatenated_attributes")


def _guard_concatenated(ctx, res):
    """Concatenator.copy: the identifiers of all concatenated objects and data travel in two attributes of the group.  Handing the
    source's values over to the copy re-uses every one of those identifiers: only under a test that none of them is in use in the
    copy's workspace (an all(..) / any(..) over look-ups there)."""
    fn = ctx.p.func("Concatenator.copy")
    me = fn.self_name
    sites = {}
    for path in _paths(ctx, fn, boring=_no_lookup, tag="lookup"):
        for ev in path.trace:
            if not (ev.kind == "store" and isinstance(ev.expr, ast.Attribute) and ev.expr.attr in CONCATENATED_IDS and ev.value is not None):
                continue
            if _t(ev.expr.value) == me or not any(isinstance(x, ast.Attribute) and x.attr.lstrip("_") in CONCATENATED_IDS and _t(x.value) == me for x in ast.walk(ev.value)):
                continue  # not the source's identifiers going to another entity
            target = _t(_strip_ws(ev.expr.value))

            def free_in_target(x):
                if isinstance(x, ast.Subscript) and isinstance(x.slice, ast.Constant) and x.slice.value == 0:
                    x = x.value
                if not (isinstance(x, ast.Call) and isinstance(x.func, ast.Attribute) and x.func.attr in LOOKUPS and x.args):
                    return False
                recv = x.func.value
                return isinstance(recv, ast.Attribute) and recv.attr == "workspace" and _t(_strip_ws(recv)) == target

            def all_free(c, pol):
                if not (isinstance(c, ast.Call) and isinstance(c.func, ast.Name) and c.func.id in ("all", "any") and len(c.args) == 1
                        and isinstance(c.args[0], (ast.GeneratorExp, ast.ListComp)) and len(c.args[0].generators) == 1):
                    return False
                g = c.args[0]
                if not any(isinstance(x, ast.Name) and x.id == me for x in ast.walk(g.generators[0].iter)):
                    return False  # not a test over the source's identifiers
                wanted = c.func.id == "all"
                return pol == wanted and not g.generators[0].ifs and _absent(_implied(g.elt, wanted), free_in_target)

            ok = any(all_free(c, pol) for c, pol in path.conds_before(ev))
            s_ = sites.setdefault(id(ev.node), {"ev": ev, "ok": True})
            s_["ok"] &= ok
    for s_ in sites.values():
        ev = s_["ev"]
        res.inst(f"Concatenator.copy: `{ev.expr.attr}` of the source handed to the copy at line {ev.lineno} only when no identifier in it is in use in the copy's workspace",
                 nontrivial=True, ok=s_["ok"])
        if not s_["ok"]:
            res.find("Concatenator", "copy", "concatenated identifiers handed to the copy without a lookup in the target", f"{fn.module.relpath}:{ev.lineno}",
                     "the identifiers of every concatenated object and data of the group are re-used in the other workspace unchecked: a second copy into the "
                     "same workspace is refused half-way (RuntimeError from insert_once) and leaves an empty duplicate group behind")


def _guard_type_copy(ctx, res):
    """EntityType.copy: the attribute dictionary handed to the constructor has lost its uid whenever that uid is a key of the
    target workspace's types — the target being read from the dictionary AFTER the caller's kwargs were merged into it."""
    et = ctx.p.func("EntityType.copy")
    kwargs = et.node.args.kwarg.arg if et.node.args.kwarg else None
    n, ok = 0, kwargs is not None
    for path in _paths(ctx, et, boring=_not_about_uids, tag="uids"):
        if path.end != "return" or not isinstance(path.value, ast.Call):
            continue
        splat = [k.value for k in path.value.keywords if k.arg is None]
        if len(splat) != 1:
            continue
        n += 1
        A = _t(splat[0])
        trace = path.trace
        merged = None
        if isinstance(splat[0], ast.Dict) and any(k is None and _t(v) == kwargs for k, v in zip(splat[0].keys, splat[0].values)):
            merged = -1
        for i, ev in enumerate(trace):
            if merged is not None:
                break
            if ev.maybe:
                continue
            if ev.kind == "call" and call_name(ev.expr) == "update" and isinstance(ev.expr.func, ast.Attribute) and _t(ev.expr.func.value) == A \
                    and [_t(a) for a in ev.expr.args] == [kwargs]:
                merged = i
            elif ev.kind == "aug" and _t(ev.expr) == A and _t(ev.value) == kwargs and isinstance(ev.node.op, ast.BitOr):
                merged = i
            elif ev.kind == "obj" and _t(ev.expr) == A and isinstance(ev.value, ast.Dict) and ev.value.keys and ev.value.keys[-1] is None and _t(ev.value.values[-1]) == kwargs:
                merged = i
        me = et.self_name
        uid_of = (f"{A}.get('uid')", f"{A}.get('uid', None)", f"{A}['uid']")
        # what the merged dictionary holds is also known from its two sources: the caller's kwargs win over self's own values
        uid_any_time = (f"{kwargs}.get('uid', {me}.uid)",)
        ws_any_time = (f"{kwargs}.get('workspace', {me}.workspace)",)
        good = False
        if merged is not None:
            for i, ev in enumerate(trace):
                if ev.kind != "cond" or ev.maybe:
                    continue
                c, pol = norm_cond(ev.expr, ev.pol)
                if not (isinstance(c, ast.Compare) and len(c.ops) == 1 and isinstance(c.ops[0], ast.In)):
                    continue
                if _t(c.left) == "'uid'" and _t(c.comparators[0]) in (A, f"{A}.keys()") and not pol and i > merged:
                    good = True  # no uid at all
                    break
                types = c.comparators[0]
                if isinstance(types, ast.Call) and call_name(types) == "keys" and not types.args:
                    types = types.func.value
                if not (isinstance(types, ast.Attribute) and types.attr == "_types"):
                    continue
                w = _t(types.value)
                def after_merge(x):  # read from the dictionary after the kwargs went into it
                    t0 = path.when(x)
                    return i > merged and (t0 is None or t0 > merged)

                if not (_t(c.left) in uid_of and after_merge(c.left) or _t(c.left) in uid_any_time):
                    continue
                if not ((w.startswith(f"{A}.get('workspace'") or w == f"{A}['workspace']") and after_merge(types.value) or w in ws_any_time):
                    continue
                dropped = any(e.kind == "del" and _t(e.expr) == f"{A}['uid']" or e.kind == "call" and call_name(e.expr) == "pop" and isinstance(e.expr.func, ast.Attribute)
                              and _t(e.expr.func.value) == A and e.expr.args and _t(e.expr.args[0]) == "'uid'" for e in trace[i:] if not e.maybe)
                good = dropped if pol else True
                break
        ok = ok and good
    ok = ok and n > 0
    res.inst("EntityType.copy drops the uid when it is taken in the target workspace's types (kwargs merged first)", nontrivial=True, ok=ok)
    if not ok:
        res.find("EntityType", "copy", "uid kept although the target workspace may hold that type uid", et.where,
                 "copying a type into the same workspace collides with the original")


def _writes_key(ev, obj, key) -> bool:
    """The event sets, replaces or removes the entry `key` of the local dictionary `obj` (whatever was there before is gone)."""
    if ev.maybe:
        return False
    if ev.kind in ("store", "del") and isinstance(ev.expr, ast.Subscript) and _t(ev.expr.value) == obj:
        return isinstance(ev.expr.slice, ast.Constant) and ev.expr.slice.value == key
    if ev.kind == "obj" and _t(ev.expr) == obj:
        return True  # a new dictionary
    if ev.kind == "call" and isinstance(ev.expr.func, ast.Attribute) and _t(ev.expr.func.value) == obj:
        c = ev.expr
        if c.func.attr == "clear":
            return True
        if c.func.attr == "pop":
            return bool(c.args) and isinstance(c.args[0], ast.Constant) and c.args[0].value == key
        if c.func.attr == "update":
            return any(k.arg == key for k in c.keywords) or any(isinstance(a, ast.Dict) and any(isinstance(k, ast.Constant) and k.value == key for k in a.keys) for a in c.args)
    return False


def rule_fresh(ctx) -> RuleResult:
    res = RuleResult(
        "C06.FRESH",
        "C06",
        "a copy made in a loop gets arguments of its own: the 'uid' entry of the dictionary handed to the creation call is decided within the "
        "same turn of the loop on every path (a new dictionary, or the entry set / removed), never inherited from the previous turn",
        floor=1,
    )
    p = ctx.p
    for spec, creators in (("Workspace.copy_to_parent", ("create_entity",)), ("Workspace.copy_property_groups", ("find_or_create_property_group",))):
        fn = p.func(spec)
        sites = {}
        for path in _paths(ctx, fn, boring=_no_lookup, tag="lookup"):
            for made in path.trace:
                if not (made.kind == "call" and call_name(made.expr) in creators):
                    continue
                # local dictionaries handed over: **d, name=d, **{"name": d}
                vals = list(made.expr.args) + [k.value for k in made.expr.keywords]
                vals += [v for x in vals if isinstance(x, ast.Dict) for v in x.values]
                objs = sorted({x.id for x in vals if isinstance(x, ast.Name) and x.id in path.objdefs})
                start = path.iteration_of(made)
                for obj in objs:
                    s = sites.setdefault((id(made.node), obj), {"ev": made, "ok": True, "loop": False})
                    if start is None:
                        continue  # not in a loop: one copy per call
                    s["loop"] = True
                    i = next(k for k, e in enumerate(path.trace) if e is made)
                    s["ok"] &= any(_writes_key(e, obj, "uid") for e in path.trace[start:i])
                if not objs:
                    sites.setdefault((id(made.node), ""), {"ev": made, "ok": True, "loop": start is not None})
        if not sites:
            raise AnalysisError(f"{spec}: the call that creates the copy was not found")
        for (_, obj), s in sites.items():
            what = "inside a loop: the uid entry of its arguments is decided in every turn" if s["loop"] else "not in a loop"
            res.inst(f"{spec}: creation at line {s['ev'].lineno} {what}", nontrivial=s["loop"], ok=s["ok"])
            if not s["ok"]:
                res.find("Workspace", fn.name, "arguments of the copy are carried over from the previous turn of the loop", f"{fn.module.relpath}:{s['ev'].lineno}",
                         "the dictionary handed to the creation call outlives one turn of the loop and nothing in the turn resets its 'uid' entry on the path "
                         "where the identifier is taken: the uid kept for an earlier copy is passed for a later one, which is then merged with / refused as the earlier")
    return res


def rule_typekind(ctx) -> RuleResult:
    res = RuleResult(
        "C06.TYPEKIND",
        "C06",
        "a type handed back for re-use is looked up among the types of the REQUESTING class: Workspace.find_type answers only an instance of the "
        "class it is given, EntityType.find gives it cls, and find_or_create returns either such a find for cls or a newly constructed cls(..)",
        floor=3,
    )
    p = ctx.p

    def strip(v):
        while isinstance(v, ast.Call) and call_name(v) == "cast" and len(v.args) == 2:
            v = v.args[1]
        return v

    def restricted_to(v, k, workspace=None):
        """v is `X.find_type(uid, k)` (or `k.find(X, uid)`): a look-up that answers instances of k only."""
        v = strip(v)
        if not isinstance(v, ast.Call) or not isinstance(v.func, ast.Attribute):
            return False
        if v.func.attr == "find_type":
            kw = {x.arg: x.value for x in v.keywords}
            given = v.args[1] if len(v.args) > 1 else kw.get("type_class")
            return given is not None and _t(given) == k
        return v.func.attr == "find" and _t(v.func.value) == k

    # 1. Workspace.find_type: whatever it returns (other than None) is an instance of the class asked for
    ft = p.func("Workspace.find_type")
    if len(ft.params) < 3:
        raise AnalysisError("Workspace.find_type: parameters (uid, class) not found")
    klass = ft.params[2]
    ok, n = True, 0
    for path in _paths(ctx, ft):
        if path.end != "return" or path.value is None:
            continue
        ret = next((e for e in reversed(path.trace) if e.kind == "return"), None)
        for v, sel in _alternatives(path.value):
            if isinstance(v, ast.Constant) and v.value is None:
                continue
            n += 1
            facts = list(sel) + (path.conds_before(ret) if ret is not None else [])
            ok &= any(pol and isinstance(c, ast.Call) and call_name(c) == "isinstance" and len(c.args) == 2 and _t(c.args[1]) == klass
                      and _t(v) in {_t(a) for a, _ in _alternatives(c.args[0])} for c, pol in facts)
    res.inst("Workspace.find_type returns the registered type only when it is an instance of the class asked for", nontrivial=True, ok=ok and n > 0)
    if not (ok and n):
        res.find("Workspace", "find_type", "a type is returned without the test of its class", ft.where,
                 "a look-up for a group type answers the data / object type that owns the uid: entities of different kinds share one type")
    # 2. every find / find_or_create of the EntityType family
    et = p.cls("EntityType")
    seen = 0
    for K in [c for c in p.classes if et in c.mro]:
        for mname in ("find", "find_or_create"):
            fn = K.methods.get(mname)
            if fn is None:
                continue
            if fn.kind != "classmethod" or not fn.params:
                raise AnalysisError(f"{fn.qualname}: expected a classmethod")
            k = fn.params[0]
            ok, n = True, 0
            for path in _paths(ctx, fn):
                if path.end != "return" or path.value is None:
                    continue
                for v, _ in _alternatives(path.value):
                    if isinstance(v, ast.Constant) and v.value is None:
                        continue
                    n += 1
                    built = isinstance(strip(v), ast.Call) and _t(strip(v).func) == k
                    ok &= restricted_to(v, k) or (mname == "find_or_create" and built)
            seen += 1
            res.inst(f"{fn.qualname}: an existing type is returned only from a look-up restricted to {k}", nontrivial=True, ok=ok and n > 0)
            if not (ok and n):
                res.find(K.name, mname, "existing type returned from a look-up that is not restricted to the requesting class", fn.where,
                         "the uid of a type of another kind (data / group / object share one registry) is answered with that foreign type instead of being "
                         "refused by the registration: two kinds of entities share one type and one identifier")
    if seen < 2:
        raise AnalysisError("EntityType.find / find_or_create not found")
    return res


def rule_xlookup(ctx) -> RuleResult:
    res = RuleResult(
        "C06.XLOOKUP",
        "C06",
        "the look-up of an identifier across kinds (Workspace.find_entity) answers 'nothing' only when no registry of entities holds a LIVE "
        "referent under it: on every path that may return None, each of the group / data / object / property-group registries was found "
        "without the key or with a dead referent (a key whose referent died stays until the sweep and must not end the search)",
        floor=1,
    )
    p = ctx.p
    fn = p.func("Workspace.find_entity")
    me = fn.self_name
    required = set(REGISTRIES) - {"_types"}
    if len(fn.params) < 2:
        raise AnalysisError("Workspace.find_entity: identifier parameter not found")

    # per-kind look-ups of the workspace: method name -> the one registry whose live referent it returns
    per_kind = {}
    for name in LOOKUPS:
        m = p.cls("Workspace").methods.get(name)
        if m is None or m is fn or len(m.params) != 2:
            continue
        got = set()
        for path in _paths(ctx, m):
            if path.end == "return" and path.value is not None:
                for v, _ in _alternatives(path.value):
                    if not (isinstance(v, ast.Constant) and v.value is None):
                        r = _referent_of(v, m.self_name, {})
                        got.add(r)
        if len(got) == 1 and None not in got:
            per_kind[name] = got.pop()

    def no_live(c, pol):
        """registry for which the decided condition shows there is no live referent under the key"""
        x = _is_none_test(c)
        if x is not None and pol or x is None and not pol and not isinstance(c, ast.Compare):
            x = x if x is not None else c
            r = _referent_of(x, me, per_kind)
            if r:
                return r
            # the entry itself: `registry.get(key) is None` -> no key
            if isinstance(x, ast.Call) and isinstance(x.func, ast.Attribute) and x.func.attr == "get" and x is not c:
                return _registry_attr(x.func.value, me)
        if isinstance(c, ast.Compare) and len(c.ops) == 1 and isinstance(c.ops[0], ast.In) and not pol:
            k = c.comparators[0]
            if isinstance(k, ast.Call) and isinstance(k.func, ast.Attribute) and k.func.attr == "keys" and not k.args:
                k = k.func.value
            return _registry_attr(k, me)
        return None

    ok, n = True, 0
    for path in _paths(ctx, fn):
        if path.end == "raise":
            continue
        ret = next((e for e in reversed(path.trace) if e.kind == "return"), None)
        facts = path.conds_before(ret) if ret is not None else []
        value = path.value if path.value is not None else ast.Constant(value=None)
        for v, sel in _alternatives(value):
            known = {(_t(c), pol) for c, pol in facts}
            if any((_t(c), not pol) in known for c, pol in sel):
                continue  # this alternative is not taken on this path
            allf = list(facts) + list(sel)
            covered = {r for r in (no_live(c, pol) for c, pol in allf) if r}
            operands = v.values if isinstance(v, ast.BoolOp) and isinstance(v.op, ast.Or) else [v]
            may_be_nothing = False
            for o in operands:
                if isinstance(o, ast.Constant) and o.value is None:
                    may_be_nothing = True
                    continue
                r = _referent_of(o, me, per_kind)
                if r is None:
                    continue  # something else than a referent of a registry: not this rule's business
                covered.add(r)
                alive = any((x is not None and not pol and _t(x) == _t(o)) or (x is None and pol and _t(c) == _t(o)) for c, pol in allf for x in [_is_none_test(c)])
                may_be_nothing |= not alive
            if isinstance(v, ast.BoolOp) and isinstance(v.op, ast.Or):
                may_be_nothing = True
            if may_be_nothing:
                n += 1
                ok &= required <= covered
    res.inst(f"Workspace.find_entity: every way of answering nothing has looked for a live referent in {sorted(required)}", nontrivial=True, ok=ok and n > 0)
    if not (ok and n):
        res.find("Workspace", "find_entity", "the search ends without a live referent before every registry was consulted", fn.where,
                 "a key left behind by a dead entity in one registry (dead keys stay until the sweep) hides the live entity that owns the identifier in "
                 "another: get_entity / find_entity answer None for an identifier in use, copies take it for free and are refused")
    return res


def _referent_of(x, me, per_kind):
    """Registry whose LIVE REFERENT under a key the (closed) expression denotes, or None: registry.get(k)() / registry[k]() /
    `None if e is None else e()` / get_clean_ref(registry, k) / one of the per-kind look-ups of the workspace."""
    if isinstance(x, ast.IfExp):
        rs = {_referent_of(v, me, per_kind) for v in (x.body, x.orelse) if not (isinstance(v, ast.Constant) and v.value is None)}
        return rs.pop() if len(rs) == 1 else None
    if not isinstance(x, ast.Call):
        return None
    if not x.args and not x.keywords and isinstance(x.func, (ast.Call, ast.Subscript)):
        e = x.func
        base = e.func.value if isinstance(e, ast.Call) and isinstance(e.func, ast.Attribute) and e.func.attr == "get" else e.value if isinstance(e, ast.Subscript) else None
        return _registry_attr(base, me) if base is not None else None
    name = call_name(x)
    if name == "get_clean_ref" and x.args:
        return _registry_attr(x.args[0], me)
    if name in per_kind and isinstance(x.func, ast.Attribute) and _t(x.func.value) == me:
        return per_kind[name]
    return None


RULES = [rule_own, rule_xkind, rule_effect, rule_guard, rule_fresh, rule_typekind, rule_xlookup]
