"""C06 — identifiers are unique within a workspace and stable across copies (structural clauses)."""

from __future__ import annotations

import ast

from ..cfg import CFG, dominators, forward, ordered
from ..model import AnalysisError, unparse
from ..report import RuleResult

REGISTRIES = ("_data", "_groups", "_objects", "_types", "_property_groups")
ENTITY_REGISTRIES = ("_data", "_groups", "_objects")


def _only_raises(g, start):
    seen, stack = set(), [start]
    while stack:
        n = stack.pop()
        if n in seen:
            continue
        seen.add(n)
        if n is g.exit:
            return False
        if n.kind == "raise":
            continue
        stack.extend(m for m, _ in n.succ)
    return True


def rule_own(ctx, rule_id="C06.OWN", prop="C06") -> RuleResult:
    res = RuleResult(
        rule_id,
        prop,
        "the five uid registries are re-bound only in Workspace.__init__/open, receive items only through "
        "weakref_utils.insert_once (which raises on a live duplicate before it stores a weakref.ref), lose items only in the "
        "dead-reference sweeps; children lists hold the entity objects themselves",
        floor=12,
    )
    p = ctx.p
    ws = p.cls("Workspace")
    for fn in p.all_functions():
        for n in ast.walk(fn.node):
            # re-binding
            if isinstance(n, ast.Attribute) and n.attr in REGISTRIES and isinstance(n.ctx, ast.Store) and isinstance(n.value, ast.Name):
                if fn.cls is not None and ws in fn.cls.mro and n.value.id == fn.self_name:
                    ok = fn.name in ("__init__", "open")
                    res.inst(f"{fn.qualname}:{n.lineno} re-binds self.{n.attr}", ok=ok)
                    if not ok:
                        res.find("Workspace", fn.prop or fn.name, f"re-binds registry self.{n.attr}", f"{fn.module.relpath}:{n.lineno}",
                                 "a registry is replaced outside __init__/open: live entities drop out of the uid lookup and their uids can be reused")
            # item store / delete on a registry expression
            if isinstance(n, ast.Subscript) and isinstance(n.ctx, (ast.Store, ast.Del)) and isinstance(n.value, ast.Attribute) and n.value.attr in REGISTRIES:
                if isinstance(n.value.value, ast.Name) and (fn.cls is None or n.value.value.id == fn.self_name and ws in fn.cls.mro or n.value.value.id != fn.self_name):
                    # fields named _data / _groups ... of other classes (Concatenator._data) are different fields
                    if fn.cls is not None and ws not in fn.cls.mro and n.value.value.id == fn.self_name:
                        continue
                    res.inst(f"{fn.qualname}:{n.lineno} direct item store on {unparse(n.value)}", ok=False)
                    res.find(fn.cls.name if fn.cls else fn.module.short, fn.prop or fn.name, f"direct store/delete on registry {unparse(n.value)}",
                             f"{fn.module.relpath}:{n.lineno}", "a registry entry is written without the duplicate check of insert_once")
            # mutating calls on a registry
            if isinstance(n, ast.Call) and isinstance(n.func, ast.Attribute) and n.func.attr in ("update", "pop", "clear", "setdefault", "popitem"):
                b = n.func.value
                if isinstance(b, ast.Attribute) and b.attr in REGISTRIES and isinstance(b.value, ast.Name) and fn.cls is not None and ws in fn.cls.mro and b.value.id == fn.self_name:
                    res.inst(f"{fn.qualname}:{n.lineno} {unparse(n)[:40]}", ok=False)
                    res.find("Workspace", fn.prop or fn.name, f"{unparse(n)[:40]} on a registry", f"{fn.module.relpath}:{n.lineno}",
                             "registry edited outside insert_once / the dead-reference sweep")
    # register -> insert_once only
    reg = p.func("Workspace.register")
    calls = [c for c in ast.walk(reg.node) if isinstance(c, ast.Call) and c.args and isinstance(c.args[0], ast.Attribute) and c.args[0].attr in REGISTRIES]
    for c in calls:
        ok = unparse(c.func) in ("weakref_utils.insert_once", "insert_once") and len(c.args) == 3 and unparse(c.args[1]).endswith(".uid") and unparse(c.args[2]) == unparse(c.args[1])[:-4]
        res.inst(f"register: {unparse(c)[:70]}", ok=ok)
        if not ok:
            res.find("Workspace", "register", f"registry written by {unparse(c)[:60]}", f"{reg.module.relpath}:{c.lineno}",
                     "an entity is registered without the live-duplicate check, or under a key that is not its own uid")
    for br in [x for x in ast.walk(reg.node) if isinstance(x, ast.If) and isinstance(x.test, ast.Call) and unparse(x.test.func) == "isinstance"]:
        first_ins = None
        order_ok = True
        for st_ in br.body:
            has_ins = any(isinstance(c, ast.Call) and unparse(c.func).endswith("insert_once") for c in ast.walk(st_))
            other = [c for c in ast.walk(st_) if isinstance(c, ast.Call) and not unparse(c.func).endswith("insert_once") and unparse(c.func) not in ("isinstance",)]
            if has_ins and first_ins is None:
                first_ins = st_
            elif other and first_ins is None:
                order_ok = False
        res.inst(f"register[{unparse(br.test.args[1])}]: insert_once is the first effect of the branch", nontrivial=True, ok=order_ok)
        if not order_ok:
            res.find("Workspace", "register", f"an effect precedes insert_once in the {unparse(br.test.args[1])} branch", f"{reg.module.relpath}:{br.lineno}",
                     "a registration that insert_once refuses (uid in use) has already written to the file / changed other state")
    regs_used = {c.args[0].attr for c in calls}
    ok = regs_used == set(REGISTRIES)
    res.inst(f"register covers registries {sorted(regs_used)}", ok=ok)
    if not ok:
        res.find("Workspace", "register", f"registries {sorted(set(REGISTRIES) - regs_used)} never receive entries", reg.where,
                 "entities of that kind are not registered: lookups by uid fail and uids can be duplicated")
    # insert_once: raise dominates the store, store is a weakref
    io = p.module("shared/weakref_utils.py").functions.get("insert_once")
    if io is None:
        raise AnalysisError("anchor weakref_utils.insert_once not found")
    d, k, v = io.params[:3]
    g = CFG(io.node)
    dom = dominators(g)
    stores = [n for n in g.nodes if n.kind == "stmt" and isinstance(n.ast, ast.Assign) and isinstance(n.ast.targets[0], ast.Subscript) and unparse(n.ast.targets[0].value) == d]
    if not stores:
        raise AnalysisError("weakref_utils.insert_once: store not found")
    for s in stores:
        weak = unparse(s.ast.value) in (f"weakref.ref({v})", f"ref({v})", f"ReferenceType({v})")
        res.inst(f"insert_once stores {unparse(s.ast.value)} (weak reference)", ok=weak)
        if not weak:
            res.find("weakref_utils", "insert_once", f"stores {unparse(s.ast.value)[:40]}", f"{io.module.relpath}:{s.lineno}",
                     "the registry holds a strong reference: removed entities never die, their nodes are never swept and their uids stay taken")
        guards = [t for t in dom[s] if t.kind == "test" and "is not None" in unparse(t.ast) and all(_only_raises(g, m) for m, l in t.succ if l == "true")]
        live = any("()" in unparse(t.ast) for t in guards)
        res.inst("insert_once: `existing is not None and existing() is not None -> raise` dominates the store", nontrivial=True, ok=bool(guards) and live)
        if not (guards and live):
            res.find("weakref_utils", "insert_once", "live-duplicate raise does not dominate the store", f"{io.module.relpath}:{s.lineno}",
                     "a second live entity can take a uid that is in use")
    # children hold strong references
    for cname in ("EntityContainer", "ObjectBase", "Concatenator"):
        K = p.cls(cname)
        fn = K.methods.get("add_children")
        if fn is None:
            if cname == "EntityContainer":
                # groups/base.py defines add_children on Group
                fn = p.cls("Group").methods.get("add_children")
            if fn is None:
                continue
        apps = [c for c in ast.walk(fn.node) if isinstance(c, ast.Call) and isinstance(c.func, ast.Attribute) and c.func.attr == "append" and unparse(c.func.value) == "self._children"]
        for c in apps:
            ok = isinstance(c.args[0], ast.Name)
            res.inst(f"{fn.qualname}: self._children.append({unparse(c.args[0])}) keeps the entity itself", ok=ok)
            if not ok:
                res.find(fn.cls.name, "add_children", f"children list stores {unparse(c.args[0])[:40]}", f"{fn.module.relpath}:{c.lineno}",
                         "children are not kept alive by their parent: they die at the next GC and their nodes are swept from the file")
    ob = p.cls("ObjectBase").methods["add_children"]
    apps = [c for c in ast.walk(ob.node) if isinstance(c, ast.Call) and isinstance(c.func, ast.Attribute) and c.func.attr == "append" and unparse(c.func.value) == "self._children"]
    for c in apps:
        guard = None
        for i in ast.walk(ob.node):
            if isinstance(i, ast.If) and any(x is c for s_ in i.body for x in ast.walk(s_)):
                guard = i if guard is None else guard
        child = unparse(c.args[0])
        by_uid = guard is not None and any(isinstance(x, ast.Compare) and isinstance(x.ops[0], ast.NotIn) and unparse(x.left) == f"{child}.uid" for x in ast.walk(guard.test))
        uids_of_children = any(isinstance(a, ast.Assign) and ".uid" in unparse(a.value) and "self._children" in unparse(a.value) for a in ast.walk(ob.node))
        ok = by_uid and uids_of_children
        res.inst("ObjectBase.add_children refuses a child whose uid is already among the children's uids", nontrivial=True, ok=ok)
        if not ok:
            res.find("ObjectBase", "add_children", "duplicate guard compares objects, not identifiers", f"{ob.module.relpath}:{c.lineno}",
                     "a new child that re-uses a sibling's uid is attached before registration refuses it: the object ends up with two children "
                     "sharing one identifier")
    return res


def rule_xkind(ctx) -> RuleResult:
    res = RuleResult(
        "C06.XKIND",
        "C06",
        "the duplicate test that precedes the registration of a group / object / data consults every entity registry "
        "(a uid is unique across kinds: get_entity(uid) searches all of them)",
        floor=3,
    )
    p = ctx.p
    reg = p.func("Workspace.register")
    ent = reg.params[1]
    kinds = {"Group": "_groups", "Data": "_data", "ObjectBase": "_objects"}
    # registries (or cross-kind lookups) consulted on the way to each insertion
    for n in ast.walk(reg.node):
        if isinstance(n, ast.If) and isinstance(n.test, ast.Call) and unparse(n.test.func) == "isinstance" and unparse(n.test.args[1]) in kinds:
            kind = unparse(n.test.args[1])
            body_txt = unparse(ast.Module(body=n.body, type_ignores=[]))
            pre = []
            for st in reg.node.body:
                if st is n or any(x is n for x in ast.walk(st)):
                    break
                pre.append(unparse(st))
            seen = {r for r in ENTITY_REGISTRIES if f"self.{r}" in body_txt or any(f"self.{r}" in t for t in pre)}
            cross = any(tok in body_txt or any(tok in t for t in pre) for tok in ("find_entity(", "get_entity(", "list_entities_name"))
            ok = cross or seen == set(ENTITY_REGISTRIES)
            res.inst(f"register[{kind}] consults {sorted(seen)}{' + cross-kind lookup' if cross else ''}", nontrivial=True, ok=ok)
            if not ok:
                res.find("Workspace", "register", "duplicate test limited to the registry of the entity's own kind", reg.where,
                         f"a {kind} is only checked against self.{kinds[kind]}: an entity of another kind may hold the same uid and "
                         "get_entity(uid) then returns only one of them", kind=kind)
    return res


def rule_effect(ctx) -> RuleResult:
    res = RuleResult(
        "C06.EFFECT",
        "C06",
        "in the constructors of entities and property groups the fallible workspace.register(self) is not preceded by an "
        "effect on another object (parent.add_children, directly or through map_attributes -> parent setter)",
        floor=2,
    )
    p = ctx.p
    for spec in ("Entity.__init__", "PropertyGroup.__init__"):
        fn = p.func(spec)
        g = CFG(fn.node)

        def kind_of(n):
            if n.ast is None or isinstance(n.ast, list):
                return None
            for c in ast.walk(n.ast):
                if isinstance(c, ast.Call):
                    f = unparse(c.func)
                    if f.endswith(".register") and c.args and unparse(c.args[0]) == "self":
                        return "register"
                    if f == "map_attributes" or f.endswith(".add_children"):
                        return "effect"
                    if isinstance(c.func, ast.Name) and c.func.id == "setattr" and unparse(c.args[0]) == "self" and "parent" in unparse(c.args[1]):
                        return "effect"
                if isinstance(c, ast.Assign) and any(unparse(t) == "self.parent" for t in c.targets):
                    return "effect"
            return None

        def transfer(node, st):
            k = kind_of(node)
            if k == "effect":
                return st | {node.lineno}
            return st

        IN = forward(g, frozenset(), transfer, lambda a, b: a | b)
        regs = [n for n in g.nodes if kind_of(n) == "register"]
        if not regs:
            raise AnalysisError(f"{spec}: workspace.register(self) not found")
        for r in regs:
            before = sorted(IN.get(r, frozenset()))
            ok = not before
            res.inst(f"{spec}: register(self) at line {r.lineno}, effects on other objects before it: {before}", nontrivial=True, ok=ok)
            if not ok:
                res.find(fn.cls.name, "__init__", "effect on the parent precedes the fallible registration", fn.where,
                         f"lines {before} (map_attributes -> parent setter -> parent.add_children / add_children) run before "
                         "workspace.register(self) can refuse a duplicate uid: a refused creation leaves a ghost child in the parent, "
                         "which close() then links on file")
    return res


def rule_guard(ctx) -> RuleResult:
    res = RuleResult(
        "C06.GUARD",
        "C06",
        "every place that re-uses an identifier on copy does so only under a lookup for that uid in the TARGET workspace",
        floor=3,
    )
    p = ctx.p
    # (function, name of the object that stands for the target)
    for spec, target in (("Workspace.copy_to_parent", "parent"), ("Workspace.copy_property_groups", "entity")):
        fn = p.func(spec)
        reuse = [a for a in ast.walk(fn.node) if isinstance(a, ast.Assign) and isinstance(a.targets[0], ast.Subscript)
                 and isinstance(a.targets[0].slice, ast.Constant) and a.targets[0].slice.value == "uid" and unparse(a.value).endswith(".uid")]
        if not reuse:
            raise AnalysisError(f"{spec}: uid re-use statement not found")
        for a in reuse:
            guard = None
            for n in ast.walk(fn.node):
                if isinstance(n, ast.If) and a in n.body:
                    guard = n
            src = unparse(a.value)
            ok = False
            if guard is not None:
                t = guard.test
                lookups = [c for c in ast.walk(t) if isinstance(c, ast.Call) and isinstance(c.func, ast.Attribute) and c.func.attr in
                           ("get_entity", "find_entity", "find_property_group", "find_data", "find_object", "find_group")]
                ok = any(unparse(c.func.value).startswith(target + ".") and c.args and unparse(c.args[0]) == src for c in lookups) and "is None" in unparse(t)
            res.inst(f"{spec}: uid re-use `{unparse(a)[:50]}` under `{unparse(guard.test)[:60] if guard else None}`", nontrivial=True, ok=ok)
            if not ok:
                res.find("Workspace", fn.name, f"uid re-use not guarded by a lookup in the target: {unparse(a)[:50]}", f"{fn.module.relpath}:{a.lineno}",
                         f"the copy takes the source's uid without checking that it is free in {target}.workspace: copying into the same "
                         "workspace (or one that already holds that uid) is refused or duplicates the identifier")
        # the default must be 'no uid' (fresh)
    ctp = p.func("Workspace.copy_to_parent")
    ok = any(isinstance(k, ast.keyword) and k.arg == "attributes" and "'uid': None" in unparse(k.value) for k in ast.walk(ctp.node))
    omit_uid = "_uid" in unparse(ctp.node)
    res.inst("copy_to_parent: harvested attributes start without a uid (omit '_uid', attributes={'uid': None})", ok=ok and omit_uid)
    if not (ok and omit_uid):
        res.find("Workspace", "copy_to_parent", "the source uid is harvested into the copy's constructor arguments", ctp.where,
                 "copies into the same workspace re-use the identifier of their source")
    et = p.func("EntityType.copy")
    dels = [d for d in ast.walk(et.node) if isinstance(d, ast.Delete) and "uid" in unparse(d)]
    ok = False
    for d in dels:
        for n in ast.walk(et.node):
            if isinstance(n, ast.If) and d in n.body and "_types" in unparse(n.test) and "workspace" in unparse(n.test):
                ok = True
    # the target workspace arrives through kwargs: they must be merged into `attributes` before the test reads attributes.get("workspace")
    body = et.node.body
    # role: the attribute dictionary = the local that is splatted into the constructor call that is returned
    from ..roles import canon
    attr_names = {unparse(k.value) for r in ast.walk(et.node) if isinstance(r, ast.Return) and isinstance(r.value, ast.Call) for k in r.value.keywords if k.arg is None}
    am = {nm: "attributes" for nm in attr_names}
    upd = [i for i, st_ in enumerate(body) if isinstance(st_, ast.Expr) and canon(st_.value, am).startswith("attributes.update(")]
    tst = [i for i, st_ in enumerate(body) if isinstance(st_, ast.If) and "_types" in unparse(st_.test)]
    ok = ok and bool(upd) and bool(tst) and upd[0] < tst[0] and "attributes.get('workspace'" in canon(body[tst[0]].test, am)
    res.inst("EntityType.copy drops the uid when it is taken in the target workspace's types (kwargs merged first)", nontrivial=True, ok=ok)
    if not ok:
        res.find("EntityType", "copy", "uid kept although the target workspace may hold that type uid", et.where,
                 "copying a type into the same workspace collides with the original")
    return res


RULES = [rule_own, rule_xkind, rule_effect, rule_guard]
