"""C07 — data stay aligned with the geometry they are attached to (pairing, ordering, length case split).

The rules look at NORMALISED functions (`ctx.view`: private helpers expanded, hoisted constants substituted) and decide by
path facts and by what locals are bound from (sa/rules/_c07_util.py), not by the spelling or nesting of the code:
guard clauses vs nested ifs, De Morgan, values read once into a local, renamed locals, extracted helpers, keyword vs
positional arguments, loops over a filtered comprehension give the same verdicts.
"""

from __future__ import annotations

import ast

from dataclasses import replace

from ..cfg import CFG, forward
from ..kinds import has_call, reach
from ..model import AnalysisError, unparse
from ..report import RuleResult
from ._c07_flow import ChildMasks, MaskedCells, RegenGuard, ShrinkGuard
from ._c07_util import (KEEP_ORDER, KEEP_SET, call_arg, dependence_leaves, derived_names, desugar_setattr, enclosing_ifs, expand_member_calls, falls_off, fname, fold_const, inline_local_closures, is_setattr,
                        literal_resolver, name_defs, reach3, real_defs, tv3, unfold_filtered_loops, unfold_generator_loops, unknown_leaves, xp, xt)

ASSOC = {"vertices": "VERTEX", "cells": "CELL"}
DELETE = ("np.delete", "numpy.delete")


def _targets(p):
    out = []
    for cname in ("Points", "CellObject"):
        K = p.cls(cname)
        for name in ("remove_vertices", "remove_cells"):
            if name in K.methods:
                out.append(K.methods[name])
    if len(out) < 3:
        raise AnalysisError("C07: remove_vertices / remove_cells implementations not found")
    return out


def _norm(ctx, fn0):
    """The normalised function (helpers expanded, constants substituted) with `setattr(obj, <constant name>, v)` read as
    the attribute store it is (the name may come through a table such as {'VERTEX': 'vertices', ...}[association])."""
    v = ctx.view(fn0)
    return replace(v, node=desugar_setattr(v.node, literal_resolver(ctx.p, fn0)))


def _is_shrink(expr, geom, fn_node, defs, depth=0) -> bool:
    """The value is the geometry with rows removed: np.delete(self.<geom>, ...) or self.<geom>[<boolean keep-mask>, ...]
    (the geometry possibly read through a local, the result possibly held in a local)."""
    if depth > 4:
        return False
    if isinstance(expr, ast.Name):
        return any(_is_shrink(d, geom, fn_node, defs, depth + 1) for d in defs.get(expr.id, []))
    if isinstance(expr, ast.Call) and fname(expr) in DELETE:
        arr = call_arg(expr, 0, "arr")
        return arr is not None and xt(arr, fn_node) == f"self.{geom}"
    if isinstance(expr, ast.Subscript) and xt(expr.value, fn_node) == f"self.{geom}":
        s = expr.slice
        first = s.elts[0] if isinstance(s, ast.Tuple) and s.elts else s
        # a boolean keep-mask built locally (np.ones(..., dtype=bool); mask[indices] = False)
        return _is_bool_mask(first, defs)
    return False


def _is_bool_mask(expr, defs, depth=0) -> bool:
    if depth > 4:
        return False
    if isinstance(expr, ast.Name):
        return any("bool" in unparse(d) or _is_bool_mask(d, defs, depth + 1) for d in defs.get(expr.id, []) if not isinstance(d, ast.Constant))
    return False


def _rcv_signature(p):
    rcv = p.func("ObjectBase.remove_children_values")
    if len(rcv.params) < 3:
        raise AnalysisError("ObjectBase.remove_children_values(indices, association): signature changed")
    return rcv, rcv.params[1], rcv.params[2]


def rule_pair(ctx) -> RuleResult:
    res = RuleResult(
        "C07.PAIR",
        "C07",
        "in every remove_vertices / remove_cells implementation each store of the shrunk geometry is followed on all normal "
        "paths by remove_children_values(<the same indices>, 'VERTEX' | 'CELL' matching the geometry); "
        "ObjectBase.remove_children_values filters on that association and assigns through the values setter",
        floor=5,
    )
    p = ctx.p
    rcv0, ind, assoc = _rcv_signature(p)
    for fn0 in _targets(p):
        fn = _norm(ctx, fn0)
        defs = name_defs(fn.node)
        g = CFG(fn.node)
        idx_param = fn.params[1]
        _, same_indices = derived_names(fn.node, idx_param, KEEP_SET)
        for node in g.nodes:
            if node.kind != "stmt" or not isinstance(node.ast, ast.Assign):
                continue
            for t in node.ast.targets:
                if not (isinstance(t, ast.Attribute) and unparse(t.value) == "self" and t.attr in ASSOC):
                    continue
                geom = t.attr
                if not _is_shrink(node.ast.value, geom, fn.node, defs):
                    res.inst(f"{fn.qualname}:{node.lineno} self.{geom} = {unparse(node.ast.value)[:40]} (re-indexing, not a shrink)")
                    continue
                want = ASSOC[geom]

                def trims(n, want=want):
                    def pred(c):
                        if not (isinstance(c.func, ast.Attribute) and c.func.attr == "remove_children_values" and unparse(c.func.value) in ("self", "super()")):
                            return False
                        a_idx, a_assoc = call_arg(c, 0, ind), call_arg(c, 1, assoc)
                        if a_idx is None or a_assoc is None:
                            return False
                        a_assoc = xp(a_assoc, fn.node)
                        return isinstance(a_assoc, ast.Constant) and a_assoc.value == want and same_indices(a_idx)
                    return has_call(n, pred)

                after = reach(g, [m for m, _ in node.succ], avoid=trims)
                ok = g.exit not in after
                res.inst(f"{fn.qualname}:{node.lineno} shrink of self.{geom} followed by remove_children_values({idx_param}, {want!r})", nontrivial=True, ok=ok)
                if not ok:
                    wrong = [unparse(c)[:60] for n in g.nodes if n.ast is not None and not isinstance(n.ast, list) for c in ast.walk(n.ast)
                             if isinstance(c, ast.Call) and isinstance(c.func, ast.Attribute) and c.func.attr == "remove_children_values"]
                    res.find(fn.cls.name, fn.name, f"shrink of self.{geom} not followed by remove_children_values({idx_param}, {want!r})",
                             f"{fn.module.relpath}:{node.lineno}",
                             f"after removing {geom} the {want}-associated data keep their old length (calls seen: {wrong or 'none'}): values no longer line up with the geometry")
    _pair_children(ctx, res, rcv0, ind, assoc)
    return res


def _pair_children(ctx, res, rcv0, ind, assoc):
    """ObjectBase.remove_children_values: which children reach the edit, and what the edit stores."""
    p = ctx.p
    rcv = ctx.view(rcv0)
    # the children may be chosen by a generator method / a filtered comprehension: read the loop they stand for
    node = unfold_filtered_loops(unfold_generator_loops(rcv, ctx.view, p))
    # the per-child step may live in the data class (`child.remove_values(indices)`): read the one body every child runs
    kids = {lp.target.id for lp in ast.walk(node) if isinstance(lp, ast.For) and isinstance(lp.target, ast.Name) and xt(lp.iter, node).endswith(".children")}
    node = expand_member_calls(replace(rcv, node=node), ctx.view, p, kids, p.cls("Data"))
    g = CFG(node)
    defs = name_defs(node)
    _, same_indices = derived_names(node, ind, KEEP_SET)
    # the loop(s) over the children; child = the loop variable
    loops = [lp for lp in ast.walk(node) if isinstance(lp, ast.For) and isinstance(lp.target, ast.Name) and xt(lp.iter, node).endswith(".children")]
    sites = []  # (child name, body entry nodes, nodes of the loop that store into an attribute of the child)
    for lp in loops:
        child = lp.target.id
        head = next((n for n in g.nodes if n.kind == "fornext" and n.stmt is lp), None)
        if head is None:
            continue
        starts = [m for m, lab in head.succ if lab == "loop"]
        body = reach3(g, starts, lambda t: None, avoid=lambda n, head=head: n is head)
        edits = [n for n in body if n.kind == "stmt" and isinstance(n.ast, ast.Assign) and any(
            isinstance(t, ast.Attribute) and isinstance(t.value, ast.Name) and t.value.id == child for t in n.ast.targets)]
        sites.append((child, lp, starts, edits))

    def atom(e, child, facts):
        if isinstance(e, ast.Compare) and len(e.ops) == 1 and isinstance(e.ops[0], (ast.Eq, ast.NotEq, ast.Is, ast.IsNot)):
            for a, b in ((e.left, e.comparators[0]), (e.comparators[0], e.left)):
                by_name = unparse(a) == f"{child}.association.name" and isinstance(b, ast.Name) and b.id == assoc
                member = unparse(a) == f"{child}.association" and (
                    (isinstance(b, ast.Subscript) and unparse(b.slice) == assoc and unparse(b.value).endswith("DataAssociationEnum"))
                    or (isinstance(b, ast.Call) and fname(b) == "getattr" and len(b.args) == 2 and unparse(b.args[1]) == assoc
                        and unparse(b.args[0]).endswith("DataAssociationEnum")))
                if (by_name or member) and facts.get("same") is not None:
                    return facts["same"] if isinstance(e.ops[0], (ast.Eq, ast.Is)) else not facts["same"]
            return None
        if isinstance(e, ast.Call) and fname(e) == "isinstance" and len(e.args) == 2 and unparse(e.args[0]) == child:
            vals = [facts.get("isa:" + nm) for nm in _class_names(e.args[1])]
            if any(v is True for v in vals):
                return True
            return False if vals and all(v is False for v in vals) else None
        return None

    def edit_reached(child, starts, edits, facts):
        seen = reach3(g, starts, lambda t: tv3(xp(t, node), lambda a: atom(a, child, facts)))
        return any(e in seen for e in edits)

    # 1. a child of another association never reaches the edit
    ok = bool(sites) and all(not edit_reached(child, starts, edits, {"same": False}) for child, _, starts, edits in sites)
    res.inst(f"remove_children_values filters children on `child.association.name == {assoc}`", ok=ok)
    if not ok:
        res.find("ObjectBase", "remove_children_values", "association filter changed", rcv.where, "data of the other association are trimmed too (or none are)")
    # 2. no narrower class than Data is required to reach the edit
    wide = {"Data"} | {c if isinstance(c, str) else c.name for c in p.cls("Data").mro}
    for child, lp, starts, edits in sites:
        tests = [c for c in ast.walk(lp) if isinstance(c, ast.Call) and fname(c) == "isinstance" and len(c.args) == 2 and unparse(c.args[0]) == child]
        names = sorted({nm for c in tests for nm in _class_names(c.args[1])})
        if not names or not edits:
            continue
        facts = {"same": True}
        facts.update({"isa:" + nm: False for nm in names if nm not in wide})
        narrow = []
        if not edit_reached(child, starts, edits, facts):
            # the smallest set of classes whose absence already keeps the child from the edit
            for nm in [n for n in names if n not in wide]:
                trial = {k: v for k, v in facts.items() if k != "isa:" + nm}
                if edit_reached(child, starts, edits, trial):
                    narrow.append(nm)
                else:
                    facts = trial
        ok = not narrow
        res.inst(f"remove_children_values: class filter isinstance(child, {names})", ok=ok)
        if not ok:
            at = next((c.lineno for c in tests if set(_class_names(c.args[1])) & set(narrow)), lp.lineno)
            res.find("ObjectBase", "remove_children_values", f"children filtered by class {narrow}", f"{rcv.module.relpath}:{at}",
                     f"only {narrow} children are trimmed: data of the other kinds (text, ...) keep their old length after a geometry removal")

    # 3. the edit: <child>.values = np.delete(<the child's stored values>, <the indices>, axis=0)
    def reads_child_store(e, child, depth=0):
        """The expression is the child's array as stored: its private field or the workspace's fetch_values of it
        (through locals, helper returns and other names of the child)."""
        e = xp(e, node)
        if isinstance(e, ast.Name):
            cands = real_defs(defs, e.id)
            return depth < 6 and bool(cands) and all(reads_child_store(c, child, depth + 1) for c in cands)
        return ("_values" in unparse(e) or "fetch_values" in unparse(e)) and any(isinstance(x, ast.Name) and x.id == child for x in ast.walk(e))

    def trimmed(v, child):
        v = xp(v, node)
        if not (isinstance(v, ast.Call) and fname(v) in DELETE):
            return False
        arr, obj, axis = call_arg(v, 0, "arr"), call_arg(v, 1, "obj"), call_arg(v, 2, "axis")
        if arr is None or obj is None or not (isinstance(axis, ast.Constant) and axis.value == 0 and axis.value is not False):
            return False
        return reads_child_store(arr, child) and same_indices(obj)

    asg = [(child, n.ast) for child, _, _, edits in sites for n in edits if any(isinstance(t, ast.Attribute) and t.attr == "values" for t in n.ast.targets)]
    ok = bool(asg) and all(trimmed(a.value, child) for child, a in asg)
    res.inst(f"remove_children_values assigns child.values = np.delete(values, {ind}, axis=0)", ok=ok)
    if not ok:
        res.find("ObjectBase", "remove_children_values", "values are not trimmed with the given indices through the setter", rcv.where,
                 "the trimmed values are not stored (or not persisted)")


def _class_names(e) -> list:
    return [unparse(x) for x in (e.elts if isinstance(e, ast.Tuple) else [e])]


def rule_order(ctx) -> RuleResult:
    res = RuleResult(
        "C07.ORDER",
        "C07",
        "in remove_vertices / remove_cells every explicit raise precedes the first store: a refused request leaves geometry and data untouched",
        floor=3,
    )
    p = ctx.p
    for fn0 in _targets(p):
        fn = _norm(ctx, fn0)
        g = CFG(fn.node)
        stores = [n for n in g.nodes if n.kind == "stmt" and (
            (isinstance(n.ast, (ast.Assign, ast.AugAssign, ast.AnnAssign)) and any(
                isinstance(x, ast.Attribute) and isinstance(x.ctx, ast.Store) and unparse(x.value) == "self" for x in ast.walk(n.ast)))
            or (isinstance(n.ast, ast.Expr) and is_setattr(n.ast.value) and unparse(n.ast.value.args[0]) == "self"))]
        bad = []
        for s in stores:
            for n in reach(g, [m for m, _ in s.succ]):
                if n.kind == "raise":
                    bad.append((s, n))
        ok = not bad
        res.inst(f"{fn.qualname}: {len(stores)} stores, explicit raises reachable after a store: {len(bad)}", nontrivial=True, ok=ok)
        for s, n in bad[:1]:
            res.find(fn.cls.name, fn.name, f"raise at line {n.lineno} reachable after the store at line {s.lineno}", f"{fn.module.relpath}:{n.lineno}",
                     "the operation can fail after the geometry was already rewritten: geometry and data are left inconsistent")
    return res


def _length_scenarios(fl):
    """Evaluation of format_length's conditions under a stated ordering of the value length L = len(values) against the
    expected count N = self.n_values (N known, i.e. not None), and a stated answer to `association is OBJECT`."""
    v = fl.params[1]
    L = {f"len({v})", f"{v}.shape[0]"}
    N = {"self.n_values"}
    order = {  # operator -> truth under (L < N, L == N, L > N)
        ast.Lt: (True, False, False), ast.LtE: (True, True, False), ast.Eq: (False, True, False),
        ast.NotEq: (True, False, True), ast.GtE: (False, True, True), ast.Gt: (False, False, True),
    }
    flip = {ast.Lt: ast.Gt, ast.LtE: ast.GtE, ast.Gt: ast.Lt, ast.GtE: ast.LtE, ast.Eq: ast.Eq, ast.NotEq: ast.NotEq}

    def atom(e, case, is_object):
        if not (isinstance(e, ast.Compare) and len(e.ops) == 1):
            return None
        a, b, op = unparse(e.left), unparse(e.comparators[0]), type(e.ops[0])
        if a in N and b in L and op in flip:
            a, b, op = b, a, flip[op]
        if a in L and b in N and op in order:
            return order[op][case]
        if op in (ast.Is, ast.IsNot, ast.Eq, ast.NotEq):
            pos = op in (ast.Is, ast.Eq)
            if (a in N and b == "None") or (b in N and a == "None"):
                return not pos  # N is known
            if (a == "self.association" and b.endswith(".OBJECT")) or (b == "self.association" and a.endswith(".OBJECT")):
                return None if is_object is None else (is_object if pos else not is_object)
        return None

    return atom


def rule_len(ctx) -> RuleResult:
    res = RuleResult(
        "C07.LEN",
        "C07",
        "NumericData.format_length handles the three orderings of value length vs expected count: shorter -> padded with the "
        "class no-data value, longer -> refused (unless object-associated), equal -> unchanged; format_values reaches it on "
        "every path with values; the values setter and the lazy getter store only format_values' result",
        floor=6,
    )
    p = ctx.p
    nd = p.cls("NumericData")
    fl0 = nd.methods.get("format_length")
    if fl0 is None:
        raise AnalysisError("anchor NumericData.format_length not found")
    fl = ctx.view(fl0)
    v = fl.params[1]
    g = CFG(fl.node)
    defs = name_defs(fl.node)
    atom = _length_scenarios(fl)

    def outcomes(case, is_object):
        """(returned expressions, raise nodes, undecided condition leaves) of the paths possible in the scenario."""
        undecided = []

        def ev(t):
            t = xp(t, fl.node)
            a = lambda e: atom(e, case, is_object)  # noqa: E731
            val = tv3(t, a)
            if val is None:
                undecided.extend(unparse(u) for u in unknown_leaves(t, a))
            return val

        seen = reach3(g, [g.entry], ev)
        rets = [n.ast if n.ast is not None else ast.Constant(value=None) for n in seen if n.kind == "return"]
        if falls_off(g, seen):
            rets.append(ast.Constant(value=None))
        return rets, [n for n in seen if n.kind == "raise"], sorted(set(undecided))

    def padded(e):
        cands = real_defs(defs, e.id) if isinstance(e, ast.Name) else [e]
        texts = [xt(c, fl.node) for c in cands]
        return bool(texts) and all("self.nan_value" in t and "zeros" not in t and "self.n_values" in t for t in texts)

    # shorter: every possible outcome returns an array of n_values entries filled with self.nan_value
    rets, _, _ = outcomes(0, None)
    ok = bool(rets) and all(padded(r) for r in rets)
    res.inst("format_length: shorter -> array of n_values filled with self.nan_value", nontrivial=True, ok=ok)
    if not ok:
        res.find("NumericData", "format_length", "short arrays are not padded with self.nan_value to n_values", fl.where,
                 "shorter arrays are padded with something else than the no-data value (or not padded): gaps read as real values")
    # longer, not object-associated: refused on every path
    rets, raises, undecided = outcomes(2, False)
    ok = bool(raises)
    res.inst("format_length: longer -> raise (unless OBJECT association)", nontrivial=True, ok=ok)
    if not ok:
        res.find("NumericData", "format_length", "longer arrays are not refused", fl.where, "an array longer than the geometry is accepted")
    if raises:
        ok = not rets
        res.inst(f"format_length: the only escape from the refusal is the OBJECT association ({undecided})", ok=ok)
        if not ok:
            res.find("NumericData", "format_length", f"refusal weakened by {undecided}", fl.where, "longer arrays are accepted for vertex / cell data")
    # equal: the argument is handed back
    rets, raises, _ = outcomes(1, None)
    ok = bool(rets) and not raises and all(xt(r, fl.node) == v for r in rets)
    res.inst("format_length: equal -> values unchanged", ok=ok)
    if not ok:
        res.find("NumericData", "format_length", "fall-through does not return the values unchanged", fl.where, "correctly sized arrays are altered")
    fv = ctx.view(nd.methods["format_values"])
    g = CFG(fv.node)
    calls = lambda name: (lambda n: has_call(n, lambda c: unparse(c.func) == f"self.{name}"))  # noqa: E731
    arg = fv.params[1]
    for name in ("format_length", "format_type"):
        # paths on which the argument is not None (the `is None` tests are decided, whatever their polarity / nesting)
        ok = g.exit not in reach(g, [g.entry], var=arg, facts={"notnone:" + arg: True}, avoid=calls(name))
        res.inst(f"format_values: every path with values calls self.{name}", nontrivial=True, ok=ok)
        if not ok:
            res.find("NumericData", "format_values", f"a path with values skips self.{name}", fv.where,
                     "values can be stored without the length / type coercion")
    for acc, fnx0 in (("setter", nd.props["values"].setter), ("getter", nd.props["values"].getter)):
        fnx = ctx.view(fnx0)
        stores = [a for a in ast.walk(fnx.node) if isinstance(a, ast.Assign) and any(unparse(t) == "self._values" for t in a.targets)]
        ok = bool(stores) and all(xt(a.value, fnx.node).startswith("self.format_values(") for a in stores)
        res.inst(f"NumericData.values {acc} stores only self.format_values(...)", ok=ok)
        if not ok:
            res.find("NumericData", "values", f"{acc} stores {[unparse(a.value)[:40] for a in stores]}", fnx.where, "raw values bypass padding / refusal / coercion")
    return res


ORDER_INSENSITIVE_CALLS = {"np.delete", "np.max", "np.min", "np.array", "np.asarray", "np.unique", "np.sort", "len", "isinstance", "np.any", "np.all",
                           "np.atleast_1d", "np.ravel", "np.r_", "np.size", "np.shape", "np.ndim"}
ORDER_INSENSITIVE_ATTRS = {"max", "min", "any", "all", "size", "shape", "dtype", "ndim"}  # the method / attribute forms of the above


def rule_maskonly(ctx) -> RuleResult:
    res = RuleResult(
        "C07.MASKONLY",
        "C07",
        "in remove_vertices / remove_cells the removal indices are consumed only by operations whose result does not depend on "
        "their order or multiplicity (np.delete, assignment into a boolean keep-mask, max/len/type tests, np.unique/np.sort "
        "normalisation, remove_children_values) — never by arithmetic or position look-ups on the raw list",
        floor=3,
    )
    p = ctx.p
    for fn0 in _targets(p):
        fn = _norm(ctx, fn0)
        idx = fn.params[1]
        # the raw list under all its names: copies and element-for-element conversions of the parameter
        raw, _ = derived_names(fn.node, idx, KEEP_ORDER)
        parents = {}
        for n in ast.walk(fn.node):
            for c in ast.iter_child_nodes(n):
                parents[c] = n
        uses = [n for n in ast.walk(fn.node) if isinstance(n, ast.Name) and n.id in raw and isinstance(n.ctx, ast.Load)]
        bad = []
        for use in uses:
            # the consumer of the value: a conditional expression choosing the list hands it on unchanged
            u, par = use, parents.get(use)
            while isinstance(par, ast.IfExp) and par.test is not u:
                u, par = par, parents.get(par)
            ok = False
            if isinstance(par, ast.Call):
                f = unparse(par.func)
                if f in ORDER_INSENSITIVE_CALLS or f.endswith(".remove_children_values") or f.endswith(".remove_cells") or f.endswith(".remove_vertices"):
                    ok = True
            elif isinstance(par, ast.Subscript) and par.slice is u and isinstance(par.ctx, ast.Store):
                # mask[indices] = False
                ok = True
            elif isinstance(par, ast.Compare):
                ok = True
            elif isinstance(par, (ast.Tuple,)) and isinstance(parents.get(par), ast.Call) and unparse(parents[par].func) == "isinstance":
                ok = True
            elif isinstance(par, ast.keyword):
                ok = True
            elif isinstance(par, (ast.Assign, ast.AnnAssign)) and par.value is u and all(
                    isinstance(t, ast.Name) and t.id in raw for t in (par.targets if isinstance(par, ast.Assign) else [par.target])):
                # another name for the same list: its uses are examined as well
                ok = True
            elif isinstance(par, ast.Attribute) and par.value is u and par.attr in ORDER_INSENSITIVE_ATTRS:
                ok = True
            if not ok:
                bad.append((u, par))
        res.inst(f"{fn.qualname}: {len(uses)} uses of `{idx}`, order-sensitive: {len(bad)}", nontrivial=True, ok=not bad)
        for u, par in bad[:1]:
            res.find(fn.cls.name, fn.name, f"`{idx}` consumed by an order / multiplicity sensitive operation: {unparse(par)[:60]}", f"{fn.module.relpath}:{u.lineno}",
                     f"the result of {fn.qualname} must not depend on the order of the removal indices or on repeated entries; "
                     f"`{unparse(par)[:60]}` uses the raw list positionally / arithmetically")
    return res


def _mask_decisions(fn, mask):
    """The two-way decisions of a masked copy: one side hands over `<array>[mask]` as it is (the selected values only), the
    other side builds a full-length array written through the mask (`<array>[mask] = ...` / np.where(mask, ...)).
    Yields (test, line)."""
    node = fn.node
    is_mask = lambda e: xt(e, node) == mask  # noqa: E731

    def by_mask(e):
        # written through the mask or its complement: X[mask] = kept values / X[~mask] = no-data
        return any(isinstance(n, ast.Name) and n.id == mask for n in ast.walk(xp(e, node)))

    def fills(stmts):
        for s in stmts:
            for x in ast.walk(s):
                if isinstance(x, ast.Subscript) and isinstance(x.ctx, ast.Store) and by_mask(x.slice):
                    return True
                if isinstance(x, ast.Call) and fname(x) in ("np.where", "numpy.where", "np.putmask", "np.place") and any(by_mask(a) for a in x.args[:2]):
                    return True
        return False

    def selects(stmts):
        return any(isinstance(x, ast.Subscript) and isinstance(x.ctx, ast.Load) and is_mask(x.slice) for s in stmts for x in ast.walk(s))

    def sides(a, b):
        return (selects(a) and not fills(a) and fills(b)) or (selects(b) and not fills(b) and fills(a))

    out = []
    for blk_owner in ast.walk(node):
        for fld in ("body", "orelse", "finalbody"):
            blk = getattr(blk_owner, fld, None)
            if not (isinstance(blk, list) and blk and isinstance(blk[0], ast.stmt)):
                continue
            for i, s in enumerate(blk):
                if not isinstance(s, ast.If):
                    continue
                other = s.orelse
                if not other and s.body and isinstance(s.body[-1], (ast.Return, ast.Raise, ast.Continue, ast.Break)):
                    other = blk[i + 1:]  # guard-clause form: the rest of the block is the other side
                if other and sides(s.body, other):
                    out.append((s.test, s.lineno, s))
    for x in ast.walk(node):
        if isinstance(x, ast.IfExp) and sides([x.body], [x.orelse]):
            out.append((x.test, x.lineno, x))
    return out


def rule_count(ctx) -> RuleResult:
    res = RuleResult(
        "C07.COUNT",
        "C07",
        "in Data.copy with a mask the choice between handing over the selected values only and a full-length array blanked "
        "outside the mask is decided by the TARGET's element count of the data's association (parent.n_cells / n_vertices)",
        floor=1,
    )
    fn = ctx.view("Data.copy")
    par = fn.params[1]
    if "mask" not in fn.params + [a.arg for a in fn.node.args.kwonlyargs]:
        raise AnalysisError("Data.copy: parameter `mask` not found")
    sub = _mask_decisions(fn, "mask")
    if not sub:
        raise AnalysisError("Data.copy: subset / fill decision not found")
    encl = enclosing_ifs(fn.node)
    for test, lineno, at in sub:
        # what the decision depends on: the attribute reads in the condition, in the bindings of its locals and in the
        # conditions that choose between those bindings (not the guards the decision itself sits under)
        leaves = {xt(ast.parse(x, mode="eval").body, fn.node) for x in dependence_leaves(test, fn.node, outside=encl.get(id(at), []))}
        leaves |= {unparse(x) for x in ast.walk(xp(test, fn.node)) if isinstance(x, ast.Attribute)}
        ok = {f"{par}.n_cells", f"{par}.n_vertices"} <= leaves and any("association" in x for x in leaves)
        shown = xt(test, fn.node)[:50]
        res.inst(f"Data.copy: subset-vs-fill test `{shown}` depends on {sorted(x for x in leaves if par in x or 'association' in x)}", nontrivial=True, ok=ok)
        if not ok:
            res.find("Data", "copy", f"subset-vs-fill decision `{shown}` ignores the target's element count", f"{fn.module.relpath}:{lineno}",
                     "whether the masked values must be compacted or kept full-length depends on how many vertices / cells the TARGET has; "
                     "a test that does not look at it misplaces the values for some targets (length right, values on the wrong elements)")
    return res


VIEWS = {"np.asarray", "np.asanyarray", "np.ravel", "np.reshape", "np.atleast_1d", "np.atleast_2d", "np.squeeze", "np.transpose", "np.flip"}
VIEW_METHODS = {"ravel", "reshape", "view", "squeeze", "transpose", "swapaxes"}
INPLACE_CALLS = {"np.put", "np.place", "np.putmask", "np.copyto", "np.put_along_axis"}
INPLACE_METHODS = {"fill", "sort", "put", "itemset", "resize", "partition", "setfield"}
GEOMETRY_AND_VALUES = ("values", "vertices", "cells")


def rule_fresh(ctx) -> RuleResult:
    res = RuleResult(
        "C07.FRESH",
        "C07",
        "a `copy` of a data / points / cell object never writes into the source's own arrays: every array it stores into "
        "element-wise (X[...] = v, X op= v, X.fill(v), np.put(X, ...)) is fresh (an arithmetic result, np.ones_like / np.full, "
        "a .copy(), a boolean / fancy selection) and not self.values / self.vertices / self.cells or a view of them "
        "(a local bound to them, np.asarray / ravel / reshape / a basic slice of them): the source keeps the values it had",
        floor=2,
    )
    p = ctx.p
    seen = set()
    for base in ("Data", "Points"):
        for K in p.subclasses(p.cls(base)):
            fn0 = K.methods.get("copy")
            if fn0 is None or id(fn0.node) in seen:
                continue
            seen.add(id(fn0.node))
            fn = ctx.view(fn0)

            def source(e, st, depth=0):
                """the attribute of self the value of e may share memory with (st: the (local, attribute) pairs that may hold here), else None"""
                if depth > 6:
                    return None
                if isinstance(e, ast.Attribute) and unparse(e.value) == "self" and e.attr.lstrip("_") in GEOMETRY_AND_VALUES:
                    return e.attr.lstrip("_")
                if isinstance(e, ast.Name):
                    return next((a for nm, a in sorted(st) if nm == e.id), None)
                if isinstance(e, ast.IfExp):
                    return source(e.body, st, depth + 1) or source(e.orelse, st, depth + 1)
                if isinstance(e, ast.Call):
                    if fname(e) == "getattr" and len(e.args) >= 2 and unparse(e.args[0]) == "self" and isinstance(e.args[1], ast.Constant) \
                            and str(e.args[1].value).lstrip("_") in GEOMETRY_AND_VALUES:
                        return str(e.args[1].value).lstrip("_")
                    if fname(e) in VIEWS and e.args:
                        return source(e.args[0], st, depth + 1)
                    if isinstance(e.func, ast.Attribute) and e.func.attr in VIEW_METHODS:
                        return source(e.func.value, st, depth + 1)
                    return None
                if isinstance(e, ast.Attribute) and e.attr == "T":
                    return source(e.value, st, depth + 1)
                if isinstance(e, ast.Subscript):
                    parts = e.slice.elts if isinstance(e.slice, ast.Tuple) else [e.slice]
                    basic = all(isinstance(x, ast.Slice) or (isinstance(x, ast.Constant) and (x.value is Ellipsis or x.value is None or isinstance(x.value, int))) for x in parts)
                    return source(e.value, st, depth + 1) if basic else None
                return None

            def transfer(cn, st):
                # which locals may share memory with an array of the source after this statement (reaching bindings)
                if cn.kind == "fornext":
                    names = {x.id for x in ast.walk(cn.ast) if isinstance(x, ast.Name)}
                    return frozenset(x for x in st if x[0] not in names)
                if cn.kind != "stmt" or not isinstance(cn.ast, (ast.Assign, ast.AnnAssign)) or cn.ast.value is None:
                    return st
                out = st
                for t in (cn.ast.targets if isinstance(cn.ast, ast.Assign) else [cn.ast.target]):
                    for x in ast.walk(t):
                        if isinstance(x, ast.Name) and isinstance(x.ctx, ast.Store):
                            out = frozenset(y for y in out if y[0] != x.id)
                    if isinstance(t, ast.Name):
                        src = source(cn.ast.value, st)
                        if src:
                            out = out | {(t.id, src)}
                return out

            g = CFG(fn.node)
            IN = forward(g, frozenset(), transfer, lambda a, b: a | b)
            bad = []
            for cn, n in [(cn, n) for cn in g.nodes if cn in IN and cn.ast is not None and not isinstance(cn.ast, list) and cn.kind != "with"
                          for n in ([cn.ast] if cn.kind == "stmt" and isinstance(cn.ast, (ast.Assign, ast.AnnAssign, ast.AugAssign)) else []) + [
                              c for c in ast.walk(cn.ast) if isinstance(c, ast.Call)]]:
                tgt = None
                if isinstance(n, (ast.Assign, ast.AnnAssign)):
                    for t in (n.targets if isinstance(n, ast.Assign) else [n.target]):
                        if isinstance(t, ast.Subscript):
                            tgt = tgt or t.value
                elif isinstance(n, ast.AugAssign):
                    # `x op= v` on a local holding an array updates the array in place
                    tgt = n.target.value if isinstance(n.target, ast.Subscript) else (n.target if isinstance(n.target, ast.Name) else None)
                elif isinstance(n, ast.Call):
                    if fname(n) in INPLACE_CALLS and n.args:
                        tgt = n.args[0]
                    elif isinstance(n.func, ast.Attribute) and n.func.attr in INPLACE_METHODS:
                        tgt = n.func.value
                if tgt is not None:
                    src = source(tgt, IN[cn])
                    if src:
                        bad.append((n, src))
            res.inst(f"{fn.qualname}: element-wise writes into arrays shared with the source: {len(bad)}", nontrivial=True, ok=not bad)
            for n, src in bad[:1]:
                res.find(fn.cls.name, "copy", f"copy writes element-wise into the source's own `{src}` array", f"{fn.module.relpath}:{n.lineno}",
                         f"the array written into is self.{src} itself (or a view of it), not a fresh one: after the copy the SOURCE reads the "
                         f"modified entries, and any later write of the source from its cache persists them")
    return res


def rule_renum(ctx) -> RuleResult:
    res = RuleResult(
        "C07.RENUM",
        "C07",
        "in the masked copy of a cell object (a `copy` of a CellObject class that hands over `self.vertices[mask]`), every path of a "
        "copy with a vertex mask of an object that has cells reaches the parent copy with `cells` in the keyword arguments, and "
        "those cells were looked up through the table written through the mask (old vertex index -> new one): sub-sampled "
        "vertices never travel with cells in the old numbering",
        floor=1,
    )
    p = ctx.p
    base = p.cls("CellObject")
    for K in p.subclasses(base):
        fn0 = K.methods.get("copy")
        if fn0 is None or "mask" not in fn0.params + [a.arg for a in fn0.node.args.kwonlyargs]:
            continue
        fn = ctx.view(fn0)
        mc = MaskedCells(fn, p)
        if not mc.subsamples_vertices():
            if K is base:
                raise AnalysisError("CellObject.copy: the hand-over of the vertices selected by the mask was not found")
            continue
        sites = mc.run()
        if not sites:
            raise AnalysisError(f"{K.name}.copy: no hand-over of the keyword arguments (f(..., **kwargs)) reached by a masked copy")
        for call, line, ok in sites:
            res.inst(f"{K.name}.copy:{line} {unparse(call.func)}(..., **{mc.kwargs}) reached by a masked copy with re-indexed cells on every path",
                     nontrivial=True, ok=ok)
            if not ok:
                res.find(K.name, "copy", f"masked copy can reach {unparse(call.func)} with sub-sampled vertices but without re-indexed cells",
                         f"{fn.module.relpath}:{line}",
                         "with a vertex mask and existing cells there is a path to the parent copy on which the keyword arguments carry the "
                         "vertices selected by the mask but no cells re-indexed through the mask (none at all: the source cells are copied "
                         "with the old numbering; or cells not looked up in the renumbering table): cells point at the wrong or at "
                         "non-existing vertices of the copy")
    return res


REDUCTIONS = {"np.max", "np.min", "np.amax", "np.amin", "np.argmax", "np.argmin", "np.nanmax", "np.nanmin", "numpy.max", "numpy.min", "max", "min"}
REDUCTION_METHODS = {"max", "min", "argmax", "argmin", "ptp"}


def _empty_set_reductions(fn):
    """The reductions without identity (np.max / np.min / .max() ... without `initial=`) applied to the removal indices that
    can be EVALUATED when the index set is empty: not behind a size test that an empty set fails (`X.size > 0 and ...`,
    `if X.size == 0: return`, `np.size(X)`; decided on the paths, short-circuit order included)."""
    node = fn.node
    idx = fn.params[1]
    names, same = derived_names(node, idx, KEEP_SET)

    def size_of(e):
        e = xp(e, node)
        if isinstance(e, ast.Attribute) and e.attr == "size" and same(e.value):
            return True
        return isinstance(e, ast.Call) and fname(e) in ("np.size", "numpy.size") and len(e.args) == 1 and same(e.args[0])

    def atom(e):
        if size_of(e):
            return False  # 0 is falsy
        if isinstance(e, ast.Name):
            # a flag: a constant bound once (the argument a helper was called with, a hoisted constant)
            c = fold_const(e, node)
            return bool(c.value) if c is not None else None
        if isinstance(e, ast.Compare) and len(e.ops) == 1:
            a, b, op = e.left, e.comparators[0], type(e.ops[0])
            flip = {ast.Lt: ast.Gt, ast.LtE: ast.GtE, ast.Gt: ast.Lt, ast.GtE: ast.LtE, ast.Eq: ast.Eq, ast.NotEq: ast.NotEq}
            if size_of(b) and op in flip:
                a, b, op = b, a, flip[op]
            if size_of(a) and isinstance(b, ast.Constant) and isinstance(b.value, (int, float)) and not isinstance(b.value, bool) and op in flip:
                return {ast.Lt: 0 < b.value, ast.LtE: 0 <= b.value, ast.Gt: 0 > b.value, ast.GtE: 0 >= b.value, ast.Eq: 0 == b.value, ast.NotEq: 0 != b.value}[op]
        return None

    ev = lambda t: tv3(xp(t, node) if isinstance(t, ast.Name) else t, atom)  # noqa: E731

    def evaluated(root, target):
        """may `target` (a sub-expression of root) be evaluated when root is, the index set being empty?"""
        if root is target:
            return True
        if isinstance(root, ast.BoolOp):
            for v in root.values:
                if any(x is target for x in ast.walk(v)):
                    return evaluated(v, target)
                t = ev(v)
                if (isinstance(root.op, ast.And) and t is False) or (isinstance(root.op, ast.Or) and t is True):
                    return False
            return False
        if isinstance(root, ast.IfExp):
            t = ev(root.test)
            if any(x is target for x in ast.walk(root.test)):
                return evaluated(root.test, target)
            branch = root.body if any(x is target for x in ast.walk(root.body)) else root.orelse
            if (branch is root.body and t is False) or (branch is root.orelse and t is True):
                return False
            return evaluated(branch, target)
        for c in ast.iter_child_nodes(root):
            if any(x is target for x in ast.walk(c)):
                return evaluated(c, target)
        return False

    g = CFG(node)
    seen = reach3(g, [g.entry], ev)
    out = []
    for n in seen:
        if n.ast is None or isinstance(n.ast, list) or n.kind == "with":
            continue
        for c in ast.walk(n.ast):
            if not isinstance(c, ast.Call) or any(k.arg == "initial" for k in c.keywords):
                continue
            red = None
            if fname(c) in REDUCTIONS and len(c.args) == 1 and same(c.args[0]):
                red = fname(c)
            elif isinstance(c.func, ast.Attribute) and c.func.attr in REDUCTION_METHODS and same(c.func.value):
                red = "." + c.func.attr + "()"
            if red and evaluated(n.ast, c):
                out.append((red, c.lineno))
    return sorted(set(out))


def rule_empty(ctx) -> RuleResult:
    res = RuleResult(
        "C07.EMPTY",
        "C07",
        "a removal method that another removal method calls AFTER it has rewritten the geometry, with a selection it computed "
        "itself (e.g. the cells touching the removed vertices — none when the vertices are used by no cell), accepts the empty "
        "selection: it applies no reduction without identity (np.max / np.min ...) to its indices unless a size test keeps the "
        "empty set away from it — otherwise the outer removal fails half-way, geometry trimmed and cells not renumbered",
        floor=0,  # an obligation only where one removal method calls another after a store
    )
    p = ctx.p
    targets = _targets(p)
    removal_names = {f.name for f in targets}
    for fn0 in targets:
        fn = _norm(ctx, fn0)
        g = CFG(fn.node)
        _, own_indices = derived_names(fn.node, fn.params[1], KEEP_SET)
        stores = [n for n in g.nodes if n.kind == "stmt" and isinstance(n.ast, ast.Assign) and any(
            isinstance(t, ast.Attribute) and unparse(t.value) == "self" and t.attr.lstrip("_") in ASSOC for t in n.ast.targets)]
        # ... or hands the rewriting to another removal method (super().remove_vertices(...), self.remove_cells(...))
        stores += [n for n in g.nodes if n.ast is not None and not isinstance(n.ast, list) and n.kind != "with" and any(
            isinstance(c, ast.Call) and isinstance(c.func, ast.Attribute) and c.func.attr in removal_names and unparse(c.func.value) in ("self", "super()")
            for c in ast.walk(n.ast))]
        after = set()
        for s_ in stores:
            after |= reach(g, [m for m, _ in s_.succ])
        for n in after:
            if n.ast is None or isinstance(n.ast, list) or n.kind == "with":
                continue
            for c in ast.walk(n.ast):
                if not (isinstance(c, ast.Call) and isinstance(c.func, ast.Attribute) and c.func.attr in removal_names
                        and unparse(c.func.value) in ("self", "super()")):
                    continue
                arg = call_arg(c, 0, "indices")
                if arg is None or own_indices(arg):
                    continue  # the caller's own request, already examined by the caller
                callees = [t for t in targets if t.name == c.func.attr and (t.cls is fn0.cls or t.cls in fn0.cls.mro or fn0.cls in t.cls.mro)]
                for callee in callees:
                    bad = _empty_set_reductions(_norm(ctx, callee))
                    ok = not bad
                    res.inst(f"{fn.qualname}:{c.lineno} calls {callee.qualname} with a computed selection after the geometry store; "
                             f"reductions reached by an empty selection: {[r for r, _ in bad]}", nontrivial=True, ok=ok)
                    if not ok:
                        res.find(fn.cls.name, fn.name, f"{callee.qualname} is called after the geometry store with a computed selection and applies "
                                 f"{bad[0][0]} to it without a guard for the empty set", f"{callee.module.relpath}:{bad[0][1]}",
                                 f"{fn.qualname} has already rewritten the geometry and trimmed the data when it calls {callee.qualname} with the "
                                 f"elements it selected; when that selection is empty (e.g. the removed vertices are used by no cell) "
                                 f"{bad[0][0]} of an empty array raises: the operation fails half-way, the remaining steps (renumbering of the "
                                 f"cells) never run and geometry and cells are left inconsistent on file")
    return res


def rule_cacheguard(ctx) -> RuleResult:
    res = RuleResult(
        "C07.CACHEGUARD",
        "C07",
        "a vertices / cells setter that refuses an array with fewer rows than the stored geometry (shrinking goes through "
        "remove_vertices / remove_cells, which trim the data) refuses it as well while the private cache is not loaded (an "
        "object that was just opened): the stored row count it compares with comes from a loading read, not from the bare cache",
        floor=1,
    )
    p = ctx.p
    seen = set()
    for K in p.subclasses(p.cls("Points")):
        for geom in ASSOC:
            pr = K.props.get(geom)
            fn0 = pr.setter if pr is not None else None
            if fn0 is None or id(fn0.node) in seen or len(fn0.params) < 2:
                continue
            seen.add(id(fn0.node))
            sg = ShrinkGuard(ctx.view(fn0), geom)
            if not sg.stores_new() or sg.store_reached(loaded=True):
                continue  # this setter does not refuse a shorter array at all: nothing to keep consistent
            ok = not sg.store_reached(loaded=False)
            res.inst(f"{K.name}.{geom} setter: a shorter array is refused whether or not self._{geom} is loaded", nontrivial=True, ok=ok)
            if not ok:
                res.find(K.name, geom, f"the refusal of a shorter `{geom}` array is skipped while self._{geom} is not loaded", fn0.where,
                         f"on an object that was just opened self._{geom} is None until the first read: the 'fewer values' test is skipped, "
                         f"the shorter geometry is stored and written, and the {ASSOC[geom]}-associated data keep their old length "
                         f"(they no longer have one entry per element; reading them fails the length check)")
    return res


def _length_reconcilers(ctx, classes, depth=3):
    """{function node id}: the methods that put an array argument against self.n_values: they compare the argument's length
    with it themselves, or hand the argument (on every path where it is not None) to a method that does."""
    fns = {}
    for K in classes:
        for f in K.methods.values():
            if len(f.params) >= 2 and f.kind == "method":
                fns[id(f.node)] = f

    def own_compare(f):
        v = ctx.view(f)
        for c in ast.walk(v.node):
            if isinstance(c, ast.Compare) and len(c.ops) == 1 and not isinstance(c.ops[0], (ast.Is, ast.IsNot, ast.In, ast.NotIn)):
                sides = [xt(c.left, v.node), xt(c.comparators[0], v.node)]
                if any("n_values" in t for t in sides) and any(
                        any(f"len({q})" in t or f"{q}.shape" in t or f"{q}.size" in t for q in f.params[1:]) for t in sides):
                    return True
        return False

    good = {k for k, f in fns.items() if own_compare(f)}
    for _ in range(depth):
        names = {fns[k].name for k in good}
        for k, f in fns.items():
            if k in good:
                continue
            v = ctx.view(f)
            arg = f.params[1]
            g = CFG(v.node)
            hands_over = lambda n: has_call(n, lambda c: isinstance(c.func, ast.Attribute) and unparse(c.func.value) == "self" and c.func.attr in names  # noqa: E731
                                            and any(isinstance(x, ast.Name) and x.id == arg for a in c.args for x in ast.walk(a)))
            if any(hands_over(n) for n in g.nodes) and g.exit not in reach(g, [g.entry], var=arg, facts={"notnone:" + arg: True}, avoid=hands_over):
                # resolved by name within the data classes: every implementation of that name must reconcile
                if all(kk in good for kk, ff in fns.items() if ff.name in {c.func.attr for n in g.nodes if n.ast is not None and not isinstance(n.ast, list)
                                                                               for c in ast.walk(n.ast) if isinstance(c, ast.Call) and isinstance(c.func, ast.Attribute)
                                                                               and c.func.attr in names} and not _abstract(ff)):
                    good.add(k)
    return good, {fns[k].name for k in good}


def _abstract(f) -> bool:
    return any(unparse(d).endswith("abstractmethod") for d in f.node.decorator_list)


OTHER_KINDS = {"str", "bytes", "list", "tuple", "dict", "set", "int", "float", "bool", "complex", "type(None)", "NoneType"}


def rule_lenkind(ctx) -> RuleResult:
    res = RuleResult(
        "C07.LENKIND",
        "C07",
        "every kind of data whose `values` setter admits an array (it tests for np.ndarray and stores it) puts the array against "
        "the expected count before storing it: on every path on which an array reaches `self._values` its length was compared "
        "with self.n_values (directly or through a method that does, as NumericData.format_values -> format_length): no data "
        "kind stores a vertex / cell array of another length than the geometry",
        floor=2,
    )
    p = ctx.p
    classes = p.subclasses(p.cls("Data"))
    good, good_names = _length_reconcilers(ctx, classes)
    seen = set()
    for K in classes:
        pr = K.props.get("values")
        fn0 = pr.setter if pr is not None else None
        if fn0 is None or id(fn0.node) in seen or len(fn0.params) < 2:
            continue
        seen.add(id(fn0.node))
        fn = ctx.view(fn0)
        v = fn.params[1]
        g = CFG(fn.node)
        array_kinds = {"ndarray"}
        resolve = literal_resolver(p, fn0)

        def type_names(e, depth=0, node=fn.node):
            """the classes an isinstance() second argument stands for: tuples flattened, a hoisted constant (ARRAY_OR_NONE = (np.ndarray,
            type(None))) or a local bound once followed to what it is bound to; a name that cannot be followed stays as it is (unknown kind)"""
            e = xp(e, node)
            if isinstance(e, ast.Tuple):
                return [nm for x in e.elts for nm in type_names(x, depth + 1)]
            if isinstance(e, ast.Name) and depth < 6:
                bound = resolve(e.id)
                if bound is not None:
                    return type_names(bound, depth + 1)
            return [unparse(e).split(".")[-1]]

        def atom(e, node=fn.node, v=v):
            # scenario: the argument is an np.ndarray, the expected count is known, the association is not OBJECT
            e = xp(e, node)
            if isinstance(e, ast.Call) and fname(e) == "isinstance" and len(e.args) == 2 and unparse(e.args[0]) == v:
                names = type_names(e.args[1])
                return True if any(nm in array_kinds for nm in names) else (False if all(nm in OTHER_KINDS for nm in names) else None)
            if isinstance(e, ast.Compare) and len(e.ops) == 1 and isinstance(e.ops[0], (ast.Is, ast.IsNot, ast.Eq, ast.NotEq)):
                pos = isinstance(e.ops[0], (ast.Is, ast.Eq))
                a, b = unparse(e.left), unparse(e.comparators[0])
                for x, y in ((a, b), (b, a)):
                    if y == "None" and x in (v, "self.n_values"):
                        return not pos
                    if x == "self.association" and y.endswith(".OBJECT"):
                        return not pos
            return None

        ev = lambda t: tv3(t, atom)  # noqa: E731
        stores = [n for n in g.nodes if n.kind == "stmt" and isinstance(n.ast, ast.Assign) and any(unparse(t) == "self._values" for t in n.ast.targets)
                  and any(isinstance(x, ast.Name) and x.id == v for x in ast.walk(xp(n.ast.value, fn.node)))]
        seen_nodes = reach3(g, [g.entry], ev)
        stores = [n for n in stores if n in seen_nodes]
        admits = any(isinstance(c, ast.Call) and fname(c) == "isinstance" and len(c.args) == 2 and unparse(c.args[0]) == v and "ndarray" in type_names(c.args[1])
                     for n in g.nodes if n.ast is not None and not isinstance(n.ast, list) and n.kind != "with" for c in ast.walk(n.ast))
        if not stores or not admits:
            continue
        pinned = K.lookup("_association")
        if pinned is not None and pinned[1] == "assign" and unparse(pinned[2]).endswith(".OBJECT"):
            continue  # a kind that is object-associated by construction (one value, whatever the geometry)

        def reconciles(n):
            if n.ast is None or isinstance(n.ast, list):
                return False
            for c in ast.walk(n.ast):
                if isinstance(c, ast.Call) and isinstance(c.func, ast.Attribute) and unparse(c.func.value) == "self" and c.func.attr in good_names \
                        and any(isinstance(x, ast.Name) and x.id == v for a in c.args for x in ast.walk(xp(a, fn.node))):
                    return True
                if isinstance(c, ast.Compare) and "n_values" in xt(c, fn.node) and any(
                        f"len({v})" in xt(c, fn.node) or f"{v}.shape" in xt(c, fn.node) or f"{v}.size" in xt(c, fn.node) for _ in (0,)):
                    return True
            return False

        unchecked = [s_ for s_ in stores if not reconciles(s_) and s_ in reach3(g, [g.entry], ev, avoid=lambda n, s_=s_: n is not s_ and reconciles(n))]
        ok = not unchecked
        res.inst(f"{K.name}.values setter: an array is compared with n_values before it is stored", nontrivial=True, ok=ok)
        if not ok:
            res.find(K.name, "values", "an array is stored without its length being compared with n_values", fn0.where,
                     f"{K.name}.values accepts arrays but never looks at the number of vertices / cells of the parent: a longer array is "
                     f"not refused and a shorter one is not padded; the stored (and written) array does not have one entry per element")
    return res


def rule_regen(ctx) -> RuleResult:
    res = RuleResult(
        "C07.REGEN",
        "C07",
        "a vertices / cells getter generates a geometry (default segments, cells derived from something else) only where none "
        "exists: with an existing array in the cache or fetched from the file — also an EMPTY one, what a removal of every cell "
        "leaves — no path stores a generated array into self.<geom> / self._<geom>: what a removal left is what is read back",
        floor=2,
    )
    p = ctx.p
    seen = set()
    for K in p.subclasses(p.cls("Points")):
        for geom in ASSOC:
            pr = K.props.get(geom)
            fn0 = pr.getter if pr is not None else None
            if fn0 is None or id(fn0.node) in seen:
                continue
            seen.add(id(fn0.node))
            rg = RegenGuard(ctx.view(fn0), geom)
            bad, has_fetch = rg.violations()
            if not has_fetch:
                continue
            res.inst(f"{K.name}.{geom} getter: generated stores that can overwrite an existing (empty) geometry: {len(bad)}", nontrivial=True, ok=not bad)
            for line, scen in bad[:1]:
                res.find(K.name, geom, f"the getter can replace an existing empty `{geom}` array ({scen}) by a generated one", f"{fn0.module.relpath}:{line}",
                         f"when the {geom} that exist ({scen}) are an empty array the getter falls into the branch that generates a geometry and stores it "
                         f"(through the setter it is also written): after a removal that left no {geom}, the next read creates elements that "
                         f"never existed, attached to the {ASSOC[geom]} data padded for them")
    return res


def rule_childmask(ctx) -> RuleResult:
    res = RuleResult(
        "C07.CHILDMASK",
        "C07",
        "in the masked copy of a cell object every data child is copied with the mask of ITS OWN association, decided within "
        "the iteration that copies it: a VERTEX child with the vertex mask, a CELL child with the cell mask, any other child "
        "with none — whatever children were copied before it (the value of the `mask=` argument of <child>.copy never "
        "originates in an earlier iteration's choice)",
        floor=3,
    )
    p = ctx.p
    data_bases = {"Data"} | {c if isinstance(c, str) else c.name for c in p.cls("Data").mro}
    seen = set()
    what = {"VERTEX": "the vertex mask", "CELL": "the cell mask", "OTHER": "no mask"}
    for K in p.subclasses(p.cls("ObjectBase")):
        fn0 = K.methods.get("copy")
        if fn0 is None or id(fn0.node) in seen:
            continue
        seen.add(id(fn0.node))
        names = fn0.params + [a.arg for a in fn0.node.args.kwonlyargs]
        if "mask" not in names or "cell_mask" not in names:
            continue
        # the loop may sit in a shared helper fed with a generator of the children and a local closure doing the copy
        v = ctx.view(fn0)
        v = replace(v, node=inline_local_closures(v.node))
        v = replace(v, node=unfold_filtered_loops(unfold_generator_loops(v, ctx.view, p)))
        cm = ChildMasks(v, data_bases)
        for call, line, assoc, got, allowed in cm.run():
            ok = got <= allowed
            kind = {"VERTEX": "VERTEX", "CELL": "CELL", "OTHER": "other"}[assoc]
            res.inst(f"{K.name}.copy:{line} a {kind}-associated child is copied with {what[assoc]} on every path", nontrivial=True, ok=ok)
            if not ok:
                stale = sorted(x.split(":")[0] for x in got - allowed)
                res.find(K.name, "copy", f"a {kind}-associated data child can be copied with another mask than {what[assoc]}", f"{fn0.module.relpath}:{line}",
                         f"the mask handed to the copy of a {kind}-associated child is not decided for that child on every path: it can "
                         f"still hold what was chosen before the loop or for an earlier child (origins: {stale}); the child's values are "
                         f"selected with the wrong mask (wrong entries kept, or the copy aborts half-way on the shape check)")
    if not res.instances and "copy" in p.cls("CellObject").methods:
        raise AnalysisError("CellObject.copy: no `<child>.copy(..., mask=...)` in a loop over the children found")
    return res


RULES = [rule_pair, rule_order, rule_len, rule_maskonly, rule_count, rule_renum, rule_fresh, rule_childmask, rule_empty, rule_cacheguard, rule_lenkind, rule_regen]
