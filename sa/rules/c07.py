"""C07 — data stay aligned with the geometry they are attached to (pairing, ordering, length case split)."""

from __future__ import annotations

import ast

from ..cfg import CFG
from ..kinds import has_call, reach
from ..model import AnalysisError, unparse
from ..report import RuleResult

ASSOC = {"vertices": "VERTEX", "cells": "CELL"}


def _targets(p):
    out = []
    for cname in ("Points", "CellObject"):
        K = p.cls(cname)
        for name in ("remove_vertices", "remove_cells"):
            if name in K.methods:
                out.append(K.methods[name])
    if len(out) < 3:
        raise AnalysisError("C07: remove_vertices / remove_cells implementations not found")
    return out


def _defs(fn):
    d = {}
    for n in ast.walk(fn.node):
        if isinstance(n, ast.Assign) and len(n.targets) == 1 and isinstance(n.targets[0], ast.Name):
            d.setdefault(n.targets[0].id, []).append(n.value)
    return d


def _is_shrink(expr, geom, defs, depth=0) -> bool:
    """The value is the geometry with rows removed: np.delete(self.<geom>, ...) or self.<geom>[<mask>, ...]."""
    if depth > 3:
        return False
    if isinstance(expr, ast.Name):
        return any(_is_shrink(d, geom, defs, depth + 1) for d in defs.get(expr.id, []))
    if isinstance(expr, ast.Call) and unparse(expr.func) == "np.delete" and expr.args and unparse(expr.args[0]) == f"self.{geom}":
        return True
    if isinstance(expr, ast.Subscript) and unparse(expr.value) == f"self.{geom}":
        s = expr.slice
        first = s.elts[0] if isinstance(s, ast.Tuple) else s
        if isinstance(first, ast.Name):
            # a boolean keep-mask built locally (np.ones(..., dtype=bool); mask[indices] = False)
            return any("dtype=bool" in unparse(d) or "bool" in unparse(d) for d in defs.get(first.id, []))
    return False


def rule_pair(ctx) -> RuleResult:
    res = RuleResult(
        "C07.PAIR",
        "C07",
        "in every remove_vertices / remove_cells implementation each store of the shrunk geometry is followed on all normal "
        "paths by remove_children_values(<the same indices>, 'VERTEX' | 'CELL' matching the geometry); "
        "ObjectBase.remove_children_values filters on that association and assigns through the values setter",
        floor=5,
    )
    p = ctx.p
    for fn in _targets(p):
        defs = _defs(fn)
        g = CFG(fn.node)
        idx_param = fn.params[1]
        for node in g.nodes:
            if node.kind != "stmt" or not isinstance(node.ast, ast.Assign):
                continue
            t = node.ast.targets[0]
            if not (isinstance(t, ast.Attribute) and unparse(t.value) == "self" and t.attr in ASSOC):
                continue
            geom = t.attr
            if not _is_shrink(node.ast.value, geom, defs):
                res.inst(f"{fn.qualname}:{node.lineno} self.{geom} = {unparse(node.ast.value)[:40]} (re-indexing, not a shrink)")
                continue
            want = ASSOC[geom]

            def trims(n, want=want):
                def pred(c):
                    if not (isinstance(c.func, ast.Attribute) and c.func.attr == "remove_children_values" and unparse(c.func.value) == "self" and len(c.args) >= 2):
                        return False
                    return isinstance(c.args[1], ast.Constant) and c.args[1].value == want and unparse(c.args[0]) == idx_param
                return has_call(n, pred)

            after = reach(g, [m for m, _ in node.succ], avoid=trims)
            ok = g.exit not in after
            res.inst(f"{fn.qualname}:{node.lineno} shrink of self.{geom} followed by remove_children_values({idx_param}, {want!r})", nontrivial=True, ok=ok)
            if not ok:
                wrong = [unparse(c)[:60] for n in g.nodes if n.ast is not None and not isinstance(n.ast, list) for c in ast.walk(n.ast)
                         if isinstance(c, ast.Call) and isinstance(c.func, ast.Attribute) and c.func.attr == "remove_children_values"]
                res.find(fn.cls.name, fn.name, f"shrink of self.{geom} not followed by remove_children_values({idx_param}, {want!r})",
                         f"{fn.module.relpath}:{node.lineno}",
                         f"after removing {geom} the {want}-associated data keep their old length (calls seen: {wrong or 'none'}): values no longer line up with the geometry")
    rcv = p.func("ObjectBase.remove_children_values")
    ind, assoc = rcv.params[1], rcv.params[2]
    # roles: child = the loop variable over self.children; values = the local the child's stored array is read into
    from ..roles import bound_from, canon
    rr = {lp.target.id: "child" for lp in ast.walk(rcv.node) if isinstance(lp, ast.For) and isinstance(lp.target, ast.Name) and unparse(lp.iter).endswith(".children")}
    rr.update({nm: "values" for nm in bound_from(rcv.node, lambda e: "_values" in unparse(e) or "fetch_values" in unparse(e))})
    unparse_r = lambda n: canon(n, rr)  # noqa: E731
    tests = [unparse_r(i.test) for i in ast.walk(rcv.node) if isinstance(i, ast.If)]
    ok = any(f"child.association.name == {assoc}" in t for t in tests)
    res.inst(f"remove_children_values filters children on `child.association.name == {assoc}`", ok=ok)
    if not ok:
        res.find("ObjectBase", "remove_children_values", "association filter changed", rcv.where, "data of the other association are trimmed too (or none are)")
    for i in [x for x in ast.walk(rcv.node) if isinstance(x, ast.If) and "association.name" in unparse_r(x.test)]:
        conj = i.test.values if isinstance(i.test, ast.BoolOp) and isinstance(i.test.op, ast.And) else [i.test]
        for c in conj:
            if isinstance(c, ast.Call) and unparse(c.func) == "isinstance" and unparse_r(c.args[0]) == "child":
                names = [unparse(x) for x in (c.args[1].elts if isinstance(c.args[1], ast.Tuple) else [c.args[1]])]
                narrow = [nm for nm in names if nm != "Data"]
                ok = not narrow
                res.inst(f"remove_children_values: class filter isinstance(child, {names})", ok=ok)
                if not ok:
                    res.find("ObjectBase", "remove_children_values", f"children filtered by class {narrow}", f"{rcv.module.relpath}:{c.lineno}",
                             f"only {narrow} children are trimmed: data of the other kinds (text, ...) keep their old length after a geometry removal")
    asg = [a for a in ast.walk(rcv.node) if isinstance(a, ast.Assign) and unparse_r(a.targets[0]) == "child.values"]
    ok = bool(asg) and all(unparse_r(a.value).replace(" ", "") == f"np.delete(values,{ind},axis=0)" for a in asg)
    res.inst(f"remove_children_values assigns child.values = np.delete(values, {ind}, axis=0)", ok=ok)
    if not ok:
        res.find("ObjectBase", "remove_children_values", "values are not trimmed with the given indices through the setter", rcv.where,
                 "the trimmed values are not stored (or not persisted)")
    return res


def rule_order(ctx) -> RuleResult:
    res = RuleResult(
        "C07.ORDER",
        "C07",
        "in remove_vertices / remove_cells every explicit raise precedes the first store: a refused request leaves geometry and data untouched",
        floor=3,
    )
    p = ctx.p
    for fn in _targets(p):
        g = CFG(fn.node)
        stores = [n for n in g.nodes if n.kind == "stmt" and isinstance(n.ast, (ast.Assign, ast.AugAssign)) and any(
            isinstance(x, ast.Attribute) and isinstance(x.ctx, ast.Store) and unparse(x.value) == "self" for x in ast.walk(n.ast))]
        bad = []
        for s in stores:
            for n in reach(g, [m for m, _ in s.succ]):
                if n.kind == "raise":
                    bad.append((s, n))
        ok = not bad
        res.inst(f"{fn.qualname}: {len(stores)} stores, explicit raises reachable after a store: {len(bad)}", nontrivial=True, ok=ok)
        for s, n in bad[:1]:
            res.find(fn.cls.name, fn.name, f"raise at line {n.lineno} reachable after the store at line {s.lineno}", f"{fn.module.relpath}:{n.lineno}",
                     "the operation can fail after the geometry was already rewritten: geometry and data are left inconsistent")
    return res


def rule_len(ctx) -> RuleResult:
    res = RuleResult(
        "C07.LEN",
        "C07",
        "NumericData.format_length handles the three orderings of value length vs expected count: shorter -> padded with the "
        "class no-data value, longer -> refused (unless object-associated), equal -> unchanged; format_values reaches it on "
        "every path with values; the values setter and the lazy getter store only format_values' result",
        floor=6,
    )
    p = ctx.p
    nd = p.cls("NumericData")
    fl = nd.methods.get("format_length")
    if fl is None:
        raise AnalysisError("anchor NumericData.format_length not found")
    v = fl.params[1]
    ifs = [i for i in fl.node.body if isinstance(i, ast.If)]
    lt = [i for i in ifs if isinstance(i.test, ast.Compare) and isinstance(i.test.ops[0], ast.Lt) and f"len({v})" in unparse(i.test.left) and "n_values" in unparse(i.test)]
    ok = False
    if lt:
        body = ast.Module(body=lt[0].body, type_ignores=[])
        rets = [r for r in ast.walk(body) if isinstance(r, ast.Return)]
        defs = {}
        for a in ast.walk(body):
            if isinstance(a, ast.Assign) and isinstance(a.targets[0], ast.Name):
                defs[a.targets[0].id] = a.value
        for r in rets:
            src = defs.get(r.value.id) if isinstance(r.value, ast.Name) else r.value
            txt = unparse(src) if src is not None else ""
            ok = "self.nan_value" in txt and "zeros" not in txt and "self.n_values" in txt
    res.inst("format_length: shorter -> array of n_values filled with self.nan_value", nontrivial=True, ok=ok)
    if not ok:
        res.find("NumericData", "format_length", "short arrays are not padded with self.nan_value to n_values", fl.where,
                 "shorter arrays are padded with something else than the no-data value (or not padded): gaps read as real values")
    gt = [i for i in ifs if any(isinstance(c, ast.Compare) and isinstance(c.ops[0], ast.Gt) and f"len({v})" in unparse(c.left) for c in ast.walk(i.test))]
    ok = bool(gt) and all(any(isinstance(s, ast.Raise) for s in i.body) for i in gt)
    res.inst("format_length: longer -> raise (unless OBJECT association)", nontrivial=True, ok=ok)
    if not ok:
        res.find("NumericData", "format_length", "longer arrays are not refused", fl.where, "an array longer than the geometry is accepted")
    if gt:
        extra = [unparse(x) for x in (gt[0].test.values if isinstance(gt[0].test, ast.BoolOp) else [])]
        ok = all(("len(" in e) or ("OBJECT" in e) for e in extra)
        res.inst(f"format_length: the only escape from the refusal is the OBJECT association ({extra})", ok=ok)
        if not ok:
            res.find("NumericData", "format_length", f"refusal weakened by {extra}", fl.where, "longer arrays are accepted for vertex / cell data")
    last = fl.node.body[-1]
    ok = isinstance(last, ast.Return) and unparse(last.value) == v
    res.inst("format_length: equal -> values unchanged", ok=ok)
    if not ok:
        res.find("NumericData", "format_length", "fall-through does not return the values unchanged", fl.where, "correctly sized arrays are altered")
    fv = nd.methods["format_values"]
    g = CFG(fv.node)
    calls = lambda name: (lambda n: has_call(n, lambda c: unparse(c.func) == f"self.{name}"))  # noqa: E731
    none_tests = [n for n in g.nodes if n.kind == "test" and unparse(n.ast) == f"{fv.params[1]} is None"]
    starts = [m for t in none_tests for m, l in t.succ if l == "false"] or [g.entry]
    for name in ("format_length", "format_type"):
        ok = g.exit not in reach(g, starts, avoid=calls(name))
        res.inst(f"format_values: every path with values calls self.{name}", nontrivial=True, ok=ok)
        if not ok:
            res.find("NumericData", "format_values", f"a path with values skips self.{name}", fv.where,
                     "values can be stored without the length / type coercion")
    for acc, fnx in (("setter", nd.props["values"].setter), ("getter", nd.props["values"].getter)):
        stores = [a for a in ast.walk(fnx.node) if isinstance(a, ast.Assign) and unparse(a.targets[0]) == "self._values"]
        ok = bool(stores) and all(unparse(a.value).startswith("self.format_values(") for a in stores)
        res.inst(f"NumericData.values {acc} stores only self.format_values(...)", ok=ok)
        if not ok:
            res.find("NumericData", "values", f"{acc} stores {[unparse(a.value)[:40] for a in stores]}", fnx.where, "raw values bypass padding / refusal / coercion")
    return res


ORDER_INSENSITIVE_CALLS = {"np.delete", "np.max", "np.min", "np.array", "np.asarray", "np.unique", "np.sort", "len", "isinstance", "np.any", "np.all",
                           "np.atleast_1d", "np.ravel", "np.r_"}


def rule_maskonly(ctx) -> RuleResult:
    res = RuleResult(
        "C07.MASKONLY",
        "C07",
        "in remove_vertices / remove_cells the removal indices are consumed only by operations whose result does not depend on "
        "their order or multiplicity (np.delete, assignment into a boolean keep-mask, max/len/type tests, np.unique/np.sort "
        "normalisation, remove_children_values) — never by arithmetic or position look-ups on the raw list",
        floor=3,
    )
    p = ctx.p
    for fn in _targets(p):
        idx = fn.params[1]
        parents = {}
        for n in ast.walk(fn.node):
            for c in ast.iter_child_nodes(n):
                parents[c] = n
        uses = [n for n in ast.walk(fn.node) if isinstance(n, ast.Name) and n.id == idx and isinstance(n.ctx, ast.Load)]
        bad = []
        for u in uses:
            par = parents.get(u)
            ok = False
            if isinstance(par, ast.Call):
                f = unparse(par.func)
                if f in ORDER_INSENSITIVE_CALLS or f.endswith(".remove_children_values") or f.endswith(".remove_cells") or f.endswith(".remove_vertices"):
                    ok = True
            elif isinstance(par, ast.Subscript) and par.slice is u and isinstance(par.ctx, ast.Store):
                # mask[indices] = False
                ok = True
            elif isinstance(par, ast.Compare):
                ok = True
            elif isinstance(par, (ast.Tuple,)) and isinstance(parents.get(par), ast.Call) and unparse(parents[par].func) == "isinstance":
                ok = True
            elif isinstance(par, ast.keyword):
                ok = True
            if not ok:
                bad.append((u, par))
        res.inst(f"{fn.qualname}: {len(uses)} uses of `{idx}`, order-sensitive: {len(bad)}", nontrivial=True, ok=not bad)
        for u, par in bad[:1]:
            res.find(fn.cls.name, fn.name, f"`{idx}` consumed by an order / multiplicity sensitive operation: {unparse(par)[:60]}", f"{fn.module.relpath}:{u.lineno}",
                     f"the result of {fn.qualname} must not depend on the order of the removal indices or on repeated entries; "
                     f"`{unparse(par)[:60]}` uses the raw list positionally / arithmetically")
    return res


def rule_count(ctx) -> RuleResult:
    res = RuleResult(
        "C07.COUNT",
        "C07",
        "in Data.copy with a mask the choice between handing over the selected values only and a full-length array blanked "
        "outside the mask is decided by the TARGET's element count of the data's association (parent.n_cells / n_vertices)",
        floor=1,
    )
    p = ctx.p
    fn = p.func("Data.copy")
    par = fn.params[1]
    sub = [i for i in ast.walk(fn.node) if isinstance(i, ast.If) and any("[mask]" in unparse(s_) and "values" in unparse(s_) for s_ in i.body) and i.orelse]
    if not sub:
        raise AnalysisError("Data.copy: subset / fill decision not found")
    for i in sub:
        defs = {}
        for a in ast.walk(fn.node):
            if isinstance(a, ast.Assign) and isinstance(a.targets[0], ast.Name):
                defs[a.targets[0].id] = a.value
        leaves = set()
        for n in ast.walk(i.test):
            if isinstance(n, ast.Name) and n.id in defs:
                leaves |= {unparse(x) for x in ast.walk(defs[n.id]) if isinstance(x, ast.Attribute)}
            elif isinstance(n, ast.Attribute):
                leaves.add(unparse(n))
        ok = {f"{par}.n_cells", f"{par}.n_vertices"} <= leaves and any("association" in x for x in leaves)
        res.inst(f"Data.copy: subset-vs-fill test `{unparse(i.test)[:50]}` depends on {sorted(x for x in leaves if par in x or 'association' in x)}", nontrivial=True, ok=ok)
        if not ok:
            res.find("Data", "copy", f"subset-vs-fill decision `{unparse(i.test)[:50]}` ignores the target's element count", f"{fn.module.relpath}:{i.lineno}",
                     "whether the masked values must be compacted or kept full-length depends on how many vertices / cells the TARGET has; "
                     "a test that does not look at it misplaces the values for some targets (length right, values on the wrong elements)")
    return res


RULES = [rule_pair, rule_order, rule_len, rule_maskonly, rule_count]
