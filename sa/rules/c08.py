"""C08 — values survive storage; gaps use the format's no-data codes (constant / codec / guard agreement)."""

from __future__ import annotations

import ast
import copy
import struct

from ..cfg import CFG, dominators
from ..kinds import reach
from ..model import AnalysisError, unparse
from ..report import RuleResult
from ..textile import FormatDoc
from ._c08_flow import Locals, NdvHome, _tname, call_name, covers_more_than_nan, eq_other_side, fold, is_isnan_of, is_nan, masked_stores, text_kind_truth


def f32(x: float) -> float:
    return struct.unpack("f", struct.pack("f", float(x)))[0]


def _getter_returns(ctx, K, name):
    """(returned expressions with private helpers expanded and temporaries replaced by their definitions, getter) of a property."""
    m = K.lookup(name)
    if not m or m[1] != "prop" or m[2].getter is None:
        return [], None
    g = m[2].getter
    v = _frame(ctx, g)  # names of constants are kept: they are resolved to their home assignment
    L = Locals(v.node)
    return [L.expand(r.value) for r in ast.walk(v.node) if isinstance(r, ast.Return) and r.value is not None], v


def _is_self_attr(fn, expr, attr) -> bool:
    return isinstance(expr, ast.Attribute) and expr.attr == attr and isinstance(expr.value, ast.Name) and expr.value.id == (fn.self_name or "self")


def _literals_in(p, mod, fn_node, expr, any_expr=False):
    """`expr` with names bound once at module level to a literal (number, string, or a set / list / tuple of them) replaced by the
    literal — whatever the constant is called (the normalised view already does this for most names)."""
    bound = {x.id for x in ast.walk(fn_node) if isinstance(x, ast.Name) and isinstance(x.ctx, ast.Store)} | {a.arg for a in ast.walk(fn_node) if isinstance(a, ast.arg)}

    def lit(v):
        if isinstance(v, ast.Call) and getattr(v.func, "id", None) in ("frozenset", "set", "tuple", "list") and len(v.args) == 1 and not v.keywords:
            return lit(v.args[0]) and not isinstance(v.args[0], ast.Constant)  # frozenset((0, 1)): a literal collection all the same
        return isinstance(v, ast.Constant) or (isinstance(v, (ast.Set, ast.List, ast.Tuple)) and all(isinstance(e, ast.Constant) for e in v.elts))

    class R(ast.NodeTransformer):
        def visit_Name(self, n):
            if isinstance(n.ctx, ast.Load) and n.id not in bound:
                r = p.resolve_name(mod, n.id)
                if r and r[0] == "assign" and (lit(r[1][1]) or (any_expr and not any(isinstance(x, ast.Name) and x.id == n.id for x in ast.walk(r[1][1])))):
                    return ast.copy_location(copy.deepcopy(r[1][1]), n)  # any_expr: a hoisted bound such as `MAX_KEY = np.iinfo(np.uint32).max`
            return n

    return R().visit(copy.deepcopy(expr))


def _defs_in(p, fn, expr, _depth=0):
    """`expr` with module-level names and class-level attributes (`cls.X` / `self.X` / `Class.X`) replaced by the expressions they are bound
    to, whatever those are (a table of fields holding a call is not a pure literal, and is still the table)."""
    if expr is None or _depth > 3:
        return expr
    bound = _locally_bound(fn.node)

    class R(ast.NodeTransformer):
        def visit_Name(self, n):
            if isinstance(n.ctx, ast.Load) and n.id not in bound:
                r = p.resolve_name(fn.module, n.id)
                if r and r[0] == "assign" and not any(isinstance(x, ast.Name) and x.id == n.id for x in ast.walk(r[1][1])):
                    return _defs_in(p, fn, copy.deepcopy(r[1][1]), _depth + 1)
            return n

        def visit_Attribute(self, n):
            if isinstance(n.ctx, ast.Load) and isinstance(n.value, ast.Name):
                owner = None
                if fn.cls is not None and n.value.id in ("self", "cls", fn.self_name):
                    owner = fn.cls
                elif n.value.id not in bound:
                    r = p.resolve_name(fn.module, n.value.id)
                    owner = r[1] if r and r[0] == "class" else None
                if owner is not None:
                    for k in owner.mro:
                        if not isinstance(k, str) and n.attr in k.class_assigns:
                            v = k.class_assigns[n.attr][0]
                            if v is not None and not any(isinstance(x, ast.Attribute) and x.attr == n.attr for x in ast.walk(v)):
                                return _defs_in(p, fn, copy.deepcopy(v), _depth + 1)
                            break
            self.generic_visit(n)
            return n

    return R().visit(copy.deepcopy(expr))


def _raise_guards(ctx, fn) -> list:
    """For every `raise` of the function: the conditions (temporaries expanded, hoisted literals back in place, predicates drawn from
    tables looked into) of the tests that dominate it."""
    g = CFG(fn.node)
    dom = dominators(g)
    L = Locals(fn.node)
    out = []
    for n in g.nodes:
        if n.kind == "raise" and n in dom:
            out.append([_literals_in(ctx.p, fn.module, fn.node, m) for t in dom[n] if t.kind == "test" and t is not n for m in _test_meanings(ctx, fn, L, t.ast)])
    return out


def _cmp_sides(test, ops):
    """Direct operands of the comparisons (with one of `ops`) inside a condition."""
    for c in ast.walk(test):
        if isinstance(c, ast.Compare) and len(c.ops) == 1 and isinstance(c.ops[0], ops):
            yield c.left
            yield c.comparators[0]


def _is_int_const(e, value) -> bool:
    return isinstance(e, ast.Constant) and isinstance(e.value, int) and not isinstance(e.value, bool) and e.value == value


def rule_ndv(ctx) -> RuleResult:
    res = RuleResult(
        "C08.NDV",
        "C08",
        "the float / integer no-data constants used by the writer, both reader paths and the data classes resolve to the "
        "same two module constants whose values equal the format document's (as float32 / int32); booleans use 0; the "
        "reference key 0 is tied to 'Unknown' on both sides",
        floor=10,
    )
    p = ctx.p
    doc = FormatDoc(p.repo, p.overlay).ndv()
    shared = p.modules.get("geoh5py.shared")
    if shared is None:
        raise AnalysisError("anchor module geoh5py.shared not found")
    home = NdvHome(p, shared)
    fl = home.value("FLOAT_NDV")
    it = home.value("INTEGER_NDV")
    ok = fl is not None and f32(fl) == f32(float(doc["Float"]))
    res.inst(f"FLOAT_NDV {fl} == documented {doc['Float']} as float32", ok=ok)
    if not ok:
        res.find("shared", "FLOAT_NDV", f"FLOAT_NDV = {fl} differs from the documented {doc['Float']}", shared.relpath + ":1",
                 "NaN is written as a value Geoscience ANALYST does not treat as no-data")
    ok = it is not None and int(it) == it and int(it) == int(doc["Integer"])
    res.inst(f"INTEGER_NDV {it} == documented {doc['Integer']}", ok=ok)
    if not ok:
        res.find("shared", "INTEGER_NDV", f"INTEGER_NDV = {it} differs from the documented {doc['Integer']}", shared.relpath + ":1",
                 "integer gaps are written with a code the format does not define")
    for cname, const in (("FloatData", "FLOAT_NDV"), ("IntegerData", "INTEGER_NDV")):
        K = p.cls(cname)
        rets, g = _getter_returns(ctx, K, "ndv")
        ok = bool(rets) and all(home.which(_mods(g), v) == const for v in rets)
        res.inst(f"{cname}.ndv returns shared.{const}", ok=bool(ok))
        if not ok:
            res.find(cname, "ndv", f"ndv returns {unparse(rets[0]) if rets else ''}", g.where if g else K.where, f"{cname} writes gaps with a code other than shared.{const}")
    K = p.cls("IntegerData")
    rets, g = _getter_returns(ctx, K, "nan_value")
    ok = bool(rets) and all(_is_self_attr(g, v, "ndv") or home.which(_mods(g), v) == "INTEGER_NDV" for v in rets)
    res.inst(f"IntegerData.nan_value -> {[unparse(v) for v in rets]}", ok=ok)
    if not ok:
        res.find("IntegerData", "nan_value", f"nan_value returns {unparse(rets[0]) if rets else ''}", g.where if g else K.where, "padding uses a different code than the stored no-data value")
    rets, g = _getter_returns(ctx, p.cls("FloatData"), "nan_value")
    ok = bool(rets) and all(is_nan(v) for v in rets)
    res.inst(f"FloatData.nan_value -> {[unparse(v) for v in rets]}", ok=ok)
    if not ok:
        res.find("FloatData", "nan_value", f"nan_value returns {unparse(rets[0]) if rets else ''}", g.where if g else "", "float gaps are not NaN in memory")
    rets, g = _getter_returns(ctx, p.cls("BooleanData"), "ndv")
    ok = bool(rets) and all((isinstance(v, ast.Constant) and v.value == 0) or fold(p, g.module, v) == 0 for v in rets)
    res.inst(f"BooleanData.ndv -> {[unparse(v) for v in rets]}", ok=ok)
    if not ok:
        res.find("BooleanData", "ndv", f"ndv returns {unparse(rets[0]) if rets else ''}", g.where if g else "", "boolean gaps are not stored as 0")
    # reader / writer use the shared constant (wherever the comparison / substitution lives: private helpers are expanded)
    for spec in ("H5Reader.fetch_values", "H5Reader.fetch_concatenated_values", "H5Writer.update_concatenated_field"):
        fn = _frame(ctx, spec)
        names = set().union(*[home.mentioned(_mods(f), f.node) for f in _with_private_callees(ctx, fn)])
        ok = names == {"FLOAT_NDV"}
        res.inst(f"{spec} uses shared.FLOAT_NDV ({sorted(names)})", ok=bool(ok))
        if not ok:
            res.find(spec.split(".")[0], spec.split(".")[1], f"no-data constant(s) {sorted(names)}", fn.where, "reader and writer disagree on the float no-data code")
    # the no-data value is never cast to a dtype taken from the user's array
    nd = p.cls("NumericData")
    seen = set()
    for K in p.subclasses(nd):
        for fn in list(K.methods.values()):
            if fn in seen:
                continue
            seen.add(fn)
            L = None
            for c in ast.walk(fn.node):
                if not isinstance(c, ast.Call):
                    continue
                f = call_name(c)
                fill = None
                dt = next((k.value for k in c.keywords if k.arg == "dtype"), None)
                if f in ("full", "full_like") and len(c.args) >= 2:
                    fill = c.args[1]
                    if dt is None and len(c.args) >= 3:
                        dt = c.args[2]
                elif f in ("array", "asarray") and c.args:
                    fill = c.args[0]
                if fill is None or dt is None:
                    continue
                L = L or Locals(fn.node)
                fill, dt = L.expand(fill), L.expand(dt)
                if any(isinstance(x, ast.Attribute) and x.attr in ("nan_value", "ndv") for x in ast.walk(fill)) and \
                        any(isinstance(x, ast.Attribute) and x.attr == "dtype" for x in ast.walk(dt)):
                    res.inst(f"{fn.qualname}:{c.lineno} no-data value cast to {unparse(dt)}", ok=False)
                    res.find(fn.cls.name, fn.name, f"no-data value cast to the input's dtype: {unparse(c)[:60]}", f"{fn.module.relpath}:{c.lineno}",
                             "the no-data code is forced into the dtype of the user's array: for narrow dtypes (int8, int16, ...) it wraps to another "
                             "number (0) and gaps become indistinguishable from real values")
    # reference key 0 <-> "Unknown": the label a raising guard compares with when the key is 0, and the label stored under key 0 by default
    rvm = p.cls("ReferenceValueMap")
    if "map" not in rvm.props or rvm.props["map"].setter is None:
        raise AnalysisError("anchor ReferenceValueMap.map[setter] not found")
    st = rvm.props["map"].setter
    sv = ctx.view(st)
    frames = [sv]
    vk = rvm.methods.get("_validate_key_value")
    if vk is not None:
        frames.append(ctx.view(vk))
    toks = set()
    for fr in frames:
        for tests in _raise_guards(ctx, fr):
            if any(_is_int_const(s, 0) for t in tests for s in _cmp_sides(t, (ast.Eq, ast.NotEq, ast.Is, ast.IsNot))):
                for t in tests:
                    for s in _cmp_sides(t, (ast.Eq, ast.NotEq, ast.In, ast.NotIn)):
                        for e in (s.elts if isinstance(s, (ast.Tuple, ast.List, ast.Set)) else [s]):
                            if isinstance(e, ast.Constant) and isinstance(e.value, str):
                                toks.add(e.value)
    L = Locals(sv.node)
    wr = set()
    for a in ast.walk(sv.node):
        v = None
        if isinstance(a, ast.Assign) and len(a.targets) == 1 and isinstance(a.targets[0], ast.Subscript) and _is_int_const(_literals_in(p, st.module, sv.node, L.expand(a.targets[0].slice)), 0):
            v = a.value
        elif isinstance(a, ast.Call) and call_name(a) == "setdefault" and len(a.args) == 2 and _is_int_const(_literals_in(p, st.module, sv.node, L.expand(a.args[0])), 0):
            v = a.args[1]
        if v is not None:
            v = _literals_in(p, st.module, sv.node, L.expand(v))
            wr.add(v.value if isinstance(v, ast.Constant) else unparse(v))
    ok = "Unknown" in toks and wr == {"Unknown"}
    res.inst(f"ReferenceValueMap: key 0 validated against {sorted(toks)}, defaulted to {sorted(map(str, wr))}", ok=ok)
    if not ok:
        res.find("ReferenceValueMap", "map", f"key 0 label: validation {sorted(toks)} vs default {sorted(map(repr, wr))}", st.where, "key 0 is not reserved for 'Unknown' consistently")
    return res


def _rule_words() -> set:
    try:
        from ..normalize import rule_named_identifiers
    except ImportError:  # older normaliser: private helpers only
        return _Everything()
    return rule_named_identifiers()


class _Everything(set):
    def __contains__(self, item):
        return True


def _locally_bound(fn_node) -> set:
    return {x.id for x in ast.walk(fn_node) if isinstance(x, ast.Name) and isinstance(x.ctx, ast.Store)} | {a.arg for a in ast.walk(fn_node) if isinstance(a, ast.arg)}


def _resolve_ref(p, fn, node, bound=()):
    """The package function a name / attribute denotes: `cls.h` / `self.h` / `Class.h` / `h` — private helpers, and public ones no rule
    names (the normaliser's own policy).  Used for helpers the normaliser had to leave as calls (they forward **kwargs, yield, return from
    inside a loop) and for functions that are only mentioned: entries of a dispatch table, a list of pipeline steps, a bound method."""
    name = node.attr if isinstance(node, ast.Attribute) else getattr(node, "id", None)
    if not name or name.startswith("__"):
        return None
    if not name.startswith("_") and name in _rule_words():
        return None
    if isinstance(node, ast.Attribute) and isinstance(node.value, ast.Name):
        owner = None
        if fn.cls is not None and node.value.id in ("self", "cls", fn.self_name):
            owner = fn.cls
        elif node.value.id not in bound:
            r = p.resolve_name(fn.module, node.value.id)
            owner = r[1] if r and r[0] == "class" else None
        m = owner.lookup(name) if owner is not None else None
        return m[2] if m and m[1] == "method" else None
    if isinstance(node, ast.Name) and name not in bound:
        r = p.resolve_name(fn.module, name)
        if r and r[0] == "func":
            return r[1]
        if getattr(fn, "c08_class_scope", False) and fn.cls is not None:  # a table written in a class body names the functions defined above it
            m = fn.cls.lookup(name)
            return m[2] if m and m[1] == "method" else None
    return None


def _table_of(p, fn, node, bound=()):
    """(resolution context, display) when a name / attribute denotes a module- or class-level table (dict / list / tuple / set display)."""
    from ..model import FuncInfo

    def display(v):
        return isinstance(v, (ast.Dict, ast.List, ast.Tuple, ast.Set)) or (isinstance(v, ast.Call) and getattr(v.func, "id", None) in ("dict", "tuple", "list", "frozenset", "MappingProxyType"))

    if isinstance(node, ast.Name) and node.id not in bound:
        r = p.resolve_name(fn.module, node.id)
        if r and r[0] == "assign" and display(r[1][1]):
            return FuncInfo(name=fn.name, module=r[1][0], node=fn.node, cls=None, kind="function"), r[1][1]
    if isinstance(node, ast.Attribute) and isinstance(node.value, ast.Name):
        owner = None
        if fn.cls is not None and node.value.id in ("self", "cls", fn.self_name):
            owner = fn.cls
        elif node.value.id not in bound:
            r = p.resolve_name(fn.module, node.value.id)
            owner = r[1] if r and r[0] == "class" else None
        if owner is not None:
            for k in owner.mro:
                if not isinstance(k, str) and node.attr in k.class_assigns:
                    v = k.class_assigns[node.attr][0]
                    if v is not None and display(v) and k.module is not None:
                        ctx_fn = FuncInfo(name=fn.name, module=k.module, node=fn.node, cls=k, kind="classmethod")
                        ctx_fn.c08_class_scope = True
                        return ctx_fn, v
                    return None
    return None


def _package_refs(p, fn, node=None, _depth=0) -> list:
    """(node, function, the call it is the callee of | None) for every package function the code calls or mentions, tables looked into."""
    node = fn.node if node is None else node
    bound = _locally_bound(fn.node) if node is fn.node or _depth == 0 else set()
    callee_of = {id(c.func): c for c in ast.walk(node) if isinstance(c, ast.Call)}
    out = []
    for x in ast.walk(node):
        if isinstance(x, ast.Call) and getattr(x.func, "id", None) == "getattr" and len(x.args) >= 2 and isinstance(x.args[0], ast.Name):
            # getattr(cls, <name>): the methods whose names the key expression can take (string literals, locals bound to them, tables of them)
            L = Locals(fn.node)
            words, todo = set(), [x.args[1]]
            for _round in range(4):
                nxt = []
                for e in todo:
                    for y in ast.walk(e):
                        if isinstance(y, ast.Constant) and isinstance(y.value, str):
                            words.add(y.value)
                        elif isinstance(y, ast.Name) and y.id in L.defs and y.id not in L.params:
                            nxt += L.values(y.id)
                        elif isinstance(y, (ast.Name, ast.Attribute)) and _depth < 2:
                            t = _table_of(p, fn, y, bound)
                            if t is not None:
                                nxt.append(t[1])
                todo = nxt
            for w in sorted(words):
                f = _resolve_ref(p, fn, ast.Attribute(value=x.args[0], attr=w, ctx=ast.Load()), bound)
                if f is not None and f.node is not fn.node:
                    out.append((x, f, None))
            continue
        if not (isinstance(x, (ast.Name, ast.Attribute)) and isinstance(getattr(x, "ctx", None), ast.Load)):
            continue
        f = _resolve_ref(p, fn, x, bound)
        if f is not None:
            if f.node is not fn.node:
                out.append((x, f, callee_of.get(id(x))))
        elif _depth < 2:
            t = _table_of(p, fn, x, bound)
            if t is not None:
                out += [(x, f2, None) for _n, f2, _c in _package_refs(p, t[0], t[1], _depth + 1)]
    return out


def _mods(fr) -> list:
    return getattr(fr, "c08_mods", None) or [fr.module]


def _frame(ctx, spec_or_fn, consts=False):
    """The normalised view of a function, with the modules its (expanded) code may come from: a name in expanded helper code is resolved
    where the helper was written."""
    raw = ctx.p.func(spec_or_fn) if isinstance(spec_or_fn, str) else spec_or_fn
    v = ctx.view(raw, consts=consts)
    if getattr(v, "c08_mods", None) is None:
        mods, seen, todo = [raw.module], {id(raw.node)}, [(raw, 0)]
        while todo:
            f, d = todo.pop()
            if d >= 3:
                continue
            for _n, g, _c in _package_refs(ctx.p, f):
                if id(g.node) not in seen:
                    seen.add(id(g.node))
                    if g.module not in mods:
                        mods.append(g.module)
                    todo.append((g, d + 1))
        v.c08_mods = mods
    return v


def _with_private_callees(ctx, v, _depth=0) -> list:
    """The function (helpers expanded) and the helpers that stayed calls or are only mentioned (dispatch tables, pipeline steps), transitively."""
    out = [v]
    if _depth < 2:
        for _n, callee, _c in _package_refs(ctx.p, v):
            for f in _with_private_callees(ctx, _frame(ctx, callee), _depth + 1):
                if all(f.node is not o.node for o in out):
                    out.append(f)
    return out


def _dataset_sinks(ctx, v, _depth=0, _stack=()) -> list:
    """(function to look at, call in it, expression stored as the dataset's data, explicit dtype / shape) for every h5py
    `create_dataset(.., data=..)` the function performs itself or in its expanded helpers.  For a helper that stayed a call: the caller's
    argument when the helper stores a parameter as it came, the helper's own frame otherwise — and the helper's own frame too when it is
    only reached through a table or as a bound method."""
    out = []
    for c in ast.walk(v.node):
        if isinstance(c, ast.Call) and isinstance(c.func, ast.Attribute) and c.func.attr in ("create_dataset", "require_dataset") and any(k.arg == "data" for k in c.keywords):
            # an explicit dtype / shape marks a text or blob dataset — unless it merely repeats the array's own (`dtype=X.dtype, shape=X.shape`)
            typed = any((k.arg == "dtype" and not (isinstance(k.value, ast.Attribute) and k.value.attr == "dtype"))
                        or (k.arg == "shape" and not (isinstance(k.value, ast.Attribute) and k.value.attr == "shape")) for k in c.keywords)
            out.append((v, c, next(k.value for k in c.keywords if k.arg == "data"), typed))
    if _depth >= 2:
        return out
    done = set()
    for _n, callee, c in _package_refs(ctx.p, v):
        if id(callee.node) in _stack or (id(callee.node), id(c)) in done:
            continue
        done.add((id(callee.node), id(c)))
        cv = _frame(ctx, callee)
        inner = _dataset_sinks(ctx, cv, _depth + 1, _stack + (id(v.node),))
        if c is None:
            out += [s for s in inner if all(s[1] is not o[1] for o in out)]
            continue
        params = list(cv.params)
        if callee.kind in ("method", "classmethod") and isinstance(c.func, ast.Attribute):
            params = params[1:]
        bound = dict(zip(params, c.args))
        bound.update({k.arg: k.value for k in c.keywords if k.arg})
        CL = Locals(cv.node)
        for frame, c2, data, typed in inner:
            d = CL.expand(data) if frame is cv else None
            if isinstance(d, ast.Name) and d.id in bound and not CL.defs.get(d.id) and d.id not in CL.opaque:
                out.append((v, c, bound[d.id], typed))
            elif all(c2 is not o[1] for o in out):
                out.append((frame, c2, data, typed))
    return out


def _test_meanings(ctx, fn, L, test, _depth=0) -> list:
    """What a condition decides, beyond its own text: when it calls a package function that stayed a call, the expressions that function
    returns; when it calls a name drawn from a table it loops over (`for check, error in CHECKS: if check(values): raise error`), the
    functions and lambdas of that table.  The condition itself (temporaries expanded) comes first."""
    out = [L.expand(test)]
    if _depth >= 2:
        return out
    p = ctx.p
    sources = [out[0]]
    used = {x.id for x in ast.walk(test) if isinstance(x, ast.Name)}
    for loop in ast.walk(fn.node):
        if isinstance(loop, (ast.For, ast.comprehension)) and used & {x.id for x in ast.walk(loop.target) if isinstance(x, ast.Name)}:
            sources.append(L.expand(loop.iter))
    bound = _locally_bound(fn.node)
    for src in sources:
        tables = [src]
        for y in ast.walk(src):
            if isinstance(y, (ast.Name, ast.Attribute)):
                t = _table_of(p, fn, y, bound)
                if t is not None:
                    tables.append(t[1])
        for t in tables:
            out += [lam.body for lam in ast.walk(t) if isinstance(lam, ast.Lambda)]
        for _n, callee, _c in _package_refs(p, fn, src):
            cv = _frame(ctx, callee, consts=True)
            CL = Locals(cv.node)
            for r in ast.walk(cv.node):
                if isinstance(r, (ast.Return, ast.Yield, ast.YieldFrom)) and r.value is not None:  # a generator of verdicts: what it yields
                    out += _test_meanings(ctx, cv, CL, r.value, _depth + 1)
    return out


def _cfg_nodes_of(g, target) -> list:
    """CFG nodes whose own expression / simple statement contains the node `target`."""
    out = []
    for n in g.nodes:
        a = n.ast
        if a is None or isinstance(a, list):
            continue
        if n.kind == "with":
            parts = [it.context_expr for it in a.items]
        elif n.kind == "except":
            parts = [a.type] if a.type is not None else []
        elif n.kind == "def":
            parts = []
        else:
            parts = [a]
        if any(x is target for part in parts for x in ast.walk(part)):
            out.append(n)
    return out


def _is_ndv_source(home, mod, expr) -> bool:
    """The expression reads a no-data code: `<entity>.ndv`, `getattr(<entity>, "ndv", ..)` or one of the shared constants."""
    for x in ast.walk(expr):
        if isinstance(x, ast.Attribute) and x.attr == "ndv":
            return True
        if isinstance(x, ast.Call) and getattr(x.func, "id", None) == "getattr" and len(x.args) >= 2 and isinstance(x.args[1], ast.Constant) and x.args[1].value == "ndv":
            return True
        if isinstance(x, (ast.Name, ast.Attribute)) and home.which(mod, x):
            return True
    return False


def _array_names(L, data) -> set:
    d = data if isinstance(data, ast.Name) else L.expand(data)
    return L.alias_class(d.id) if isinstance(d, ast.Name) else set()


def _three(L, test, leaf, _depth=0):
    """Three-valued value of a condition given the value of its elementary parts (`leaf(expr)` -> True / False / None): not / and / or,
    named conditions and walrus targets are looked through."""
    if test is None or _depth > 6:
        return None
    if isinstance(test, ast.UnaryOp) and isinstance(test.op, ast.Not):
        v = _three(L, test.operand, leaf, _depth + 1)
        return None if v is None else not v
    if isinstance(test, ast.BoolOp):
        vals = [_three(L, v, leaf, _depth + 1) for v in test.values]
        if isinstance(test.op, ast.And):
            return False if any(v is False for v in vals) else (True if all(v is True for v in vals) else None)
        return True if any(v is True for v in vals) else (False if all(v is False for v in vals) else None)
    if isinstance(test, ast.Name):
        d = L.single(test.id)
        return _three(L, d, leaf, _depth + 1) if d is not None else leaf(test)
    if isinstance(test, ast.NamedExpr):
        return _three(L, test.value, leaf, _depth + 1)
    return leaf(test)


def _assumed(home, mod, L, names, test):
    """Three-valued value of a condition for an entity that has a no-data code and an array (called one of `names`) that has NaNs:
    `<ndv source> is None` is False, `np.isnan(X).any()` / `np.any(np.isnan(X))` is True, anything else is unknown (None)."""

    def leaf(t):
        if isinstance(t, ast.Compare) and len(t.ops) == 1 and isinstance(t.ops[0], (ast.Is, ast.IsNot)) \
                and isinstance(t.comparators[0], ast.Constant) and t.comparators[0].value is None:
            if _is_ndv_source(home, mod, L.expand(t.left)):
                return isinstance(t.ops[0], ast.IsNot)
            return None
        if isinstance(t, ast.Call) and call_name(t) == "any":
            inner = t.func.value if isinstance(t.func, ast.Attribute) and not t.args else (t.args[0] if len(t.args) == 1 else None)
            if inner is not None and is_isnan_of(L.expand(inner, names), names):
                return True
        return None

    return _three(L, test, leaf)


def _reach_assuming(g, value, avoid=(), definite=False):
    """CFG nodes reachable from the entry when a test whose condition has a known value (True / False) only continues on that branch.
    definite: only paths that are certainly taken — exceptional edges are not followed and a test of unknown value ends the path."""
    seen, todo = set(), [g.entry]
    while todo:
        n = todo.pop()
        if n in seen or n in avoid:
            continue
        seen.add(n)
        v = value(n.ast) if n.kind == "test" else None
        if definite and n.kind == "test" and v is None:
            continue
        for m, lab in n.succ:
            if (v is True and lab == "false") or (v is False and lab == "true") or (definite and lab in ("exc", "raise")):
                continue
            todo.append(m)
    return seen


def _nan_substitutions(L, fr, data):
    """([(statement, value stored where the array is NaN)], value of an `np.where(isnan(X), V, X)` written in the call itself) for the
    array `data` names in function `fr` (through plain copies); data None: any array of the function."""
    stores = masked_stores(fr.node, L)
    if data is None:
        return [(s, v) for s, x, m, v in stores if is_isnan_of(m, L.alias_class(x))], None
    names = _array_names(L, data)
    subst = [(s, v) for s, x, m, v in stores if x in names and is_isnan_of(m, L.alias_class(x))]
    dx = L.expand(data)
    inline = None
    if isinstance(dx, ast.Call) and call_name(dx) == "where" and len(dx.args) == 3 and isinstance(dx.args[2], ast.Name):
        same = L.alias_class(dx.args[2].id)
        if is_isnan_of(L.expand(dx.args[0], same), same):
            inline = dx.args[1]
    return subst, inline


def _only_the_gaps(res, cls, member, fr, L, names):
    """The substitution of gaps replaces the NaNs and nothing else: a mask (or `nan_to_num` with its default posinf / neginf) that also
    selects infinities or other elements alters real values of the user."""
    for s, x, m, _v in masked_stores(fr.node, L):
        if (names is None or x in names) and covers_more_than_nan(m, L.alias_class(x)):
            res.find(cls, member, "the NaN substitution also overwrites values that are not NaN", f"{fr.module.relpath}:{s.lineno}",
                     "infinities (or other real values) are replaced together with the gaps: +/-inf no longer read back as written")


def rule_ndvmap(ctx) -> RuleResult:
    res = RuleResult(
        "C08.NDVMAP",
        "C08",
        "the array handed to create_dataset on the numeric branch of write_data_values and in update_concatenated_field has "
        "its NaNs replaced by the no-data source first; every reader path for float data maps `== FLOAT_NDV` back to NaN; "
        "format_values substitutes NaN by the class no-data value before storing",
        floor=5,
    )
    p = ctx.p
    shared = p.modules.get("geoh5py.shared")
    if shared is None:
        raise AnalysisError("anchor module geoh5py.shared not found")
    home = NdvHome(p, shared)
    wd = _frame(ctx, "H5Writer.write_data_values")
    # the numeric branch: the dataset(s) created without an explicit (string) dtype — the text branches name dtype= / shape=(1,)
    numeric = [(fr, c, d) for fr, c, d, typed in _dataset_sinks(ctx, wd) if not typed]
    if not numeric:
        raise AnalysisError("H5Writer.write_data_values: numeric create_dataset not found")
    for fr, c, data in numeric:
        L = Locals(fr.node)
        subst, inline = _nan_substitutions(L, fr, data)
        _only_the_gaps(res, "H5Writer", "write_data_values", fr, L, _array_names(L, data))
        vals = [L.expand(v) for _s, v in subst] + ([L.expand(inline)] if inline is not None else [])
        ok = bool(vals) and all(_is_ndv_source(home, _mods(fr), v) for v in vals)
        res.inst(f"write_data_values: <array>[isnan] = {[unparse(v) for v in vals]} before create_dataset", nontrivial=True, ok=ok)
        if not ok:
            res.find("H5Writer", "write_data_values", "raw NaN reaches create_dataset on the numeric branch", f"{fr.module.relpath}:{c.lineno}",
                     "NaN is stored as NaN instead of the format's no-data code: geoh5py still reads it back, Geoscience ANALYST does not")
        elif inline is None:
            # path fact: given that the entity has a no-data code (`<ndv source> is not None`) and the array has NaNs (`isnan(X).any()`),
            # every path to the dataset creation passes the substitution
            g = CFG(fr.node)
            names = _array_names(L, data)
            snodes = {n for s, _v in subst for n in g.nodes if n.ast is s}
            dnodes = _cfg_nodes_of(g, c)
            if not dnodes:
                raise AnalysisError("H5Writer.write_data_values: numeric create_dataset not on the control-flow graph")
            seen = _reach_assuming(g, lambda t: _assumed(home, _mods(fr), L, names, t), avoid=snodes)
            if any(n in seen for n in dnodes):
                res.find("H5Writer", "write_data_values", "NaN substitution can be skipped on the numeric branch", f"{fr.module.relpath}:{subst[0][0].lineno}",
                         "the substitution is skipped for some numeric data")
    uc = _frame(ctx, "H5Writer.update_concatenated_field")
    # the array that reaches the dataset (whatever it is called, wherever the conversion lives); every local if the creation is out of sight
    sinks = [(fr, d) for fr, _c, d, typed in _dataset_sinks(ctx, uc) if not typed]
    subs = []
    for fr, d in sinks or [(uc, None)]:
        L = Locals(fr.node)
        subst, inline = _nan_substitutions(L, fr, d)
        _only_the_gaps(res, "H5Writer", "update_concatenated_field", fr, L, _array_names(L, d) if d is not None else None)
        subs += [(fr, L.expand(v)) for _s, v in subst] + ([(fr, L.expand(inline))] if inline is not None else [])
    ok = bool(subs) and all(home.which(_mods(fr), s) == "FLOAT_NDV" for fr, s in subs)
    res.inst(f"update_concatenated_field: values[isnan] = {[unparse(s) for _f, s in subs]}", nontrivial=True, ok=ok)
    if not ok:
        res.find("H5Writer", "update_concatenated_field", "float NaN not replaced by FLOAT_NDV", uc.where, "concatenated float data store raw NaN")
    for spec in ("H5Reader.fetch_values", "H5Reader.fetch_concatenated_values"):
        fn = _frame(ctx, spec)
        found = False
        for fr in _with_private_callees(ctx, fn):
            L = Locals(fr.node)
            for _s, x, m, v in masked_stores(fr.node, L):
                other = eq_other_side(m, L.alias_class(x))
                if other is not None and home.which(_mods(fr), other) == "FLOAT_NDV" and is_nan(L.expand(v)):
                    found = True
        res.inst(f"{spec}: <array>[<array> == FLOAT_NDV] = np.nan", nontrivial=True, ok=found)
        if not found:
            res.find("H5Reader", spec.split(".")[1], "FLOAT_NDV not mapped back to NaN", fn.where, "stored gaps come back as 1.17e-38 instead of NaN")
    fv = _frame(ctx, "NumericData.format_values")
    if len(fv.params) < 2:
        raise AnalysisError("NumericData.format_values: values parameter not found")
    subs = []
    for fr in _with_private_callees(ctx, fv):
        L = Locals(fr.node)
        names = L.alias_class(fv.params[1]) if fr is fv else None  # in a helper that stayed a call: whichever array it fills
        _only_the_gaps(res, "NumericData", "format_values", fr, L, names)
        subs += [(fr, L.expand(v)) for _s, x, m, v in masked_stores(fr.node, L) if (names is None or x in names) and is_isnan_of(m, L.alias_class(x))]
    ok = bool(subs) and all(_is_self_attr(fr, s, "nan_value") for fr, s in subs)
    res.inst(f"NumericData.format_values: values[isnan] = {[unparse(s) for _f, s in subs]}", ok=ok)
    if not ok:
        res.find("NumericData", "format_values", "NaN not replaced by self.nan_value", fv.where, "integer / referenced data keep NaN, which the int32 cast turns into an arbitrary number")
    return res


def _code_units(p):
    """Every function of the package in scope — and, per module, one pseudo function holding the statements that run at import time
    (module level and class bodies): a constant computed once at module level is a site like any other."""
    from ..model import FuncInfo

    yield from p.all_functions()
    for mod in p.modules.values():
        if not mod.in_scope:
            continue
        body = []
        for st in mod.tree.body:
            if isinstance(st, ast.ClassDef):
                body += [s for s in st.body if not isinstance(s, (ast.FunctionDef, ast.AsyncFunctionDef, ast.ClassDef))]
            elif not isinstance(st, (ast.FunctionDef, ast.AsyncFunctionDef)):
                body.append(st)
        if body:
            node = ast.FunctionDef(name="<module>", args=ast.arguments(posonlyargs=[], args=[], kwonlyargs=[], kw_defaults=[], defaults=[]), body=body,
                                   decorator_list=[], lineno=1, col_offset=0)
            yield FuncInfo(name="<module>", module=mod, node=node, cls=None, kind="function")


def _codec_of(p, fn, L, expr):
    """The codec a call names: a string literal, or a name bound once (local, module or class level) to one.  None: not decidable here."""
    e = L.expand(expr)
    if isinstance(e, ast.Constant):
        return e.value if isinstance(e.value, str) else None
    r = None
    if isinstance(e, ast.Name):
        r = p.resolve_name(fn.module, e.id)
    elif isinstance(e, ast.Attribute) and isinstance(e.value, ast.Name):
        if fn.cls is not None and e.value.id in ("self", "cls", fn.self_name):
            for c in fn.cls.mro:
                if not isinstance(c, str) and e.attr in c.class_assigns:
                    v = c.class_assigns[e.attr][0]
                    return v.value if isinstance(v, ast.Constant) and isinstance(v.value, str) else None
        else:
            r = p.resolve_expr(fn.module, e)
    if r and r[0] == "assign" and isinstance(r[1][1], ast.Constant) and isinstance(r[1][1].value, str):
        return r[1][1].value
    return None


_STRING_SURGERY = {"strip", "rstrip", "lstrip", "replace", "lower", "upper", "casefold", "title", "capitalize", "swapcase", "split", "rsplit", "splitlines",
                   "partition", "rpartition", "removeprefix", "removesuffix", "expandtabs", "translate", "zfill", "ljust", "rjust", "center"}


def _parent_map(node) -> dict:
    return {id(ch): par for par in ast.walk(node) for ch in ast.iter_child_nodes(par)}


def _surgery_on(expr):
    """name of the lossy string operation `expr` is the result of (a method of the set above, or a slice), else None"""
    if isinstance(expr, ast.Call) and isinstance(expr.func, ast.Attribute) and expr.func.attr in _STRING_SURGERY:
        return expr.func.attr
    if isinstance(expr, ast.Subscript) and isinstance(expr.slice, ast.Slice):
        return "slice"
    return None


def _surgery_after(fn, L, c, pm) -> list:
    """lossy string operations applied to the result of call `c`: directly (`c(..).rstrip()`), or through the local it is bound to"""
    par = pm.get(id(c))
    ops = []
    if isinstance(par, ast.Attribute) and par.value is c and par.attr in _STRING_SURGERY and isinstance(pm.get(id(par)), ast.Call):
        ops.append(par.attr)
    if isinstance(par, ast.Subscript) and par.value is c and isinstance(par.slice, ast.Slice):
        ops.append("slice")
    if isinstance(par, (ast.Assign, ast.AnnAssign, ast.NamedExpr)):
        tg = par.targets[0] if isinstance(par, ast.Assign) and len(par.targets) == 1 else getattr(par, "target", None)
        if isinstance(tg, ast.Name):
            same = L.alias_class(tg.id)
            for x in ast.walk(fn.node):
                op = _surgery_on(x)
                if op:
                    recv = x.func.value if isinstance(x, ast.Call) else x.value
                    if isinstance(recv, ast.Name) and recv.id in same:
                        ops.append(op)
    return sorted(set(ops))


def _inexact(p, fn, L, c, args, parents) -> list:
    """Ways in which an encode / decode site is not the exact inverse of its counterpart: (construct, message) pairs."""
    out = []
    kind = c.func.attr
    # 1. error handler other than strict
    err = next((k.value for k in c.keywords if k.arg == "errors"), args[1] if len(args) > 1 else None)
    if err is not None:
        e = _codec_of(p, fn, L, err)
        if e is not None and e != "strict":
            out.append((f"errors={e!r}", "characters the codec cannot handle are dropped or replaced instead of raising: the text read back differs from the text written"))
    pm = parents[1]
    if kind == "decode":
        for op in _surgery_after(fn, L, c, pm):
            out.append((f"decoded text passed through {op}", "the string handed back is not what the stored bytes decode to: characters that are content (trailing blanks, "
                        "case, separators) are lost on every read"))
    else:
        # 3. what is encoded is the result of string surgery
        recv = args[0] if unparse(c.func.value) in ("np.char", "numpy.char") and args else c.func.value
        op = _surgery_on(L.expand(recv)) if recv is not None else None
        if op:
            out.append((f"text passed through {op} before it is encoded", "the bytes stored are not the encoding of the text that was given"))
    return out


def rule_codec(ctx) -> RuleResult:
    # floor: sites, not spellings — ten identical `x.encode()` calls folded into one helper are one site; both directions must be in sight
    res = RuleResult("C08.CODEC", "C08", "every encode / decode site names the same codec (utf-8, explicitly or by default) and is the exact inverse of its "
                     "counterpart: strict error handling, no string surgery (strip, replace, case, slicing ...) on the decoded text or ahead of the encoding", floor=5)
    p = ctx.p
    kinds_seen = set()
    for fn in _code_units(p):
        L = None
        pmap = None
        for c in ast.walk(fn.node):
            if not (isinstance(c, ast.Call) and isinstance(c.func, ast.Attribute) and c.func.attr in ("encode", "decode")):
                continue
            L = L or Locals(fn.node)
            kinds_seen.add(c.func.attr)
            base = unparse(c.func.value)
            args = list(c.args)
            if base in ("np.char", "numpy.char"):
                args = args[1:]
            codec = None
            if args:
                codec = _codec_of(p, fn, L, args[0])
            for k in c.keywords:
                if k.arg == "encoding":
                    codec = _codec_of(p, fn, L, k.value) or codec
            norm = (codec or "utf-8").lower().replace("_", "-")
            ok = norm in ("utf-8", "utf8")
            # nothing but the codec between the text and the bytes: no error handler that drops / replaces characters, no string surgery on
            # what was decoded (or on what is about to be encoded)
            pmap = pmap or (fn.node, _parent_map(fn.node))
            extra = _inexact(p, fn, L, c, args, pmap)
            res.inst(f"{fn.qualname}:{c.lineno} {unparse(c.func)[:30]} codec={codec or 'default'}", ok=ok and not extra)
            owner, member = (fn.cls.name if fn.cls else fn.module.short), (fn.prop or fn.name)
            if not ok:
                res.find(owner, member, f"{c.func.attr} with codec {codec!r}", f"{fn.module.relpath}:{c.lineno}",
                         "text written with one codec is read with another: non-ASCII strings change or raise")
            for construct, msg in extra:
                res.find(owner, member, f"{c.func.attr}: {construct}", f"{fn.module.relpath}:{c.lineno}", msg)
    if kinds_seen != {"encode", "decode"}:
        raise AnalysisError(f"C08.CODEC: only {sorted(kinds_seen)} sites found (the matcher lost the encode or the decode side)")
    # the same for what the package's own decoding helpers hand back (functions that do nothing but decode: one decode site, no other call)
    helpers = {f.name for f in p.all_functions() if f.cls is None and sum(1 for x in ast.walk(f.node) if isinstance(x, ast.Call) and call_name(x) == "decode") == 1
               and all(call_name(x) in ("decode", "isinstance") for x in ast.walk(f.node) if isinstance(x, ast.Call))}
    for fn in _code_units(p):
        if fn.name in helpers:
            continue
        L = pmap = None
        for c in ast.walk(fn.node):
            if isinstance(c, ast.Call) and isinstance(c.func, ast.Name) and c.func.id in helpers:
                r = p.resolve_name(fn.module, c.func.id)
                if not (r and r[0] == "func" and r[1].name in helpers):
                    continue
                L = L or Locals(fn.node)
                pmap = pmap or _parent_map(fn.node)
                for op in _surgery_after(fn, L, c, pmap):
                    res.find(fn.cls.name if fn.cls else fn.module.short, fn.prop or fn.name, f"{c.func.id}: decoded text passed through {op}", f"{fn.module.relpath}:{c.lineno}",
                             "the string handed back is not what the stored bytes decode to: characters that are content are lost on every read")
    return res


_FRACTION = ("modf", "% 1", "is_integer", "np.floor", "np.round")
_RANGE32 = ("iinfo", "2147483647", "INTEGER_NDV", "2 ** 31", "2**31")


def _zero_one_collection(test) -> bool:
    """The condition mentions the literal collection {0, 1} (set, list or tuple, any order)."""
    for x in ast.walk(test):
        if isinstance(x, (ast.Set, ast.List, ast.Tuple)) and len(x.elts) == 2 and all(isinstance(e, ast.Constant) for e in x.elts) \
                and sorted(int(e.value) if isinstance(e.value, (bool, int)) else -1 for e in x.elts) == [0, 1]:
            return True
    return False


def _casts(fn_node, L):
    """(call, text of the target dtype) of every cast of an array: X.astype(T) / X.astype(dtype=T) / np.asarray(X, dtype=T) / np.array(X, dtype=T)."""
    for c in ast.walk(fn_node):
        if not isinstance(c, ast.Call):
            continue
        nm = call_name(c)
        kw = next((k.value for k in c.keywords if k.arg == "dtype"), None)
        if nm == "astype" and isinstance(c.func, ast.Attribute):
            t = c.args[0] if c.args else kw
        elif nm in ("asarray", "array") and kw is not None:
            t = kw
        else:
            continue
        yield c, (unparse(L.expand(t)) if t is not None else "")


def _deciding_guards(g, cast_nodes) -> list:
    """Conditions that decide between raising and casting: tests with one branch from which an exception is raised and no cast can be
    reached any more, while the other branch still reaches a cast.  (Guard clause, nested ifs, if / else and the positive early return
    `if ok: return cast` / `raise` all give the same answer.)"""
    out = []
    raises = [n for n in g.nodes if n.kind == "raise"]
    for t in g.nodes:
        if t.kind != "test":
            continue
        side = {}
        for lab in ("true", "false"):
            side[lab] = reach(g, [m for m, l in t.succ if l == lab])
        for lab, other in (("true", "false"), ("false", "true")):
            if any(r in side[lab] for r in raises) and not any(c in side[lab] for c in cast_nodes) and any(c in side[other] for c in cast_nodes):
                out.append(t)
                break
    return out


def _iter_base(it):
    """the dictionary a loop runs over: `d`, `d.items()`, `d.keys()`, `list(d.items())`, `sorted(d)`, `d.copy().items()` -> d"""
    for _ in range(4):
        if isinstance(it, ast.Call) and isinstance(it.func, ast.Attribute) and it.func.attr in ("items", "keys", "copy") and not it.args:
            it = it.func.value
        elif isinstance(it, ast.Call) and getattr(it.func, "id", None) in ("list", "tuple", "sorted", "iter", "dict") and len(it.args) == 1:
            it = it.args[0]
        else:
            break
    return it


def rule_narrow(ctx) -> RuleResult:
    res = RuleResult(
        "C08.NARROW",
        "C08",
        "every lossy cast applied to user values in a format_type is dominated by a guard that raises on the class of values "
        "it would alter: astype(float64) <- numeric-dtype test; astype(int32) <- fractional-part test and 32-bit range test; "
        "astype(bool) <- membership in {0, 1}",
        floor=3,
    )
    p = ctx.p
    nd = p.cls("NumericData")
    from ..model import FuncInfo

    seen = set()
    for K in p.subclasses(nd):
        m = K.lookup("format_type")
        fn = m[2] if m and m[1] == "method" else None
        if fn is None:
            continue
        v = ctx.view(fn)
        L = Locals(v.node)
        g = CFG(v.node)
        as_k = FuncInfo(name=fn.name, module=fn.module, node=v.node, cls=K, kind=fn.kind)  # the method as class K runs it (template method)
        dom = None
        # hooks: `self.h(..)` calls that stayed calls because subclasses override h — for class K they run K's own h
        hooks = []
        for n in g.nodes:
            if n.kind != "stmt":
                continue
            for hc in ast.walk(n.ast):
                if isinstance(hc, ast.Call) and isinstance(hc.func, ast.Attribute) and isinstance(hc.func.value, ast.Name) and hc.func.value.id == (fn.self_name or "self"):
                    hm = K.lookup(hc.func.attr)
                    if hm and hm[1] == "method" and hm[2].node is not fn.node:
                        hooks.append((n, hm[2]))
        key = (id(fn.node), tuple(sorted({id(h.node) for _n, h in hooks})),
               tuple(unparse(_defs_in(p, as_k, ast.parse(t, mode="eval").body)) if t else "" for _c, t in _casts(v.node, L)))
        specialised = bool(hooks) or any(isinstance(x, ast.Attribute) and isinstance(x.value, ast.Name) and x.value.id == (fn.self_name or "self")
                                         for c_, _t in _casts(v.node, L) for a_ in (list(c_.args) + [k.value for k in c_.keywords]) for x in ast.walk(a_))
        if key in seen or (specialised and p.is_abstract(K)):
            continue
        seen.add(key)
        owner = K.name if specialised else fn.cls.name
        for c, tgt in _casts(v.node, L):
            if specialised and tgt:
                tgt = unparse(_defs_in(p, as_k, ast.parse(tgt, mode="eval").body))  # `self.stored_dtype` -> what class K binds it to
            cnodes = _cfg_nodes_of(g, c)
            tests = [_literals_in(p, fn.module, v.node, m, any_expr=True) for t in _deciding_guards(g, cnodes) for m in _test_meanings(ctx, v, L, t.ast)]
            for hn, hfn in hooks:
                dom = dom or dominators(g)
                if all(cn in dom and hn in dom[cn] for cn in cnodes):  # the hook runs on every path to the cast: its raising guards guard the cast
                    hv = ctx.view(hfn)
                    tests += [t for ts in _raise_guards(ctx, hv) for t in ts]
            gtxt = " ; ".join(unparse(t) for t in tests)
            need = []
            if "float" in tgt:
                need = [("numeric dtype", ("issubdtype", "np.number", "dtype.kind"), None)]
            elif "int32" in tgt or tgt in ("int", "'int32'"):
                need = [("fractional part", _FRACTION, None), ("32-bit range", _RANGE32, None)]
            elif "bool" in tgt:
                need = [("membership in {0, 1}", ("{0, 1}", "isin", "[0, 1]"), _zero_one_collection)]
            elif "uint32" in tgt:
                need = [("fractional part", ("modf", "% 1"), None), ("unsigned 32-bit range", ("iinfo", "4294967295", "< 0"), None)]
            for label, toks, pred in need:
                ok = any(t in gtxt for t in toks) or (pred is not None and any(pred(t) for t in tests))
                res.inst(f"{K.name}.format_type: astype({tgt}) guarded against {label}: {ok} (guards: {gtxt[:80]})", nontrivial=True, ok=ok)
                if not ok:
                    res.find(owner, "format_type", f"astype({tgt}) without a {label} guard", f"{fn.module.relpath}:{c.lineno}",
                             f"values outside what {tgt} represents ({label}) are silently altered by the cast instead of being rejected")
        # the stored type is fixed: no normal path hands the values back without one of the casts (the no-data code, the range tests and
        # the reader's dtype list all assume it)
        casts = list(_casts(v.node, L))
        if casts:
            cast_nodes = {n for c, _t in casts for n in _cfg_nodes_of(g, c)}
            seen_nodes = _reach_assuming(g, lambda t: None, avoid=cast_nodes)
            loose = [n for n in seen_nodes if n.kind == "return" and n.ast is not None and not (isinstance(n.ast, ast.Constant) and n.ast.value is None)]
            fall = g.exit in seen_nodes and any(m in seen_nodes and m.kind not in ("return", "withexit") for m, _l in g.exit.pred)
            ok = not loose and not fall
            res.inst(f"{K.name}.format_type: every return passes a cast ({', '.join(t for _c, t in casts)})", nontrivial=True, ok=ok)
            if not ok:
                at = loose[0].lineno if loose else fn.node.lineno
                res.find(owner, "format_type", "a path returns the values without the cast", f"{fn.module.relpath}:{at}",
                         "the in-memory dtype follows the caller's array instead of the stored type: the no-data code is substituted (and compared on "
                         "read) in a dtype that cannot hold it, and the returned array is the caller's own")
    # the keys of a value map are stored in an unsigned 32-bit field: the validation of the keys must reject what does not fit
    wv = p.cls("H5Writer").methods.get("write_value_map")
    rvm = p.cls("ReferenceValueMap")
    if wv is not None and "map" in rvm.props and rvm.props["map"].setter is not None:
        wvv = ctx.view(wv)
        WL = Locals(wvv.node)
        narrow_keys = None
        dtypes = []
        for c in ast.walk(wvv.node):
            if isinstance(c, ast.Call) and call_name(c) in ("array", "asarray", "fromiter", "astype", "dtype"):
                dt = next((k.value for k in c.keywords if k.arg == "dtype"), None)
                # the record dtype wherever it is written: in the call, a local, a module- or class-level table (even one that is not a pure literal)
                d = _defs_in(p, wvv, WL.expand(dt)) if dt is not None else None
                if d is not None:
                    dtypes.append(d)
                if d is not None and any((isinstance(x, ast.Constant) and isinstance(x.value, str) and x.value.lstrip("<>=|") in ("u4", "uint32"))
                                         or (isinstance(x, ast.Attribute) and x.attr == "uint32") for x in ast.walk(d)):
                    narrow_keys = c
        if not any(isinstance(x, ast.Constant) and isinstance(x.value, str) for d in dtypes for x in ast.walk(d)):
            raise AnalysisError("H5Writer.write_value_map: record dtype of the value map (field names / formats) not found")
        if narrow_keys is not None:
            st = rvm.props["map"].setter
            frames = [ctx.view(st)] + [ctx.view(m) for nm, m in rvm.methods.items() if nm in ("_validate_key_value", "__setitem__")]
            tests = [_literals_in(p, fr.module, fr.node, t, any_expr=True) for fr in frames for tests_ in _raise_guards(ctx, fr) for t in tests_]
            gtxt = " ; ".join(unparse(t) for t in tests)
            ok = any(tok in gtxt for tok in ("iinfo", "4294967295", "2 ** 32", "2**32", "0xffffffff", "0xFFFFFFFF", "uint32"))
            res.inst(f"ReferenceValueMap: keys stored as unsigned 32-bit integers are range-checked: {ok}", nontrivial=True, ok=ok)
            if not ok:
                res.find("ReferenceValueMap", "map", "value-map keys stored as <u4 without an unsigned 32-bit range guard", st.where,
                         "a key above 4294967295 passes the validation and wraps when the value map is written (2**32 + 2 is stored as key 2): "
                         "the label is read back under another key")
    # the keys of a value map reach the validation as given: a conversion that can alter them (int(), float(), round(), a NumPy scalar type, ...)
    # ahead of the guard that refuses non-integers makes the guard see only what the conversion produced
    if "map" in rvm.props and rvm.props["map"].setter is not None:
        st = rvm.props["map"].setter
        raws = [st] + [m for nm, m in rvm.methods.items() if nm == "__setitem__"]
        typed_somewhere = False
        for raw in raws:
            fr = ctx.view(raw)
            FL = Locals(fr.node)
            g = CFG(fr.node)
            dom = dominators(g)
            raises = [n for n in g.nodes if n.kind == "raise" and n in dom]

            def type_guard(e):
                return any(isinstance(x, ast.Call) and getattr(x.func, "id", None) == "isinstance" and len(x.args) == 2
                           and any(_tname(t) in ("int", "integer", "Integral", "signedinteger", "unsignedinteger") for t in ast.walk(x.args[1])) for x in ast.walk(e))

            guards = {t for r in raises for t in dom[r] if t.kind == "test" and any(type_guard(m) for m in _test_meanings(ctx, fr, FL, t.ast))}
            # a validation that stayed a call (overridable / not expandable): the call node stands for its guard
            for n in g.nodes:
                if n.kind == "stmt" and n not in guards:
                    for hc in ast.walk(n.ast):
                        if isinstance(hc, ast.Call) and isinstance(hc.func, ast.Attribute) and isinstance(hc.func.value, ast.Name) and hc.func.value.id in ("self", "cls", fr.self_name):
                            hm = rvm.lookup(hc.func.attr)
                            if hm and hm[1] == "method" and hm[2].node is not raw.node and any(type_guard(t) for ts in _raise_guards(ctx, ctx.view(hm[2])) for t in ts):
                                guards.add(n)
            typed_somewhere = typed_somewhere or bool(guards)
            # key variables: the parameter holding a single key (__setitem__), the targets of loops / comprehensions over the given dictionary
            params = fr.params[1:] if fr.self_name else fr.params
            keyvars = set()
            if raw.name == "__setitem__" and params:
                keyvars |= FL.alias_class(params[0])
            given = FL.alias_class(params[0]) if raw is st and params else set()
            for lp in ast.walk(fr.node):
                if isinstance(lp, (ast.For, ast.comprehension)):
                    base = _iter_base(lp.iter)
                    if isinstance(base, ast.Name) and base.id in given:
                        tg = lp.target.elts[0] if isinstance(lp.target, (ast.Tuple, ast.List)) and lp.target.elts else lp.target
                        if isinstance(tg, ast.Name):
                            keyvars.add(tg.id)
            # a loop over the given dictionary that validates every key covers whatever comes after the loop (inside it, the guard itself must come first)
            guard_ids = {id(x) for t in guards if t.ast is not None and not isinstance(t.ast, list) for x in ast.walk(t.ast)}
            validating_loops = []
            for lp in ast.walk(fr.node):
                if isinstance(lp, ast.For) and any(id(x) in guard_ids for x in ast.walk(lp)):
                    base = _iter_base(lp.iter)
                    if isinstance(base, ast.Name) and base.id in given:
                        validating_loops.append((lp, {id(x) for x in ast.walk(lp)}, {h for h in g.nodes if h.stmt is lp and h.kind in ("foriter", "fornext")}))
            for n in g.nodes:
                if n.ast is None or isinstance(n.ast, list) or n.kind in ("with", "except", "def"):
                    continue
                for cv in ast.walk(n.ast):
                    if not (isinstance(cv, ast.Call) and cv.args and any(isinstance(x, ast.Name) and x.id in keyvars for x in ast.walk(cv.args[0]))):
                        continue
                    if n in dom and any(id(cv) not in inside and (heads & dom[n]) for _lp, inside, heads in validating_loops):
                        continue
                    nm = call_name(cv)
                    lossy = (isinstance(cv.func, ast.Name) and nm in ("int", "float", "round", "bool", "abs")) or nm in ("floor", "ceil", "trunc", "rint") or \
                            (isinstance(cv.func, ast.Attribute) and nm in ("int8", "int16", "int32", "int64", "uint8", "uint16", "uint32", "uint64", "intp", "int_", "float32", "float64", "astype"))
                    if lossy and n in dom and not (dom[n] & guards):
                        res.find("ReferenceValueMap", raw.prop or raw.name, "value-map keys are converted before the key-type guard sees them", f"{fr.module.relpath}:{cv.lineno}",
                                 "a key that is not an integer (1.9, '7', True) is truncated or parsed by the conversion and then passes the validation that was "
                                 "there to refuse it: the label is stored under another key")
        res.inst(f"ReferenceValueMap: keys are type-checked as given (guard found: {typed_somewhere})", nontrivial=True, ok=typed_somewhere)
        if not typed_somewhere:
            res.find("ReferenceValueMap", "map", "value-map keys are not type-checked", st.where, "keys that are not integers are accepted and altered when the map is written as <u4")
    return res


_STRINGIFIERS = ("str", "repr", "ascii", "format")


def _stringifies(e) -> bool:
    return isinstance(e, ast.JoinedStr) or (isinstance(e, ast.Call) and getattr(e.func, "id", None) in _STRINGIFIERS)


def _total_stringifier(p, fn, L, expr) -> bool:
    """The `default=` handler turns whatever it is given into a string and never refuses: `str` / `repr`, a lambda or a package function
    that only returns `str(..)` / an f-string and has no `raise`.  (A handler that converts some types and raises for the rest, or hands
    the object back, still rejects what JSON cannot represent.)"""
    e = L.expand(expr)
    if isinstance(e, ast.Name) and e.id in _STRINGIFIERS and p.resolve_name(fn.module, e.id) is None:
        return True
    if isinstance(e, ast.Lambda):
        return _stringifies(e.body)
    f = None
    if isinstance(e, ast.Name):
        r = p.resolve_name(fn.module, e.id)
        f = r[1] if r and r[0] == "func" else None
    elif isinstance(e, ast.Attribute):
        r = p.resolve_expr(fn.module, e)
        f = r[1] if r and r[0] == "func" else None
        if f is None and isinstance(e.value, ast.Name) and fn.cls is not None and e.value.id in ("self", "cls", fn.self_name):
            m = fn.cls.lookup(e.attr)
            f = m[2] if m and m[1] == "method" else None
    if f is not None:
        rets = [r for r in ast.walk(f.node) if isinstance(r, ast.Return)]
        return bool(rets) and all(r.value is not None and _stringifies(r.value) for r in rets) and not any(isinstance(x, ast.Raise) for x in ast.walk(f.node))
    return False


def rule_json(ctx) -> RuleResult:
    res = RuleResult(
        "C08.JSON",
        "C08",
        "every json.dumps / json.dump of user values is strict: no `default=` handler that turns any unsupported object into a string, no "
        "`skipkeys=True` — a value JSON cannot represent is rejected (TypeError), not silently stored as something else",
        floor=2,
    )
    p = ctx.p
    for fn in _code_units(p):
        L = None
        for c in ast.walk(fn.node):
            if not (isinstance(c, ast.Call) and call_name(c) in ("dumps", "dump")):
                continue
            base = c.func.value if isinstance(c.func, ast.Attribute) else None
            r = p.resolve_name(fn.module, base.id) if isinstance(base, ast.Name) else (p.resolve_name(fn.module, c.func.id) if isinstance(c.func, ast.Name) else None)
            if not (r and r[0] == "external" and r[1].split(".")[0] == "json"):
                continue
            L = L or Locals(fn.node)
            kws = {k.arg: k.value for k in c.keywords if k.arg}
            lossy = []
            if "default" in kws and _total_stringifier(p, fn, L, kws["default"]):
                lossy.append(("default= stringifies every unsupported value", "a value of an unsupported type (NumPy scalar or array, datetime, Path, set, ...) is stored as its str() "
                              "and read back as a string instead of being rejected"))
            sk = L.expand(kws["skipkeys"]) if "skipkeys" in kws else None
            if isinstance(sk, ast.Constant) and sk.value is True:
                lossy.append(("skipkeys=True drops entries", "entries whose key is not a basic type are dropped silently instead of being rejected"))
            res.inst(f"{fn.qualname}:{c.lineno} json.{call_name(c)} strict: {not lossy}", ok=not lossy)
            for construct, msg in lossy:
                res.find(fn.cls.name if fn.cls else fn.module.short, fn.prop or fn.name, f"json.{call_name(c)}: {construct}", f"{fn.module.relpath}:{c.lineno}", msg)
    return res


def _decoding_ref(ctx, fr, ref, _depth=0) -> bool:
    """The name / attribute denotes something that turns bytes into str: `.decode` / `np.char.decode` / `bytes.decode`, the library's
    `as_str_if_utf8_bytes`, or a package function that uses one of these — whether it is called or handed to `map(..)` / `np.vectorize(..)`."""
    nm = ref.attr if isinstance(ref, ast.Attribute) else getattr(ref, "id", None)
    if nm in ("decode", "as_str_if_utf8_bytes"):
        return True
    if _depth >= 2 or nm is None:
        return False
    f = None
    if isinstance(ref, ast.Name):
        r = ctx.p.resolve_name(fr.module, nm)
        f = r[1] if r and r[0] == "func" else None
    elif isinstance(ref, ast.Attribute) and isinstance(ref.value, ast.Name):
        owner = fr.cls if fr.cls is not None and ref.value.id in ("self", "cls", fr.self_name) else None
        if owner is None:
            r = ctx.p.resolve_name(fr.module, ref.value.id)
            owner = r[1] if r and r[0] == "class" else None
        m = owner.lookup(nm) if owner is not None else None
        f = m[2] if m and m[1] == "method" else None
    if f is None or f.node is fr.node:
        return False
    return any(isinstance(x, (ast.Name, ast.Attribute)) and _decoding_ref(ctx, f, x, _depth + 1) for x in ast.walk(f.node))


def rule_decode(ctx) -> RuleResult:
    res = RuleResult(
        "C08.DECODE",
        "C08",
        "text comes back from H5Reader.fetch_values as str whichever way the byte strings are stored: for a variable-length dataset (object "
        "array of bytes) and for a fixed-length one (NumPy S<n> array) alike, no path that is certainly taken returns the array without the "
        "bytes -> str decoding (tests on dtype / element type / emptiness are decided per kind; a path through an undecided test is not judged)",
        floor=2,
    )
    fn = ctx.view("H5Reader.fetch_values")
    L = Locals(fn.node)
    g = CFG(fn.node)
    returned = {x.id for r in ast.walk(fn.node) if isinstance(r, ast.Return) and r.value is not None for x in ast.walk(r.value) if isinstance(x, ast.Name)}
    names = set().union(*[L.alias_class(nm) for nm in returned]) if returned else set()
    decoders = {n for n in g.nodes for x in ([n.ast] if n.ast is not None and not isinstance(n.ast, list) and n.kind not in ("with", "except", "def") else [])
                for c in ast.walk(x) if isinstance(c, (ast.Name, ast.Attribute)) and isinstance(getattr(c, "ctx", None), ast.Load) and _decoding_ref(ctx, fn, c)}
    if not decoders:
        raise AnalysisError("H5Reader.fetch_values: no bytes -> str decoding found")
    for kind, label in (("o", "variable-length (object array of bytes)"), ("s", "fixed-length (S<n> array)")):
        seen = _reach_assuming(g, lambda t, kind=kind: _three(L, t, lambda e: text_kind_truth(e, names, kind)), avoid=decoders, definite=True)
        raw = [n for n in seen if n.kind == "return" and n.ast is not None and any(isinstance(x, ast.Name) and x.id in names for x in ast.walk(n.ast))]
        res.inst(f"fetch_values: {label} text is decoded on every path certainly taken", nontrivial=True, ok=not raw)
        if raw:
            res.find("H5Reader", "fetch_values", f"{label} byte strings are returned without decoding", f"{fn.module.relpath}:{min(n.lineno for n in raw)}",
                     "text stored as byte strings of this kind comes back as raw bytes (non-ASCII characters as UTF-8 byte sequences, a single entry as a "
                     "length-1 array) instead of the str that was written")
    return res


def rule_rewrite(ctx) -> RuleResult:
    res = RuleResult(
        "C08.REWRITE",
        "C08",
        "a writer method that stores new values under a dataset name replaces what the file holds: h5py's `require_dataset(name, .., data=)` "
        "hands back an existing dataset untouched (data= is ignored), so it only writes when, on every path, the old dataset of that name was "
        "deleted first",
        floor=1,
    )
    p = ctx.p
    W = p.cls("H5Writer")
    for raw in list(W.methods.values()) + list(W.module.functions.values()):
        if not any(isinstance(c, ast.Call) and call_name(c) in ("create_dataset", "require_dataset") for c in ast.walk(raw.node)):
            continue
        fr = _frame(ctx, raw)
        L = Locals(fr.node)
        req = [c for c in ast.walk(fr.node) if isinstance(c, ast.Call) and isinstance(c.func, ast.Attribute) and c.func.attr == "require_dataset"
               and any(k.arg == "data" for k in c.keywords) and (c.args or any(k.arg == "name" for k in c.keywords))]
        bad = []
        g = CFG(fr.node) if req else None
        for c in req:
            key = L.text(c.args[0] if c.args else next(k.value for k in c.keywords if k.arg == "name"))
            dels = {n for n in g.nodes if n.kind == "stmt" and (
                (isinstance(n.ast, ast.Delete) and any(isinstance(t, ast.Subscript) and L.text(t.slice) == key for t in n.ast.targets))
                or (isinstance(n.ast, ast.Expr) and isinstance(n.ast.value, ast.Call) and call_name(n.ast.value) == "pop" and n.ast.value.args and L.text(n.ast.value.args[0]) == key))}

            def exists(t, key=key):  # the dataset of that name is on file
                if isinstance(t, ast.Compare) and len(t.ops) == 1:
                    if isinstance(t.ops[0], (ast.In, ast.NotIn)) and L.text(t.left) == key:
                        return isinstance(t.ops[0], ast.In)
                    if isinstance(t.ops[0], (ast.Is, ast.IsNot)) and isinstance(t.comparators[0], ast.Constant) and t.comparators[0].value is None:
                        src = L.expand(t.left)
                        if isinstance(src, ast.Call) and call_name(src) == "get" and src.args and L.text(src.args[0]) == key:
                            return isinstance(t.ops[0], ast.IsNot)
                return None

            seen = _reach_assuming(g, lambda t: _three(L, t, exists), avoid=dels)
            if any(n in seen for n in _cfg_nodes_of(g, c)):
                bad.append(c)
        res.inst(f"{raw.qualname}: {len(req)} require_dataset(data=) call(s), each behind the deletion of the old dataset", nontrivial=bool(req), ok=not bad)
        for c in bad:
            res.find("H5Writer", raw.name, "require_dataset(data=) reached with the old dataset still in place", f"{fr.module.relpath}:{c.lineno}",
                     "when a dataset of that name (same shape and dtype) exists, require_dataset returns it as it is and ignores data=: the new values "
                     "never reach the file and the old ones are read back")
    return res


RULES = [rule_ndv, rule_ndvmap, rule_codec, rule_narrow, rule_rewrite, rule_json, rule_decode]
