"""C08 — values survive storage; gaps use the format's no-data codes (constant / codec / guard agreement)."""

from __future__ import annotations

import ast
import struct

from ..model import AnalysisError, chain, unparse
from ..report import RuleResult
from ..textile import FormatDoc


def f32(x: float) -> float:
    return struct.unpack("f", struct.pack("f", float(x)))[0]


def _const(p, mod, name):
    r = p.resolve_name(mod, name)
    if r and r[0] == "assign":
        try:
            return ast.literal_eval(r[1][1]), r[1][0]
        except Exception:
            return None, None
    return None, None


def _single_return(K, name):
    m = K.lookup(name)
    if not m or m[1] != "prop" or m[2].getter is None:
        return None, None
    rets = [r for r in ast.walk(m[2].getter.node) if isinstance(r, ast.Return)]
    if len(rets) != 1:
        return None, m[2].getter
    return rets[0].value, m[2].getter


def rule_ndv(ctx) -> RuleResult:
    res = RuleResult(
        "C08.NDV",
        "C08",
        "the float / integer no-data constants used by the writer, both reader paths and the data classes resolve to the "
        "same two module constants whose values equal the format document's (as float32 / int32); booleans use 0; the "
        "reference key 0 is tied to 'Unknown' on both sides",
        floor=10,
    )
    p = ctx.p
    doc = FormatDoc(p.repo, p.overlay).ndv()
    shared = p.modules.get("geoh5py.shared")
    if shared is None:
        raise AnalysisError("anchor module geoh5py.shared not found")
    fl, _ = _const(p, shared, "FLOAT_NDV")
    it, _ = _const(p, shared, "INTEGER_NDV")
    ok = fl is not None and f32(fl) == f32(float(doc["Float"]))
    res.inst(f"FLOAT_NDV {fl} == documented {doc['Float']} as float32", ok=ok)
    if not ok:
        res.find("shared", "FLOAT_NDV", f"FLOAT_NDV = {fl} differs from the documented {doc['Float']}", shared.relpath + ":1",
                 "NaN is written as a value Geoscience ANALYST does not treat as no-data")
    ok = it is not None and int(it) == int(doc["Integer"])
    res.inst(f"INTEGER_NDV {it} == documented {doc['Integer']}", ok=ok)
    if not ok:
        res.find("shared", "INTEGER_NDV", f"INTEGER_NDV = {it} differs from the documented {doc['Integer']}", shared.relpath + ":1",
                 "integer gaps are written with a code the format does not define")
    for cname, const in (("FloatData", "FLOAT_NDV"), ("IntegerData", "INTEGER_NDV")):
        K = p.cls(cname)
        v, g = _single_return(K, "ndv")
        r = p.resolve_name(g.module, unparse(v)) if v is not None and isinstance(v, ast.Name) else None
        ok = isinstance(v, ast.Name) and v.id == const and r and r[0] == "assign" and r[1][0] is shared
        res.inst(f"{cname}.ndv returns shared.{const}", ok=bool(ok))
        if not ok:
            res.find(cname, "ndv", f"ndv returns {unparse(v)}", g.where if g else K.where, f"{cname} writes gaps with a code other than shared.{const}")
    K = p.cls("IntegerData")
    v, g = _single_return(K, "nan_value")
    ok = v is not None and unparse(v) in ("self.ndv", "INTEGER_NDV")
    res.inst(f"IntegerData.nan_value -> {unparse(v)}", ok=ok)
    if not ok:
        res.find("IntegerData", "nan_value", f"nan_value returns {unparse(v)}", g.where if g else K.where, "padding uses a different code than the stored no-data value")
    v, g = _single_return(p.cls("FloatData"), "nan_value")
    ok = v is not None and unparse(v) in ("np.nan", "numpy.nan", "float('nan')")
    res.inst(f"FloatData.nan_value -> {unparse(v)}", ok=ok)
    if not ok:
        res.find("FloatData", "nan_value", f"nan_value returns {unparse(v)}", g.where if g else "", "float gaps are not NaN in memory")
    v, g = _single_return(p.cls("BooleanData"), "ndv")
    ok = isinstance(v, ast.Constant) and v.value == 0
    res.inst(f"BooleanData.ndv -> {unparse(v)}", ok=ok)
    if not ok:
        res.find("BooleanData", "ndv", f"ndv returns {unparse(v)}", g.where if g else "", "boolean gaps are not stored as 0")
    # reader / writer use the shared constant
    for spec in ("H5Reader.fetch_values", "H5Reader.fetch_concatenated_values", "H5Writer.update_concatenated_field"):
        fn = p.func(spec)
        names = {n.id for n in ast.walk(fn.node) if isinstance(n, ast.Name) and n.id.endswith("_NDV")}
        r = p.resolve_name(fn.module, "FLOAT_NDV")
        ok = names == {"FLOAT_NDV"} and r and r[0] == "assign" and r[1][0] is shared
        res.inst(f"{spec} uses shared.FLOAT_NDV ({sorted(names)})", ok=bool(ok))
        if not ok:
            res.find(spec.split(".")[0], spec.split(".")[1], f"no-data constant(s) {sorted(names)}", fn.where, "reader and writer disagree on the float no-data code")
    # the no-data value is never cast to a dtype taken from the user's array
    nd = p.cls("NumericData")
    seen = set()
    for K in p.subclasses(nd):
        for fn in list(K.methods.values()):
            if fn in seen:
                continue
            seen.add(fn)
            for c in ast.walk(fn.node):
                if not isinstance(c, ast.Call):
                    continue
                f = unparse(c.func)
                fill = None
                dt = next((k.value for k in c.keywords if k.arg == "dtype"), None)
                if f in ("np.full", "np.full_like") and len(c.args) >= 2:
                    fill = c.args[1]
                elif f in ("np.array", "np.asarray") and c.args:
                    fill = c.args[0]
                if fill is None or dt is None:
                    continue
                if any(isinstance(x, ast.Attribute) and x.attr in ("nan_value", "ndv") for x in ast.walk(fill)) and ".dtype" in unparse(dt):
                    res.inst(f"{fn.qualname}:{c.lineno} no-data value cast to {unparse(dt)}", ok=False)
                    res.find(fn.cls.name, fn.name, f"no-data value cast to the input's dtype: {unparse(c)[:60]}", f"{fn.module.relpath}:{c.lineno}",
                             "the no-data code is forced into the dtype of the user's array: for narrow dtypes (int8, int16, ...) it wraps to another "
                             "number (0) and gaps become indistinguishable from real values")
    # reference key 0 <-> "Unknown"
    rvm = p.cls("ReferenceValueMap")
    vk = rvm.methods.get("_validate_key_value")
    toks = {c.value for n in ast.walk(vk.node) if isinstance(n, ast.Compare) and "== 0" in unparse(n) or isinstance(n, ast.BoolOp) for c in ast.walk(n) if isinstance(c, ast.Constant) and isinstance(c.value, str)}
    st = rvm.props["map"].setter
    wr = {unparse(a.value) for a in ast.walk(st.node) if isinstance(a, ast.Assign) and unparse(a.targets[0]).endswith("[0]")}
    ok = "Unknown" in toks and wr == {"'Unknown'"}
    res.inst(f"ReferenceValueMap: key 0 validated against {sorted(toks)}, defaulted to {sorted(wr)}", ok=ok)
    if not ok:
        res.find("ReferenceValueMap", "map", f"key 0 label: validation {sorted(toks)} vs default {sorted(wr)}", st.where, "key 0 is not reserved for 'Unknown' consistently")
    return res


def _mask_assign(stmt, var, masks=("isnan",)):
    """`var[np.isnan(var)] = X` (returns X) or var = np.where(np.isnan(var), X, var) / nan_to_num."""
    if isinstance(stmt, ast.Assign) and len(stmt.targets) == 1:
        t = stmt.targets[0]
        if isinstance(t, ast.Subscript) and unparse(t.value) == var and any(m in unparse(t.slice) for m in masks) and var in unparse(t.slice):
            return stmt.value
        if isinstance(t, ast.Name) and t.id == var and isinstance(stmt.value, ast.Call):
            f = unparse(stmt.value.func)
            if f in ("np.where",) and len(stmt.value.args) == 3 and any(m in unparse(stmt.value.args[0]) for m in masks):
                return stmt.value.args[1]
            if f in ("np.nan_to_num",):
                for k in stmt.value.keywords:
                    if k.arg == "nan":
                        return k.value
    return None


def rule_ndvmap(ctx) -> RuleResult:
    res = RuleResult(
        "C08.NDVMAP",
        "C08",
        "the array handed to create_dataset on the numeric branch of write_data_values and in update_concatenated_field has "
        "its NaNs replaced by the no-data source first; every reader path for float data maps `== FLOAT_NDV` back to NaN; "
        "format_values substitutes NaN by the class no-data value before storing",
        floor=5,
    )
    p = ctx.p
    wd = p.func("H5Writer.write_data_values")
    # the numeric branch: the create_dataset whose data= is the deep-copied out_values
    cds = [c for c in ast.walk(wd.node) if isinstance(c, ast.Call) and isinstance(c.func, ast.Attribute) and c.func.attr == "create_dataset"]
    numeric = [c for c in cds if any(k.arg == "data" and isinstance(k.value, ast.Name) and k.value.id not in ("values",) for k in c.keywords)]
    if not numeric:
        raise AnalysisError("H5Writer.write_data_values: numeric create_dataset not found")
    for c in numeric:
        var = next(k.value.id for k in c.keywords if k.arg == "data")
        # innermost statement list that contains the create_dataset statement directly
        blk = None
        for n in ast.walk(wd.node):
            for b in (getattr(n, "body", None), getattr(n, "orelse", None)):
                if isinstance(b, list) and any(isinstance(s, ast.Expr) and s.value is c for s in b):
                    blk = b
        if blk is None:
            raise AnalysisError("H5Writer.write_data_values: block of the numeric create_dataset not found")
        idx = next(i for i, s in enumerate(blk) if isinstance(s, ast.Expr) and s.value is c)
        subst = None
        for s in blk[:idx]:
            for sub in ast.walk(s):
                v = _mask_assign(sub, var) if isinstance(sub, ast.stmt) else None
                if v is not None:
                    subst = (v, s)
        ok = subst is not None and "ndv" in unparse(subst[0]).lower()
        guard = unparse(subst[1].test) if subst and isinstance(subst[1], ast.If) else None
        res.inst(f"write_data_values: {var}[isnan] = {unparse(subst[0]) if subst else None} before create_dataset (under `{guard}`)", nontrivial=True, ok=ok)
        if not ok:
            res.find("H5Writer", "write_data_values", "raw NaN reaches create_dataset on the numeric branch", f"{wd.module.relpath}:{c.lineno}",
                     "NaN is stored as NaN instead of the format's no-data code: geoh5py still reads it back, Geoscience ANALYST does not")
        if guard is not None and "ndv" not in guard:
            res.find("H5Writer", "write_data_values", f"NaN substitution guarded by `{guard}`", f"{wd.module.relpath}:{subst[1].lineno}",
                     "the substitution is skipped for some numeric data")
    uc = p.func("H5Writer.update_concatenated_field")
    # whatever the local holding the channel's values is called: every `X[np.isnan(X)] = ...` / np.where form on a local of the function
    uc_locals = {t.id for a in ast.walk(uc.node) if isinstance(a, ast.Assign) for t in a.targets if isinstance(t, ast.Name)}
    subs = [_mask_assign(s, v) for s in ast.walk(uc.node) if isinstance(s, ast.stmt) for v in sorted(uc_locals)]
    subs = [s for s in subs if s is not None]
    ok = bool(subs) and all(unparse(s) == "FLOAT_NDV" for s in subs)
    res.inst(f"update_concatenated_field: values[isnan] = {[unparse(s) for s in subs]}", nontrivial=True, ok=ok)
    if not ok:
        res.find("H5Writer", "update_concatenated_field", "float NaN not replaced by FLOAT_NDV", uc.where, "concatenated float data store raw NaN")
    for spec in ("H5Reader.fetch_values", "H5Reader.fetch_concatenated_values"):
        fn = p.func(spec)
        found = False
        var = "<array>"
        for a in ast.walk(fn.node):
            if isinstance(a, ast.Assign) and isinstance(a.targets[0], ast.Subscript) and isinstance(a.targets[0].value, ast.Name) and unparse(a.value) in ("np.nan", "numpy.nan"):
                var = a.targets[0].value.id
                mask = a.targets[0].slice
                mtxt = unparse(mask)
                if isinstance(mask, ast.Name):
                    for d in ast.walk(fn.node):
                        if isinstance(d, ast.Assign) and unparse(d.targets[0]) == mask.id:
                            mtxt = unparse(d.value)
                if "== FLOAT_NDV" in mtxt and var in mtxt:
                    found = True
        res.inst(f"{spec}: <array>[<array> == FLOAT_NDV] = np.nan", nontrivial=True, ok=found)
        if not found:
            res.find("H5Reader", spec.split(".")[1], "FLOAT_NDV not mapped back to NaN", fn.where, "stored gaps come back as 1.17e-38 instead of NaN")
    fv = p.func("NumericData.format_values")
    subs = [_mask_assign(s, fv.params[1]) for s in ast.walk(fv.node) if isinstance(s, ast.stmt)]
    subs = [s for s in subs if s is not None]
    ok = bool(subs) and all(unparse(s) == "self.nan_value" for s in subs)
    res.inst(f"NumericData.format_values: values[isnan] = {[unparse(s) for s in subs]}", ok=ok)
    if not ok:
        res.find("NumericData", "format_values", "NaN not replaced by self.nan_value", fv.where, "integer / referenced data keep NaN, which the int32 cast turns into an arbitrary number")
    return res


def rule_codec(ctx) -> RuleResult:
    res = RuleResult("C08.CODEC", "C08", "every encode / decode site names the same codec (utf-8, explicitly or by default)", floor=10)
    p = ctx.p
    for fn in p.all_functions():
        for c in ast.walk(fn.node):
            if not (isinstance(c, ast.Call) and isinstance(c.func, ast.Attribute) and c.func.attr in ("encode", "decode")):
                continue
            base = unparse(c.func.value)
            args = list(c.args)
            if base in ("np.char", "numpy.char"):
                args = args[1:]
            codec = None
            if args and isinstance(args[0], ast.Constant) and isinstance(args[0].value, str):
                codec = args[0].value
            for k in c.keywords:
                if k.arg == "encoding" and isinstance(k.value, ast.Constant):
                    codec = k.value.value
            norm = (codec or "utf-8").lower().replace("_", "-")
            ok = norm in ("utf-8", "utf8")
            res.inst(f"{fn.qualname}:{c.lineno} {unparse(c.func)[:30]} codec={codec or 'default'}", ok=ok)
            if not ok:
                res.find(fn.cls.name if fn.cls else fn.module.short, fn.prop or fn.name, f"{c.func.attr} with codec {codec!r}", f"{fn.module.relpath}:{c.lineno}",
                         "text written with one codec is read with another: non-ASCII strings change or raise")
    return res


def rule_narrow(ctx) -> RuleResult:
    res = RuleResult(
        "C08.NARROW",
        "C08",
        "every lossy cast applied to user values in a format_type is dominated by a guard that raises on the class of values "
        "it would alter: astype(float64) <- numeric-dtype test; astype(int32) <- fractional-part test and 32-bit range test; "
        "astype(bool) <- membership in {0, 1}",
        floor=3,
    )
    p = ctx.p
    nd = p.cls("NumericData")
    seen = set()
    for K in p.subclasses(nd):
        fn = K.methods.get("format_type")
        if fn is None or fn in seen:
            continue
        seen.add(fn)
        casts = [c for c in ast.walk(fn.node) if isinstance(c, ast.Call) and isinstance(c.func, ast.Attribute) and c.func.attr == "astype"]
        guards = [unparse(i.test) for i in ast.walk(fn.node) if isinstance(i, ast.If) and any(isinstance(s, ast.Raise) for s in i.body)]
        gtxt = " ; ".join(guards)
        for c in casts:
            tgt = unparse(c.args[0]) if c.args else ""
            need = []
            if "float" in tgt:
                need = [("numeric dtype", ("issubdtype", "np.number", "dtype.kind"))]
            elif "int32" in tgt or tgt in ("int", "'int32'"):
                need = [("fractional part", ("modf", "% 1", "is_integer", "np.floor", "np.round")), ("32-bit range", ("iinfo", "2147483647", "INTEGER_NDV", "2 ** 31", "2**31"))]
            elif "bool" in tgt:
                need = [("membership in {0, 1}", ("{0, 1}", "isin", "[0, 1]"))]
            elif "uint32" in tgt:
                need = [("fractional part", ("modf", "% 1")), ("unsigned 32-bit range", ("iinfo", "4294967295", "< 0"))]
            for label, toks in need:
                ok = any(t in gtxt for t in toks)
                res.inst(f"{K.name}.format_type: astype({tgt}) guarded against {label}: {ok} (guards: {gtxt[:80]})", nontrivial=True, ok=ok)
                if not ok:
                    res.find(fn.cls.name, "format_type", f"astype({tgt}) without a {label} guard", f"{fn.module.relpath}:{c.lineno}",
                             f"values outside what {tgt} represents ({label}) are silently altered by the cast instead of being rejected")
    return res


RULES = [rule_ndv, rule_ndvmap, rule_codec, rule_narrow]
