"""C09 — an operation on one entity leaves unrelated stored entities untouched (writer handle provenance, idempotent re-save)."""

from __future__ import annotations

import ast

from ..cfg import CFG, forward
from ..model import AnalysisError, chain, unparse
from ..normalize import expanded, single_assignments, xtext
from ..report import RuleResult

MUT_CALLS = {"create_group", "create_dataset", "require_group", "require_dataset"}
TARGET_PARAMS = ("entity", "entity_type", "property_group", "parent", "workspace")
SKELETON = {"Data", "Groups", "Objects", "Types", "Data types", "Group types", "Object types", "Root"}
PROJECT = "<project>"


def allowed_exprs(params):
    out = set()
    for prm in params:
        if prm in TARGET_PARAMS:
            out |= {prm, f"{prm}.parent", f"{prm}.entity_type"}
    if "uid" in params:
        out.add("param:uid")
    return out


def ancestor_locals(fn, params) -> set:
    """locals that walk up from a target parameter: bound from the parameter (or from such a local) and re-bound only from
    `<itself>.parent` — e.g. `child = entity; while ...: child = child.parent`.  The loop does for each ancestor what the recursive
    form did by calling itself with entity.parent, so such a local is a target like the parameter it starts from."""
    binds: dict = {}
    for n in ast.walk(fn.node):
        if isinstance(n, ast.Assign) and len(n.targets) == 1 and isinstance(n.targets[0], ast.Name):
            binds.setdefault(n.targets[0].id, []).append(n.value)
    out = set()
    changed = True
    while changed:
        changed = False
        for nm, vals in binds.items():
            if nm in out or nm in params:
                continue
            ok = all(
                (isinstance(v, ast.Name) and (v.id in TARGET_PARAMS and v.id in params or v.id in out))
                or (isinstance(v, ast.Attribute) and v.attr == "parent" and isinstance(v.value, ast.Name) and (v.value.id == nm or v.value.id in out or (v.value.id in TARGET_PARAMS and v.value.id in params)))
                for v in vals)
            if ok and any(isinstance(v, ast.Name) for v in vals):
                out.add(nm)
                changed = True
    res = set()
    for nm in out:
        res |= {nm, f"{nm}.parent", f"{nm}.entity_type"}
    return res


class Who:
    """who(handle expression) = the set of entity expressions whose node it denotes (or PROJECT)."""

    def __init__(self, fn, project=None):
        self.fn = fn
        self.project = project
        self._den = None
        self.sa_defs = single_assignments(fn.node)
        self.env: dict[str, set] = {}
        self.uid_of: dict[str, str] = {}  # local name -> entity expr whose uid it holds
        params = fn.params[1:] if fn.kind in ("classmethod", "method") else fn.params
        self.params = params
        for prm in params:
            if prm in ("file", "h5file"):
                self.env[prm] = {PROJECT}
            elif prm.endswith("handle"):
                self.env[prm] = {f"param:{prm}"}
        if "uid" in params:
            self.uid_of["uid"] = "param:uid"
        # a parameter the function mutates THROUGH (p.create_group(..), del p[..], p[..] = .., p.attrs.create(..)) is a node it
        # was handed, whatever it is called (`container`, `group`, ...): what it denotes is decided where the function is called
        from ._c09_summary import root_name

        for _n, b, _w, _k in mutation_sites(fn):
            r = root_name(b)
            if r in params and r not in self.env and r not in TARGET_PARAMS and r != "uid":
                self.env[r] = {f"param:{r}"}
        self.handle_params = {x[6:] for v in self.env.values() for x in v if x.startswith("param:")}
        changed = True
        while changed:
            changed = False
            for n in ast.walk(fn.node):
                if isinstance(n, ast.With):
                    for it in n.items:
                        if it.optional_vars is not None and isinstance(it.optional_vars, ast.Name) and unparse(it.context_expr.func if isinstance(it.context_expr, ast.Call) else it.context_expr) == "fetch_h5_handle":
                            if self._set(it.optional_vars.id, {PROJECT}):
                                changed = True
                if isinstance(n, ast.For):
                    it = n.iter
                    base = it.func.value if isinstance(it, ast.Call) and isinstance(it.func, ast.Attribute) and it.func.attr in ("items", "values") else it
                    bw = self.who(base)
                    if not bw and isinstance(n.target, ast.Name):
                        # a python collection OF handles (tuple / generator of nodes, possibly bound on several paths): the loop
                        # variable denotes what the elements denote
                        elems = self._elements(it)
                        ws_ = [self.who(x) for x in elems] if elems else []
                        if ws_ and all(ws_) and self._set(n.target.id, set().union(*ws_)):
                            changed = True
                    if bw and not isinstance(base, (ast.List, ast.Tuple)):
                        names = [t.id for t in ast.walk(n.target) if isinstance(t, ast.Name)]
                        if isinstance(it, ast.Call) and it.func.attr == "items" and len(names) == 2:
                            names = names[1:]
                        elif not isinstance(it, ast.Call):
                            names = []  # iterating a group yields its keys
                        for nm in names:
                            if self._set(nm, {"member-of:" + unparse(base)[:40]}):
                                changed = True
                if isinstance(n, ast.Assign) and len(n.targets) == 1 and isinstance(n.targets[0], (ast.Tuple, ast.List)) \
                        and all(isinstance(t, ast.Name) for t in n.targets[0].elts):
                    # `handle, name = target`: a record / tuple that carries a node together with the key to use in it
                    comps = self._components(n.value)
                    if comps and all(len(c) == len(n.targets[0].elts) for c in comps):
                        for i, t in enumerate(n.targets[0].elts):
                            ws_ = [self.who(c[i]) for c in comps]
                            if all(ws_) and self._set(t.id, set().union(*ws_)):
                                changed = True
                            us_ = {self.uid_expr(c[i]) for c in comps}
                            if len(us_) == 1 and None not in us_ and self.uid_of.get(t.id) != next(iter(us_)):
                                self.uid_of[t.id] = next(iter(us_))
                                changed = True
                if isinstance(n, ast.Assign) and len(n.targets) == 1 and isinstance(n.targets[0], ast.Name):
                    name = n.targets[0].id
                    v = n.value
                    # uid aliases: uid = entity.uid ; uid_str = as_str_if_uuid(uid)
                    src = self.uid_expr(v)
                    if src is not None and self.uid_of.get(name) != src:
                        self.uid_of[name] = src
                        changed = True
                    w = self.who(v)
                    if w and self._set(name, w):
                        changed = True

    # ---- python-level values that carry handles: collections of nodes, records (node, key)
    def _values_of(self, e, _seen=()):
        """the expressions a local may stand for (every binding, None left out); the expression itself when it is not a local"""
        if isinstance(e, ast.Name) and e.id not in self.params and e.id not in _seen:
            vals = [a.value for a in ast.walk(self.fn.node) if isinstance(a, ast.Assign) and len(a.targets) == 1 and isinstance(a.targets[0], ast.Name) and a.targets[0].id == e.id]
            if vals:
                out = []
                for v in vals:
                    if isinstance(v, ast.Constant) and v.value is None:
                        continue
                    out += self._values_of(v, _seen + (e.id,))
                return out
        return [e]

    def _elements(self, e):
        """element expressions of a python collection (literal, generator, wrapped in iter()/tuple()/..), else None"""
        out = []
        for v in self._values_of(e):
            if isinstance(v, (ast.Tuple, ast.List, ast.Set)):
                out += list(v.elts)
            elif isinstance(v, (ast.GeneratorExp, ast.ListComp, ast.SetComp)):
                out.append(v.elt)
            elif isinstance(v, ast.Call) and isinstance(v.func, ast.Name) and v.func.id in ("iter", "tuple", "list", "reversed", "sorted", "set") and len(v.args) == 1:
                sub = self._elements(v.args[0])
                if sub is None:
                    return None
                out += sub
            else:
                return None
        return out or None

    def _record_fields(self, call):
        """field names of the record class a constructor call makes (NamedTuple / dataclass: annotated names of the class body)"""
        if self.project is None or not isinstance(call.func, (ast.Name, ast.Attribute)):
            return None
        nm = call.func.id if isinstance(call.func, ast.Name) else call.func.attr
        r = self.project.resolve_name(self.fn.module, nm)
        if not r or r[0] != "class" or r[1].node is None:
            return None
        return [st.target.id for st in r[1].node.body if isinstance(st, ast.AnnAssign) and isinstance(st.target, ast.Name)] or None

    def _components(self, e):
        """[[component expressions] per value the expression may take]: tuple literals and record constructor calls"""
        out = []
        for v in self._values_of(e):
            if isinstance(v, (ast.Tuple, ast.List)):
                out.append(list(v.elts))
            elif isinstance(v, ast.Call):
                fields = self._record_fields(v)
                if fields is None:
                    return None
                comp = dict(zip(fields, v.args))
                comp.update({k.arg: k.value for k in v.keywords if k.arg})
                if set(comp) != set(fields):
                    return None
                out.append([comp[f] for f in fields])
            else:
                return None
        return out or None

    def _field(self, e):
        """component expressions of `<record>.<field>`, else None"""
        vals = self._values_of(e.value)
        out = []
        for v in vals:
            if not isinstance(v, ast.Call):
                return None
            fields = self._record_fields(v)
            if not fields or e.attr not in fields:
                return None
            comp = dict(zip(fields, v.args))
            comp.update({k.arg: k.value for k in v.keywords if k.arg})
            if e.attr not in comp:
                return None
            out.append(comp[e.attr])
        return out or None

    def _set(self, name, w):
        cur = self.env.setdefault(name, set())
        if not w <= cur:
            cur |= w
            return True
        return False

    def x(self, e):
        """alias-expanded form of an expression (single-assignment locals replaced by what they are bound to)"""
        return expanded(e, self.fn.node, self.sa_defs)

    def uid_expr(self, e):
        """Entity expression E such that e evaluates to (a string form of) E.uid."""
        if isinstance(e, ast.Name) and e.id in self.sa_defs and e.id not in self.uid_of:
            return self.uid_expr(self.sa_defs[e.id])
        if isinstance(e, ast.Attribute) and e.attr == "uid":
            return unparse(e.value)
        if isinstance(e, ast.Attribute) and isinstance(e.value, ast.Name) and e.value.id not in self.params:
            comps = self._field(e)
            if comps:
                us_ = {self.uid_expr(c) for c in comps}
                return next(iter(us_)) if len(us_) == 1 else None
        if isinstance(e, ast.Name):
            return self.uid_of.get(e.id)
        if isinstance(e, ast.Call) and unparse(e.func) in ("as_str_if_uuid", "str") and len(e.args) == 1:
            return self.uid_expr(e.args[0])
        return None

    def who(self, e) -> set:
        got = self._who(e)
        if got or self.project is None:
            return got
        # fall back on the denotation analysis (follows accessor helpers such as require_group(handle, key))
        if self._den is None:
            from ..h5den import Den

            self._den = Den(self.fn, self.project)
        out = set()
        for path in self._den.paths(e):
            root = path[0]
            if root[0] in ("FILE", "PROJECT"):
                out.add(PROJECT)
            elif root[0] in ("NODE", "TNODE"):
                out.add(root[1])
            elif root[0] == "PARAM":
                out.add(f"param:{root[1]}")
        return out

    def _who(self, e) -> set:
        if isinstance(e, ast.Name):
            got = set(self.env.get(e.id, set()))
            if not got and e.id in self.sa_defs:
                return self.who(self.sa_defs[e.id])
            return got
        if isinstance(e, ast.Subscript):
            u = self.uid_expr(e.slice)
            if u is not None and not isinstance(e.value, ast.Call):
                return {u}
            return self.who(e.value)
        if isinstance(e, ast.Attribute) and e.attr in ("attrs", "parent", "file"):
            return self.who(e.value)
        if isinstance(e, ast.Attribute) and isinstance(e.value, ast.Name):
            comps = self._field(e)
            if comps:
                ws_ = [self.who(c) for c in comps]
                return set().union(*ws_) if all(ws_) else set()
        if isinstance(e, ast.Call):
            f = e.func
            if isinstance(f, ast.Name) and f.id in ("list", "tuple", "sorted") and len(e.args) == 1:
                a = e.args[0]
                base = a.func.value if isinstance(a, ast.Call) and isinstance(a.func, ast.Attribute) and a.func.attr in ("values", "items") else a
                if self.who(base):
                    return {"member-of:" + unparse(base)[:40]}
            if isinstance(f, ast.Attribute):
                base = chain(f.value)
                if f.attr in ("fetch_handle", "write_entity", "write_entity_type") and base and base[0] in ("H5Writer", "cls") and len(e.args) >= 2:
                    return {unparse(e.args[1])}
                if f.attr in ("get",) or f.attr in MUT_CALLS:
                    if f.attr in MUT_CALLS and e.args:
                        u = self.uid_expr(e.args[0])
                        if u is not None:
                            return {u}
                    return self.who(f.value)
        return set()


def _skeleton_key(fn, key, consts=None) -> bool:
    """The key expression can only hold the name of a skeleton container (value-set analysis of the expression: constants,
    locals assigned constants in branches, loop variables over literal tables, next(<generator over a literal table>), dict
    look-ups), or it is the dataset name of an attribute looked up in KEY_MAP."""
    from ..roles import const_values

    vals = const_values(key, fn.node)
    if vals is not None and vals and vals <= SKELETON:
        return True
    if consts is not None and key is not None:
        # across functions: the value a helper returns, tables put together, module / class level constants
        vals = consts.strs(key, fn)
        if vals and vals <= SKELETON:
            return True
    if isinstance(key, ast.Name):
        for a in ast.walk(fn.node):
            if isinstance(a, ast.Assign) and isinstance(a.targets[0], ast.Name) and a.targets[0].id == key.id and "KEY_MAP" in unparse(a.value):
                return True
    return False


def _only_root_link(fn, key, consts) -> bool:
    from ..roles import const_values

    vals = {key.value} if isinstance(key, ast.Constant) else const_values(key, fn.node)
    if vals is None and consts is not None:
        vals = consts.strs(key, fn)
    return bool(vals) and vals <= {"Root"}


def mutation_sites(fn):
    """(node, base handle expression, what, key expression|None)"""
    out = []
    for n in ast.walk(fn.node):
        if isinstance(n, ast.Call) and isinstance(n.func, ast.Attribute):
            if n.func.attr in MUT_CALLS and not (chain(n.func.value) in (["cls"], ["H5Writer"])):
                out.append((n, n.func.value, f".{n.func.attr}()", n.args[0] if n.args else None))
            elif n.func.attr in ("create", "modify") and isinstance(n.func.value, ast.Attribute) and n.func.value.attr == "attrs":
                out.append((n, n.func.value.value, f".attrs.{n.func.attr}()", n.args[0] if n.args else None))
            elif n.func.attr == "create_dataset" and chain(n.func.value) in (["cls"], ["H5Writer"]) and n.args:
                out.append((n, n.args[0], "cls.create_dataset()", n.args[2] if len(n.args) > 2 else None))
        elif isinstance(n, ast.Delete):
            for t in n.targets:
                if isinstance(t, ast.Subscript):
                    out.append((n, t.value, "del [...]", t.slice))
        elif isinstance(n, ast.Assign):
            for t in n.targets:
                if isinstance(t, ast.Subscript) and not isinstance(t.slice, ast.Slice):
                    out.append((n, t.value, "[...] = link/array store", t.slice))
    return out


def _summaries(ctx, W):
    from ._c09_summary import Summaries

    sm = Summaries(ctx, W, Who, mutation_sites, lambda q: q in ("file", "h5file") or q in TARGET_PARAMS or q == "uid")
    cache: dict = {}

    def who_of(m0):
        if m0.name not in cache:
            cache[m0.name] = Who(ctx.view(m0), ctx.p)
        return cache[m0.name]

    sm.who_of = who_of
    return sm


def _yields_own_children(it, fn, W, who) -> bool:
    """`it` is a call of a generator function every `yield` of which hands out a member of `<p>.children` / `<p>.property_groups`
    (a loop variable over it, or `yield from` it) for a parameter p that the call binds to a target of the calling function"""
    from ._c09_summary import bind, own_params, writer_callees

    for callee in writer_callees(it, W, fn.node):
        actuals = bind(callee, it)
        params = set(own_params(callee))
        sources = set()
        yields = [y for y in ast.walk(callee.node) if isinstance(y, (ast.Yield, ast.YieldFrom))]
        if not yields:
            return False

        def member_source(e):
            """parameter p when e is `p.children` / `p.property_groups` (possibly wrapped in list()/tuple()/sorted()/.copy())"""
            while isinstance(e, ast.Call) and ((isinstance(e.func, ast.Name) and e.func.id in ("list", "tuple", "sorted", "reversed", "iter") and len(e.args) == 1)
                                               or (isinstance(e.func, ast.Attribute) and e.func.attr == "copy" and not e.args)):
                e = e.args[0] if isinstance(e.func, ast.Name) else e.func.value
            if isinstance(e, ast.Attribute) and e.attr in ("children", "property_groups") and isinstance(e.value, ast.Name) and e.value.id in params:
                return e.value.id
            return None

        for y in yields:
            src = None
            if isinstance(y, ast.YieldFrom):
                src = member_source(y.value)
            elif isinstance(y.value, ast.Name):
                for lp in ast.walk(callee.node):
                    if isinstance(lp, (ast.For, ast.comprehension)) and isinstance(lp.target, ast.Name) and lp.target.id == y.value.id and any(x is y for x in ast.walk(lp)):
                        src = member_source(lp.iter)
            if src is None:
                return False
            sources.add(src)
        for src in sources:
            a = actuals.get(src)
            if a is None or not (unparse(a) in who.params and unparse(a) in TARGET_PARAMS):
                return False
        return True
    return False


def rule_prov(ctx) -> RuleResult:
    res = RuleResult(
        "C09.PROV",
        "C09",
        "every HDF5 mutation in io/h5_writer.py acts on a handle derived from the function's own target (entity / its parent / "
        "its type / the property group's parent / the uid it was given); project-level mutations are limited to the skeleton "
        "containers and the Root link; calls to other writer functions pass the target, its parent, its type, or one of its "
        "own children / property groups; no mutation sits in a loop over a handle's members",
        floor=40,
    )
    from ._c09_consts import Consts

    p = ctx.p
    W = p.cls("H5Writer")
    consts = Consts(p, ctx.view)
    summaries = _summaries(ctx, W)
    n_sites = 0
    # (the functions of the writer's module count as writer functions: helpers that are handed a node live there as well)
    for name, fn0 in list(W.methods.items()) + [(n, f) for n, f in (W.module.functions.items() if W.module is not None else []) if n not in W.methods]:
        fn = ctx.view(fn0)
        who = Who(fn, p)
        allowed = allowed_exprs(who.params) | ancestor_locals(fn, who.params)
        # loops over handle members
        handle_loops = []
        for n in ast.walk(fn.node):
            if isinstance(n, ast.For):
                it = n.iter
                base = it.func.value if isinstance(it, ast.Call) and isinstance(it.func, ast.Attribute) and it.func.attr in ("items", "values", "keys") else it
                if who.who(base) and not isinstance(base, (ast.List, ast.Tuple)):
                    handle_loops.append(n)
        for node, base, what, key in mutation_sites(fn) + summaries.instantiate(fn):
            w = who.who(base)
            if not w:
                # stores into plain python containers (dicts, arrays) are not file mutations
                continue
            n_sites += 1
            where = f"{fn.module.relpath}:{node.lineno}"
            desc = f"H5Writer.{name}:{node.lineno} {what} on {unparse(base)[:40]} -> who={sorted(w)}"
            bad = []
            for x in sorted(w):
                if x in allowed:
                    continue
                if x.startswith("param:") and x[6:] in who.params:
                    continue  # handle / uid handed in by the caller (checked at the call sites)
                if x == PROJECT:
                    k = key.value if isinstance(key, ast.Constant) else None
                    keyname = unparse(key) if key is not None else ""
                    if k in SKELETON or keyname == "workspace.name" or _skeleton_key(fn, key, consts):
                        if what.startswith("del") and not _only_root_link(fn, key, consts):
                            # the skeleton containers hold every entity / type of the file: only the Root LINK is ever re-pointed
                            bad.append("every entity of a skeleton container")
                        continue
                    # deleting / writing a flat-container entry keyed by the uid that was given
                    if key is not None and who.uid_expr(key) in allowed | {"param:uid"}:
                        continue
                bad.append(x)
            in_loop = any(any(x is node for x in ast.walk(lp)) for lp in handle_loops)
            ok = not bad and not in_loop
            res.inst(desc, nontrivial=True, ok=ok)
            if bad:
                res.find("H5Writer", name, f"{what} on a node of {bad[0]}", where,
                         f"H5Writer.{name} mutates the stored form of `{bad[0]}`, which is neither its target, the target's parent nor its type: "
                         "an operation on one entity rewrites another one")
            if in_loop:
                res.find("H5Writer", name, f"{what} inside a loop over a handle's members", where,
                         "the writer mutates nodes while iterating the members of a container: every member is touched, not only the target")
        # calls to other writer functions (written `cls.f(..)` / `H5Writer.f(..)`, or picked from a table of them)
        from ._c09_summary import writer_callees

        for c, callee in [(c, m) for c in ast.walk(fn.node) if isinstance(c, ast.Call) and len(c.args) >= 2 for m in writer_callees(c, W, fn.node)]:
            if True:
                cname = callee.name
                if cname in ("create_dataset", "fetch_handle"):
                    continue
                if cname.startswith("_") and not cname.startswith("__"):
                    # a private helper that could not be expanded in place: it works on what it is handed (its own
                    # body is analysed like every other writer function: mutations only on its handle / uid parameters)
                    continue
                # the entity arguments: the one after the file (as ever) and every parameter of the callee that names a target;
                # a node handed over (handle parameter of the callee) is judged by the mutations the callee makes on it (summaries)
                from ._c09_summary import bind, own_params

                cparams = own_params(callee)
                cwho = summaries.who_of(callee)
                actuals = bind(callee, c) or {}
                todo = []
                if not cparams or cparams[0] not in cwho.handle_params and (len(cparams) < 2 or cparams[1] not in cwho.handle_params):
                    # (a helper whose first parameter is a node it is handed takes no file: it designates no entity by position)
                    todo.append(c.args[1])
                todo += [a for q, a in actuals.items() if q in TARGET_PARAMS and all(a is not t for t in todo)]
                for arg in todo:
                    txt = unparse(arg)
                    xt_ = unparse(who.x(arg))  # `entity_type = entity.entity_type` left by an expanded helper is the target's type
                    ok = txt in allowed or txt in who.params or xt_ in allowed
                    if not ok and isinstance(arg, ast.Name):
                        # loop variable over the target's own children / property groups
                        for lp in ast.walk(fn.node):
                            if isinstance(lp, ast.For) and isinstance(lp.target, ast.Name) and lp.target.id == arg.id:
                                it = unparse(lp.iter)
                                if any(it == f"{a}.children" or it == f"{a}.property_groups" for a in who.params if a in TARGET_PARAMS):
                                    ok = True
                                elif _yields_own_children(lp.iter, fn, W, who):
                                    ok = True  # a generator helper that selects among the target's children
                    if not ok and isinstance(arg, ast.Constant):
                        ok = True  # None / a literal default: no entity is designated
                    res.inst(f"H5Writer.{name}:{c.lineno} -> H5Writer.{cname}(…, {txt[:30]})", ok=ok)
                    if not ok:
                        res.find("H5Writer", name, f"writer call on {txt[:40]}", f"{fn.module.relpath}:{c.lineno}",
                                 f"H5Writer.{name} hands `{txt[:40]}` to H5Writer.{cname}: not its target, parent, type, child or property group")
    if n_sites < 40:
        raise AnalysisError(f"C09.PROV: only {n_sites} HDF5 mutation sites recognised in the writer (floor 40)")
    # the Workspace-side callers that visit several entities
    ws = p.cls("Workspace")
    multi = []

    def _writes(c):
        return isinstance(c, ast.Call) and isinstance(c.func, ast.Attribute) and c.func.attr == "_io_call" and c.args and unparse(c.args[0]).startswith("H5Writer.")

    # private methods that hand a request to the writer (`self._delete_from_file(uid, container)`): calling one is writing
    forwarders = {n for n, f in ws.methods.items() if n.startswith("_") and not n.startswith("__") and any(_writes(c) for c in ast.walk(f.node))}
    for name, fn in ws.methods.items():
        for lp in [n for n in ast.walk(ctx.view(fn).node) if isinstance(n, ast.For)]:
            if any(_writes(c) or (isinstance(c, ast.Call) and isinstance(c.func, ast.Attribute) and c.func.attr in forwarders and chain(c.func.value) in (["self"], [fn.params[0]] if fn.params else ["self"]))
                   for s in lp.body for c in ast.walk(s)):
                multi.append(name)
    documented = {"remove_none_referents", "remove_children"}
    for name in sorted(set(multi)):
        ok = name in documented
        res.inst(f"Workspace.{name}: writer call inside a loop", ok=ok)
        if not ok:
            res.find("Workspace", name, "writer call inside a loop over entities", ws.methods[name].where,
                     "a single API call now writes several entities (only the dead-reference sweep and remove_children(list) do so by design)")
    return res


def rule_parent(ctx) -> RuleResult:
    from ._c09_parent import Interp, container_deletes, describe

    res = RuleResult(
        "C09.PARENT",
        "C09",
        "on the stored node of its target's PARENT a writer function deletes only the entry keyed by the target's own uid; a "
        "member named by a constant (a container shared by all the siblings) is deleted only on paths where the member count "
        "and membership tests that were evaluated, at the time they were evaluated and carried through the deletions and "
        "creations since, prove it empty or holding the target alone",
        floor=2,
    )
    p = ctx.p
    W = p.cls("H5Writer")
    summaries = _summaries(ctx, W)
    pure = {m for m, f0 in W.methods.items() if summaries.pure(f0)}
    for name, fn0 in W.methods.items():
        fn = ctx.view(fn0)
        synth = summaries.instantiate(fn)
        if not any(isinstance(n, ast.Delete) for n in ast.walk(fn.node)) and not any(w.startswith("del") for _c, _b, w, _k in synth):
            continue
        who = Who(fn, p)
        allowed = allowed_exprs(who.params) | ancestor_locals(fn, who.params)
        P, dels = container_deletes(fn, who, allowed, synth)
        for node, base, key, w, cid, is_target in dels:
            where = f"{fn.module.relpath}:{node.lineno}"
            head = f"H5Writer.{name}:{node.lineno} del on the node of {sorted(w)}"
            if cid is None:
                if is_target is False:
                    u = who.uid_expr(key)
                    res.inst(f"{head}: entry keyed by the uid of {u}", nontrivial=True, ok=False)
                    res.find("H5Writer", name, f"deletes the parent's entry of {u}, not of its target", where,
                             f"H5Writer.{name} removes from its target's parent the entry of `{u}`: a sibling loses its link")
                else:
                    res.inst(f"{head}: " + ("entry keyed by the target's uid" if is_target else "key not determined (left to C09.PROV)"), ok=True)
                continue
            bad = Interp(fn, P, cid, set(W.methods), synth, pure).run().get(id(node), set())
            label = describe(cid)
            res.inst(f"{head}: whole member '{label}' — worlds (count, target inside) reaching it unproven: {sorted(bad)}", nontrivial=True, ok=not bad)
            if bad:
                res.find("H5Writer", name, f"deletes the parent's whole member '{label}' on a path where it may hold other entries", where,
                         f"H5Writer.{name} deletes `{label}` of its target's parent while it can still hold "
                         + ("another entity's entry" if any(b[0] == 1 for b in bad) else "several entries")
                         + " (the emptiness test does not hold at the deletion: evaluated before a removal, too weak, or absent): "
                         "the siblings' stored form vanishes with it")
    return res


def _notin_facts(test, truth):
    if isinstance(test, ast.UnaryOp) and isinstance(test.op, ast.Not):
        return _notin_facts(test.operand, not truth)
    if isinstance(test, ast.BoolOp):
        if isinstance(test.op, ast.And) and truth:
            return set().union(*[_notin_facts(v, True) for v in test.values])
        if isinstance(test.op, ast.Or) and not truth:
            return set().union(*[_notin_facts(v, False) for v in test.values])
        return set()
    if isinstance(test, ast.Compare) and len(test.ops) == 1:
        if (isinstance(test.ops[0], ast.NotIn) and truth) or (isinstance(test.ops[0], ast.In) and not truth):
            return {(unparse(test.left), unparse(test.comparators[0]))}
    return set()


def rule_idemp(ctx) -> RuleResult:
    res = RuleResult(
        "C09.IDEMP",
        "C09",
        "on the re-save path of close() (save_entity -> write_entity's already-stored branch -> write_to_parent) every "
        "reachable HDF5 mutation is dominated by a `not in` test of the very key it creates: open(); close() rewrites nothing",
        floor=2,
    )
    p = ctx.p
    W = p.cls("H5Writer")
    we = ctx.view(W.methods["write_entity"])
    wp = ctx.view(W.methods["write_to_parent"])
    se = ctx.view(W.methods["save_entity"])
    # write_entity: the stored test = `<uid string of the entity> in <handle>` (whatever the locals are called)
    g = CFG(we.node)
    who_we = Who(we, p)
    stored = [n for n in g.nodes if n.kind == "test" and isinstance(n.ast, ast.Compare) and len(n.ast.ops) == 1 and isinstance(n.ast.ops[0], ast.In)
              and who_we.uid_expr(n.ast.left) is not None and who_we.who(n.ast.comparators[0])]
    if not stored:
        raise AnalysisError("H5Writer.write_entity: `uid in flat container` test not found")
    T = stored[0]
    rets = [m for m, l in T.succ if l == "true"]
    ok = all(_returns_before_mutation(g, m) for m in rets)
    res.inst("write_entity: the already-stored branch returns the node without mutating", nontrivial=True, ok=ok)
    if not ok:
        res.find("H5Writer", "write_entity", "already-stored branch mutates the file", we.where,
                 "re-saving a stored entity (every close()) rewrites its node")
    from ._c09_summary import writer_callees

    summaries = _summaries(ctx, W)
    todo = [(we, T), (wp, None), (se, None)]
    done = {we.name, wp.name, se.name}
    while todo:
        fn, limit_to = todo.pop(0)
        gg = CFG(fn.node) if fn is not we else g
        xt = lambda e, fn=fn: xtext(e, fn.node)  # noqa: E731  (keys and containers compared after alias expansion)

        def xfacts(test, truth, xt=xt):
            return {(xt(ast.parse(a, mode="eval").body), xt(ast.parse(b, mode="eval").body)) for a, b in _notin_facts(test, truth)}

        def transfer(node, st, xfacts=xfacts):
            if node.kind == "test" and node.ast is not None:
                return {"true": st | frozenset(xfacts(node.ast, True)), "false": st | frozenset(xfacts(node.ast, False)), None: st}
            return st

        IN = forward(gg, frozenset(), transfer, lambda a, b: a & b)
        # nodes reachable on the stored path (for write_entity: before / at the stored test, true edge only)
        reachable = set()
        stack = [gg.entry]
        while stack:
            n = stack.pop()
            if n in reachable:
                continue
            reachable.add(n)
            for m, lab in n.succ:
                if limit_to is not None and n is limit_to and lab == "false":
                    continue
                stack.append(m)
        for node in gg.nodes:
            if node not in reachable or node.ast is None or isinstance(node.ast, list):
                continue
            # a helper that works on a node it is handed (get-or-create of a container, ...) is part of the path: its own
            # creations must be guarded in its own body
            for c in ast.walk(node.ast if node.kind != "with" else ast.Module(body=[], type_ignores=[])):
                for callee in writer_callees(c, W, fn.node):
                    if callee.name not in done and summaries.of(callee):
                        done.add(callee.name)
                        todo.append((ctx.view(callee), None))
            if node.kind not in ("stmt", "return"):
                continue
            for mnode, base, what, key in mutation_sites_in(node.ast):
                if what.startswith(".require_"):
                    continue  # h5py's own get-or-create: creates only what is missing
                b, k = xt(base), xt(key) if key is not None else None
                ok = (k, b) in IN.get(node, frozenset())
                res.inst(f"H5Writer.{fn.name}:{node.lineno} {what} {b}[{k}] guarded by `{k} not in {b}`", nontrivial=True, ok=ok)
                if not ok:
                    res.find("H5Writer", fn.name, f"{what} {b[:30]}[{k}] on the re-save path without a `not in` guard", f"{fn.module.relpath}:{node.lineno}",
                             "opening and closing a workspace without any change rewrites (or fails on) an existing node")
    return res


def mutation_sites_in(stmt):
    class F:
        node = stmt

    fake = type("X", (), {"node": stmt})
    return mutation_sites(fake)


def _returns_before_mutation(g, start) -> bool:
    seen, stack = set(), [start]
    while stack:
        n = stack.pop()
        if n in seen:
            continue
        seen.add(n)
        if n.kind == "return" or n is g.exit:
            continue
        if n.kind == "stmt" and n.ast is not None and mutation_sites_in(n.ast):
            w = [x for x in mutation_sites_in(n.ast)]
            # `entity.on_file = True` is an attribute store, not a subscript store: mutation_sites ignores it
            if w:
                return False
        stack.extend(m for m, _ in n.succ)
    return True


def rule_handle(ctx) -> RuleResult:
    res = RuleResult(
        "C09.HANDLE",
        "C09",
        "H5Writer.fetch_handle addresses exactly one node: an entity / type is resolved by its uid inside the container of its "
        "kind; the project group is returned only for something that is not an entity or a type (the workspace), never on a "
        "mere name match",
        floor=3,
    )
    p = ctx.p
    fh = ctx.view(p.func("H5Writer.fetch_handle"))
    ent = fh.params[2]
    who = Who(fh, p)
    g = CFG(fh.node)

    def atoms(test, truth):
        """facts that hold on the `truth` edge of a test: ('uidin', E, bool) / ('isent', bool)"""
        if isinstance(test, ast.UnaryOp) and isinstance(test.op, ast.Not):
            return atoms(test.operand, not truth)
        if isinstance(test, ast.BoolOp):
            if (isinstance(test.op, ast.And) and truth) or (isinstance(test.op, ast.Or) and not truth):
                return set().union(*[atoms(v, truth) for v in test.values])
            return set()
        if isinstance(test, ast.Compare) and len(test.ops) == 1 and isinstance(test.ops[0], (ast.In, ast.NotIn)):
            e = who.uid_expr(test.left)
            if e is not None and who.who(test.comparators[0]):
                return {("uidin", e, truth == isinstance(test.ops[0], ast.In))}
        if isinstance(test, ast.Call) and getattr(test.func, "id", None) == "isinstance" and len(test.args) == 2 and unparse(test.args[0]) == ent:
            names = {unparse(x).split(".")[-1] for x in (test.args[1].elts if isinstance(test.args[1], ast.Tuple) else [test.args[1]])}
            if not truth:
                # known NOT to be an instance of any of the listed classes
                return {("notinst", n) for n in names}
            return {("inst", tuple(sorted(names)))}
        return set()

    def transfer(node, st):
        if node.kind == "test" and node.ast is not None:
            return {"true": st | frozenset(atoms(node.ast, True)), "false": st | frozenset(atoms(node.ast, False)), None: st}
        return st

    IN = forward(g, frozenset(), transfer, lambda x, y: x & y)
    rets = [n for n in g.nodes if n.kind == "return" and n.ast is not None and unparse(n.ast.value if isinstance(n.ast, ast.Return) else n.ast) != "None"]
    if len(rets) < 2:
        raise AnalysisError("H5Writer.fetch_handle: return statements not recognised")
    for r in rets:
        val = r.ast.value if isinstance(r.ast, ast.Return) else r.ast
        v = unparse(val)
        facts = IN.get(r, frozenset())
        uid_known = [f for f in facts if f[0] == "uidin" and f[2] is True]
        keyed = isinstance(val, ast.Subscript) and who.uid_expr(val.slice) is not None
        if uid_known or keyed:
            # an entity / type node (or, with return_parent, its container): the uid that was looked up is the entity's own
            used = {f[1] for f in uid_known} | ({who.uid_expr(val.slice)} if keyed else set())
            ok = used == {ent}
            res.inst(f"fetch_handle:{r.lineno} returns a node found by the uid of {sorted(used)}", nontrivial=True, ok=ok)
            if not ok:
                res.find("H5Writer", "fetch_handle", f"returns a node keyed by something else than {ent}.uid", f"{fh.module.relpath}:{r.lineno}",
                         "writer functions act on another entity's node")
        else:
            # both kinds must be excluded: an Entity AND an EntityType can carry the project's name
            excl = {("notinst", "Entity"), ("notinst", "EntityType")} <= set(facts)
            cond = "not an Entity / EntityType" if excl else "no kind test"
            res.inst(f"fetch_handle:{r.lineno} returns the project group ({cond})", nontrivial=True, ok=excl)
            if not excl:
                res.find("H5Writer", "fetch_handle", "project group returned under `` (a name match, no kind test)".replace("``", "a condition without a kind test"), f"{fh.module.relpath}:{r.lineno}",
                         "any entity or type whose name equals the project name is resolved to the PROJECT group: its attributes are written onto the "
                         "project header and its own node is never updated")
    from ..roles import const_values  # noqa: F401
    hier = [d for d in ast.walk(fh.node) if isinstance(d, ast.Dict) and len(d.keys) >= 6]
    ok = bool(hier)
    res.inst("fetch_handle: kind -> container table present", ok=ok)
    return res


from ._c09_sweep import rule_given, rule_typesweep  # noqa: E402

RULES = [rule_prov, rule_idemp, rule_handle, rule_parent, rule_given, rule_typesweep]
