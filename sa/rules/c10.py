"""C10 — read-only workspaces never change the file (single guarded gateway)."""

from __future__ import annotations

import ast

from ..cfg import CFG, dominators
from ..model import AnalysisError, chain, unparse
from ..normalize import expanded
from ..report import RuleResult
from ._c10_util import (
    FALSY,
    TOPLEVEL,
    TRUTHY,
    Paths,
    bind_args,
    callee_of,
    const_value,
    entered_only_through,
    entry_roots,
    helper_closure,
    is_private_helper,
    mode_sources,
)

WRITABLE = {"r+", "a", "w", "w-", "x"}
H5_MUTATORS = {"create_group", "create_dataset", "require_group", "require_dataset", "create_virtual_dataset"}
ATTRS_MUTATORS = {"create", "modify"}


def _writer_class(ctx):
    return ctx.p.cls("H5Writer")


def _refs_to(ctx, target_cls):
    """All Name/Attribute expressions outside the writer module that resolve to
    the class `target_cls` (through any import alias)."""
    p = ctx.p
    out = []
    for fn in p.all_functions():
        if fn.module is target_cls.module:
            continue
        parents = {}
        for n in ast.walk(fn.node):
            for c in ast.iter_child_nodes(n):
                parents[c] = n
        for n in ast.walk(fn.node):
            if isinstance(n, (ast.Name, ast.Attribute)):
                par = parents.get(n)
                if isinstance(par, ast.Attribute) and par.value is n and isinstance(n, ast.Attribute):
                    pass
                r = p.resolve_expr(fn.module, n)
                if r and r[0] == "class" and r[1] is target_cls:
                    out.append((fn, n, parents))
    return out


def _gateway_call(fn, call) -> bool:
    """`call` is self._io_call(...) inside a Workspace method."""
    f = call.func
    return (
        isinstance(f, ast.Attribute)
        and f.attr == "_io_call"
        and isinstance(f.value, ast.Name)
        and fn.cls is not None
        and f.value.id == fn.self_name
        and any((c if isinstance(c, str) else c.name) == "Workspace" for c in fn.cls.mro)
    )


def _mode_of(ctx, fn, call):
    """(mode constant | None, dynamic?) of the keyword mode= of a gateway call: a literal, or a local / module / class
    level name bound once to a literal."""
    for kw in call.keywords:
        if kw.arg == "mode":
            c = const_value(ctx.p, fn, kw.value)
            if c is not None:
                return c.value, False
            return None, True
    return None, False


def _forwarder_modes(ctx, fn, call):
    """`call` is self.<m>(H5Writer.x, ...) where Workspace.<m> does nothing with its first parameter but hand it to
    self._io_call(<it>, ..., mode=<constant>): the modes of those gateway calls (a thin wrapper around the gateway)."""
    f = call.func
    if not (isinstance(f, ast.Attribute) and isinstance(f.value, ast.Name) and fn.cls is not None and f.value.id == fn.self_name):
        return None
    m = fn.cls.lookup(f.attr)
    if not m or m[1] != "method" or m[2].kind != "method":
        return None
    target = m[2]
    if any((kw.arg == "mode") for kw in call.keywords):
        return None
    params = target.params[1:]
    if not params:
        return None
    first = params[0]
    parents = {}
    for n in ast.walk(target.node):
        for c in ast.iter_child_nodes(n):
            parents[c] = n
    if any(isinstance(n, ast.Name) and n.id == first and not isinstance(n.ctx, ast.Load) for n in ast.walk(target.node)):
        return None
    modes = []
    for n in ast.walk(target.node):
        if isinstance(n, ast.Name) and n.id == first:
            par = parents.get(n)
            if not (isinstance(par, ast.Call) and par.args and par.args[0] is n and _gateway_call(target, par)):
                return None
            mode, dyn = _mode_of(ctx, target, par)
            if dyn:
                return None
            modes.append(mode if mode is not None else "r")
    return modes or None


def gate_sites(ctx):
    """(fn, call, writer function name, mode constant|None, kind) for every
    reference to an H5Writer member outside io/h5_writer.py."""
    W = _writer_class(ctx)
    sites = []
    for fn, ref, parents in _refs_to(ctx, W):
        par = parents.get(ref)
        if not (isinstance(par, ast.Attribute) and par.value is ref):
            sites.append((fn, ref, None, None, "bare-reference"))
            continue
        member = par.attr
        gp = parents.get(par)
        if isinstance(gp, ast.Call) and gp.args and gp.args[0] is par:
            if _gateway_call(fn, gp) and fn.cls.name == "Workspace":
                mode, dyn = _mode_of(ctx, fn, gp)
                sites.append((fn, gp, member, mode, "dynamic-mode" if dyn else "io_call"))
                continue
            fw = _forwarder_modes(ctx, fn, gp) if fn.cls is not None and fn.cls.name == "Workspace" else None
            if fw:
                bad = [m for m in fw if m not in ("r+", "a")]
                sites.append((fn, gp, member, bad[0] if bad else fw[0], "io_call"))
                continue
        if isinstance(gp, ast.Call) and gp.func is par:
            sites.append((fn, gp, member, None, "direct-call"))
            continue
        via = _through_local(ctx, fn, par, gp, parents)
        if via is not None:
            sites.append((fn, via[0], member, via[1], via[2]))
            continue
        sites.append((fn, par, member, None, "escaping-reference"))
    return sites


def _through_local(ctx, fn, par, gp, parents):
    """`name = H5Writer.<member>` where the local `name` is bound only by such plain assignments and every use of it is the
    first argument of the gateway (`self._io_call(name, ..., mode=<constant>)`, or a thin wrapper): the writer function
    reaches the gateway through a local with a finite set of values.  -> (gateway call, mode, kind) or None."""
    if not (isinstance(gp, (ast.Assign, ast.AnnAssign)) and gp.value is par):
        return None
    tgs = gp.targets if isinstance(gp, ast.Assign) else [gp.target]
    if len(tgs) != 1 or not isinstance(tgs[0], ast.Name) or not (fn.cls is not None and fn.cls.name == "Workspace"):
        return None
    name = tgs[0].id
    a = fn.node.args
    if name in {x.arg for x in a.posonlyargs + a.args + a.kwonlyargs} | ({a.vararg.arg} if a.vararg else set()) | ({a.kwarg.arg} if a.kwarg else set()):
        return None
    uses = []
    for n in ast.walk(fn.node):
        if isinstance(n, ast.Name) and n.id == name:
            p_ = parents.get(n)
            if isinstance(n.ctx, ast.Load):
                uses.append(n)
            elif not (isinstance(p_, (ast.Assign, ast.AnnAssign)) and (p_.targets if isinstance(p_, ast.Assign) else [p_.target]) == [n]
                      and isinstance(p_.value, ast.Attribute)):
                return None  # bound in another way (loop target, with, tuple, augmented, a computed value)
        elif isinstance(n, (ast.Lambda, ast.FunctionDef, ast.AsyncFunctionDef)) and n is not fn.node and any(
                isinstance(x, ast.Name) and x.id == name for x in ast.walk(n)):
            return None  # captured by a closure
    if not uses:
        return None
    worst = None
    for u in uses:
        call = parents.get(u)
        if not (isinstance(call, ast.Call) and call.args and call.args[0] is u):
            return None
        if _gateway_call(fn, call):
            mode, dyn = _mode_of(ctx, fn, call)
            cur = (call, mode, "dynamic-mode" if dyn else "io_call")
        else:
            fw = _forwarder_modes(ctx, fn, call)
            if not fw:
                return None
            bad = [m for m in fw if m not in ("r+", "a")]
            cur = (call, bad[0] if bad else fw[0], "io_call")
        if worst is None or not (cur[2] == "io_call" and cur[1] in ("r+", "a")):
            worst = cur
    return worst


def rule_gate(ctx) -> RuleResult:
    res = RuleResult(
        "C10.GATE",
        "C10",
        "every reference to an H5Writer function outside io/h5_writer.py is the first argument of "
        "Workspace._io_call(..., mode=<'r+'|'a'>), so the read-only guard sees every write",
        floor=11,
    )
    for fn, node, member, mode, kind in gate_sites(ctx):
        where = f"{fn.module.relpath}:{node.lineno}"
        inst = f"{fn.qualname}:{node.lineno} H5Writer.{member} [{kind}] mode={mode!r}"
        if kind == "io_call" and mode in ("r+", "a"):
            res.inst(inst, ok=True)
            continue
        if kind == "direct-call" and member == "init_geoh5" and _fresh_bytesio_exception(ctx, fn, node):
            res.inst(inst + " (named exception: fresh in-memory BytesIO file created two statements above)", nontrivial=True)
            res.notes.append(f"{where}: direct H5Writer.init_geoh5 on the fresh BytesIO file — accepted exception")
            continue
        res.inst(inst, ok=False)
        if kind == "io_call":
            msg = (
                f"writer function H5Writer.{member} goes through _io_call with mode={mode!r}: "
                "the read-only guard only fires for mode 'r+'/'a', so this write reaches a file opened 'r'"
                if mode is not None
                else f"writer function H5Writer.{member} goes through _io_call without mode= (defaults to 'r'): the guard never fires"
            )
        elif kind == "dynamic-mode":
            msg = f"H5Writer.{member} through _io_call with a non-constant mode"
        elif kind == "direct-call":
            msg = f"H5Writer.{member} is called directly, bypassing Workspace._io_call and its read-only guard"
        else:
            msg = f"H5Writer{('.' + member) if member else ''} escapes as a value ({kind}); writes through it are not guarded"
        res.find(fn.cls.name if fn.cls else fn.module.short, fn.prop or fn.name,
                 f"H5Writer.{member} {kind} mode={mode!r}", where, msg)
    return res


def _is_bytesio_call(p, fn, e) -> bool:
    if not isinstance(e, ast.Call) or e.args or e.keywords:
        return False
    r = p.resolve_expr(fn.module, e.func)
    return bool(r and r[0] == "external" and r[1] == "io.BytesIO")


def _is_h5py_file(p, fn, call) -> bool:
    if not isinstance(call, ast.Call):
        return False
    ch = chain(call.func)
    if not ch or ch[-1] != "File":
        return False
    r = p.resolve_expr(fn.module, call.func)
    return bool(r and r[0] == "external" and r[1] == "h5py.File") or ch[0] == "h5py"


def _self_attr(fn, e, *names) -> bool:
    return isinstance(e, ast.Attribute) and e.attr in names and isinstance(e.value, ast.Name) and e.value.id == fn.self_name and fn.self_name is not None


def _h5file_setter(f) -> bool:
    return f.cls is not None and f.cls.name == "Workspace" and f.kind == "setter" and f.prop == "h5file"


def _fresh_bytesio_exception(ctx, fn, call) -> bool:
    """The call runs only as part of Workspace.h5file's setter (the setter itself or a private helper entered only
    from it), on the handle self.geoh5, and every path to it first binds self._h5file = BytesIO() and then
    self._geoh5 = h5py.File(<that BytesIO>, ...): the file written to is a fresh in-memory one."""
    p = ctx.p
    if not (fn.cls and fn.cls.name == "Workspace" and entered_only_through(ctx, fn, _h5file_setter)):
        return False
    if not call.args or not _self_attr(fn, expanded(call.args[0], fn.node), "geoh5", "_geoh5"):
        return False
    g = CFG(fn.node)
    dom = dominators(g)

    def own(n):
        a = n.ast
        if a is None or isinstance(a, list):
            return []
        if n.kind == "with":
            return [x for it in a.items for x in ast.walk(it.context_expr)]
        if n.kind == "except":
            return []
        return list(ast.walk(a))

    site = [n for n in g.nodes if n in dom and any(x is call for x in own(n))]
    if not site:
        return False

    def stores(n, attr, pred):
        a = n.ast
        return (
            n.kind == "stmt"
            and isinstance(a, (ast.Assign, ast.AnnAssign))
            and a.value is not None
            and any(_self_attr(fn, t, attr) for t in (a.targets if isinstance(a, ast.Assign) else [a.target]))
            and pred(expanded(a.value, fn.node))
        )

    def fresh_file(v):
        if not (_is_h5py_file(p, fn, v) and v.args):
            return False
        return _self_attr(fn, v.args[0], "h5file", "_h5file") or _is_bytesio_call(p, fn, v.args[0])

    for c in site:
        opened = [b for b in dom[c] if b is not c and stores(b, "_geoh5", fresh_file)]
        if not any(stores(a, "_h5file", lambda v: _is_bytesio_call(p, fn, v)) for b in opened for a in dom[b] if a is not b):
            return False
    return True


def _handle_mode_facts(fn) -> dict:
    """Assumption "the handle of the workspace was opened read-only", as facts on expressions of a Workspace method."""
    s = fn.self_name
    return {f"{s}.geoh5.mode": "r", f"{s}._geoh5.mode": "r"}


def rule_guard(ctx) -> RuleResult:
    res = RuleResult(
        "C10.GUARD",
        "C10",
        "in Workspace._io_call the test `mode in [...] and self.geoh5.mode == 'r'` with its raise dominates "
        "the call fun(self.geoh5, ...); the mode list covers every mode constant used at the gateway sites; "
        "Workspace.geoh5 raises when the handle is closed",
        floor=3,
    )
    p = ctx.p
    raw = p.func("Workspace._io_call")
    io = ctx.view(raw)
    if len(raw.params) < 2:
        raise AnalysisError("Workspace._io_call: the function parameter was not found")
    fun = raw.params[1]
    a = raw.node.args
    if "mode" not in [x.arg for x in a.posonlyargs + a.args + a.kwonlyargs]:
        raise AnalysisError("Workspace._io_call: the parameter mode= (passed by the gateway sites) was not found")
    base = Paths(io, project=p)

    def is_fun_call(x):
        return isinstance(x, ast.Call) and isinstance(x.func, ast.Name) and base.text(x.func) == fun

    live = base.g.reachable()
    calls = [(n, hits) for n, hits in base.nodes_with(is_fun_call) if n in live]
    if not calls:
        raise AnalysisError("Workspace._io_call: the call fun(...) was not found")
    used_modes = {m for (_, _, _, m, k) in gate_sites(ctx) if k == "io_call" and m}
    # for every requested mode: is the call still reachable when the handle is read-only?
    # (decided on paths: the guard may be one merged test, guard clauses, negated, or live in a private helper)
    universe = ["r+", "a"] + sorted((WRITABLE | used_modes | {"r"}) - {"r+", "a"})
    reach_ids = {}
    for m in universe:
        pm = Paths(io, texts=_handle_mode_facts(io), names={"mode": m}, project=p)
        reach_ids[m] = {n.id for n in pm.reachable()}
    s = io.self_name
    for c, hits in calls:
        call = hits[0]
        first = base.text(call.args[0]) if call.args else ""
        ok_handle = first == f"{s}.geoh5"
        res.inst(f"_io_call: {unparse(call)[:50]} passes the raising property self.geoh5", ok=ok_handle)
        if not ok_handle:
            res.find("Workspace", "_io_call", f"fun called with {first}", f"{io.module.relpath}:{c.lineno}",
                     "the writer/reader receives something else than the raising property self.geoh5")
        refused = [m for m in universe if c.id not in reach_ids[m]]
        ok = bool(refused) and used_modes <= set(refused)
        res.inst(f"_io_call: with a read-only handle the call {unparse(call)[:40]} is unreachable for the requested modes {refused} ⊇ used {sorted(used_modes)}",
                 nontrivial=True, ok=ok)
        if not refused:
            res.find("Workspace", "_io_call", "read-only guard does not dominate fun(...)", f"{io.module.relpath}:{c.lineno}",
                     "no test of the form `mode in [...] and self.geoh5.mode == 'r'` -> raise dominates the call to the "
                     "writer: a write can reach a file opened read-only")
        elif not ok:
            res.find("Workspace", "_io_call", f"guard modes {refused} miss {sorted(used_modes - set(refused))}",
                     f"{io.module.relpath}:{c.lineno}",
                     "a mode constant used at a gateway site is not in the guard's list, so that write is not refused")
    # raising property: no return is reachable when the stored handle is closed / missing (falsy)
    gp = ctx.view(p.func("Workspace.geoh5"))
    gs = gp.self_name
    stores_handle = any(_self_attr(gp, x, "_geoh5") and not isinstance(x.ctx, ast.Load) for x in ast.walk(gp.node))
    pg = Paths(gp, texts={} if stores_handle else {f"{gs}._geoh5": FALSY}, project=p)
    rets = [n for n in pg.g.nodes if n.kind == "return" and n in pg.g.reachable()]
    reach = pg.reachable()
    ok = bool(rets) and not any(r in reach for r in rets)
    res.inst("Workspace.geoh5: `if not self._geoh5: raise` dominates the return", nontrivial=True, ok=ok)
    if not ok:
        res.find("Workspace", "geoh5", "closed-file raise does not dominate return", gp.where,
                 "the handle property can hand out a closed/False handle")
    return res


def rule_who(ctx) -> RuleResult:
    res = RuleResult(
        "C10.WHO",
        "C10",
        "the h5py mutation API occurs in no module other than io/h5_writer.py; h5py.File( only in Workspace.open, "
        "the h5file setter and fetch_h5_handle; Workspace._geoh5 is stored / used as a raw handle only in the gateway "
        "members; no writable mode constant is passed by any other module",
        floor=6,
    )
    p = ctx.p
    wmod = p.module("io/h5_writer.py")
    ws = p.cls("Workspace")
    file_ok = {"Workspace.open", "Workspace.h5file[setter]", "utils.fetch_h5_handle", "shared.utils.fetch_h5_handle"}
    geoh5_store_ok = {"__init__", "open", "h5file"}
    geoh5_use_ok = {"close", "open", "geoh5", "h5file", "_io_call"}

    # a site allowed in a gateway member stays allowed in a private helper that is entered only from such members
    def via(fn, allowed) -> bool:
        return entered_only_through(ctx, fn, allowed)

    def ws_member(names):
        return lambda f: f.cls is not None and ws in f.cls.mro and (f.prop or f.name) in names

    n_scanned = 0
    # positive example for the matcher (zero-count rule): the writer itself must match
    pos = 0
    for fn in p.all_functions():
        in_writer = fn.module is wmod
        for n in ast.walk(fn.node):
            n_scanned += 1
            hit = None
            if isinstance(n, ast.Call) and isinstance(n.func, ast.Attribute):
                if n.func.attr in H5_MUTATORS and not (fn.cls and fn.cls.name == "H5Writer" and chain(n.func.value) in (["cls"], ["H5Writer"])):
                    hit = f"h5py mutation API .{n.func.attr}("
                elif n.func.attr in ATTRS_MUTATORS and isinstance(n.func.value, ast.Attribute) and n.func.value.attr == "attrs":
                    hit = f"h5py mutation API .attrs.{n.func.attr}("
            if isinstance(n, (ast.Assign, ast.AugAssign, ast.Delete)):
                tg = n.targets if not isinstance(n, ast.AugAssign) else [n.target]
                for t in tg:
                    if isinstance(t, ast.Subscript) and isinstance(t.value, ast.Attribute) and t.value.attr == "attrs":
                        hit = "store/delete on .attrs[...]"
            if hit:
                if in_writer:
                    pos += 1
                else:
                    res.inst(f"{fn.qualname}:{n.lineno} {hit}", ok=False)
                    res.find(fn.cls.name if fn.cls else fn.module.short, fn.prop or fn.name, hit,
                             f"{fn.module.relpath}:{n.lineno}",
                             f"{hit} outside io/h5_writer.py: a write that does not pass the _io_call guard")
            # h5py.File(
            if isinstance(n, ast.Call):
                ch = chain(n.func)
                if ch and ch[-1] == "File" and (ch[0] == "h5py" or (len(ch) == 1 and p.resolve_name(fn.module, "File") == ("external", "h5py.File"))):
                    qn = fn.qualname
                    ok = via(fn, lambda f: f.qualname in file_ok)
                    res.inst(f"{qn}:{n.lineno} h5py.File({', '.join(unparse(a) for a in n.args)})", ok=ok)
                    if not ok:
                        res.find(fn.cls.name if fn.cls else fn.module.short, fn.prop or fn.name, "h5py.File( outside the gateway",
                                 f"{fn.module.relpath}:{n.lineno}", "a second place opens HDF5 files; its mode is not governed by Workspace.open")
                # writable mode constants outside workspace.py / h5_writer.py
                if fn.module is not wmod and fn.module is not ws.module:
                    for kw in n.keywords:
                        kv = const_value(p, fn, kw.value) if kw.arg == "mode" else None
                        if kv is not None and isinstance(kv.value, str) and kv.value in WRITABLE:
                            res.inst(f"{fn.qualname}:{n.lineno} mode={kv.value!r}", ok=False)
                            res.find(fn.cls.name if fn.cls else fn.module.short, fn.prop or fn.name,
                                     f"{unparse(n.func)}(mode={kv.value!r})", f"{fn.module.relpath}:{n.lineno}",
                                     "a library helper requests a writable mode on the caller's workspace")
            # Workspace._mode is bound once, in __init__; open() is never called with a writable constant
            if isinstance(n, ast.Attribute) and n.attr == "_mode" and isinstance(n.ctx, ast.Store) and fn.cls is not None and ws in fn.cls.mro:
                ok = via(fn, ws_member({"__init__"}))
                res.inst(f"Workspace.{fn.prop or fn.name}:{n.lineno} stores self._mode", ok=ok)
                if not ok:
                    res.find("Workspace", fn.prop or fn.name, "stores self._mode", f"{fn.module.relpath}:{n.lineno}",
                             "the configured mode of a workspace changes after construction: a later open() may upgrade a read-only workspace")
            if isinstance(n, ast.Call) and isinstance(n.func, ast.Attribute) and n.func.attr == "open" and fn.module is ws.module:
                for a in list(n.args) + [kw.value for kw in n.keywords if kw.arg == "mode"]:
                    a = const_value(p, fn, a) or a
                    if isinstance(a, ast.Constant) and isinstance(a.value, str) and a.value in WRITABLE:
                        res.inst(f"{fn.qualname}:{n.lineno} open({a.value!r})", ok=False)
                        res.find("Workspace", fn.prop or fn.name, f"open({a.value!r})", f"{fn.module.relpath}:{n.lineno}",
                                 "the workspace re-opens itself with a writable constant regardless of the mode it was given")
            # Workspace._geoh5
            if isinstance(n, ast.Attribute) and n.attr == "_geoh5":
                recv_self_ws = isinstance(n.value, ast.Name) and n.value.id == fn.self_name and fn.cls is not None and ws in fn.cls.mro
                foreign = isinstance(n.value, ast.Name) and not (fn.cls is not None and n.value.id == fn.self_name)
                if recv_self_ws:
                    member = fn.prop or fn.name
                    if isinstance(n.ctx, ast.Store):
                        ok = via(fn, ws_member(geoh5_store_ok))
                        res.inst(f"Workspace.{member}:{n.lineno} stores self._geoh5", ok=ok)
                        if not ok:
                            res.find("Workspace", member, "stores self._geoh5", f"{fn.module.relpath}:{n.lineno}",
                                     "the file handle is replaced outside open()/h5file: its mode escapes Workspace.open's policy")
                elif foreign:
                    ok = via(fn, lambda f: f.cls is None and f.name == "fetch_active_workspace")
                    res.inst(f"{fn.qualname}:{n.lineno} reads {unparse(n)}", ok=ok)
                    if not ok:
                        res.find(fn.cls.name if fn.cls else fn.module.short, fn.prop or fn.name, f"access to {unparse(n)}",
                                 f"{fn.module.relpath}:{n.lineno}", "raw handle of a workspace accessed from outside the gateway")
        # raw-handle *use* (call / subscript through self._geoh5) in Workspace
        if fn.cls is not None and ws in fn.cls.mro:
            member = fn.prop or fn.name
            for n in ast.walk(fn.node):
                base = None
                if isinstance(n, ast.Subscript):
                    base = n.value
                elif isinstance(n, ast.Call) and isinstance(n.func, ast.Attribute):
                    base = n.func.value
                if isinstance(base, ast.Attribute) and base.attr == "_geoh5" and isinstance(base.value, ast.Name) and base.value.id == fn.self_name:
                    ok = via(fn, ws_member(geoh5_use_ok))
                    res.inst(f"Workspace.{member}:{n.lineno} uses raw handle {unparse(n)[:40]}", ok=ok)
                    if not ok:
                        res.find("Workspace", member, f"raw handle use {unparse(n)[:40]}", f"{fn.module.relpath}:{n.lineno}",
                                 "self._geoh5 used directly instead of the raising property / _io_call")
    res.notes.append(f"{n_scanned} AST nodes scanned; matcher hit {pos} mutation sites inside io/h5_writer.py (positive control)")
    if pos < 30:
        raise AnalysisError(f"C10.WHO: matcher found only {pos} mutation sites in the writer (floor 30): matcher broken")
    return res


def _open_file_sites(ctx, fn, bindings, in_handler, stack, out):
    """Every h5py.File(...) call that Workspace.open runs — in its own body or in a private helper (followed through the
    helper's parameters): (function, call, sources of the mode argument, runs as part of an except-handler?)."""
    p = ctx.p
    handler = set()
    for n in ast.walk(fn.node):
        if isinstance(n, ast.ExceptHandler):
            for b in n.body:
                handler |= set(ast.walk(b))
    for c in ast.walk(fn.node):
        if not isinstance(c, ast.Call):
            continue
        h = in_handler or c in handler
        if _is_h5py_file(p, fn, c):
            arg = c.args[1] if len(c.args) > 1 else next((kw.value for kw in c.keywords if kw.arg == "mode"), None)
            srcs = mode_sources(ctx, fn, arg, bindings) if arg is not None else {"?<default>"}
            out.append((fn, c, arg, srcs, h))
            continue
        t = callee_of(p, fn, c)
        if t is not None and all(t.node is not s.node for s in stack) and len(stack) < 6:
            b = {prm: mode_sources(ctx, fn, arg, bindings) for prm, arg in bind_args(fn, c, t).items()}
            _open_file_sites(ctx, t, b, h, stack + (t,), out)
    return out


def _caller_sources(ctx, fn, e, _depth=0) -> set:
    """Sources of a mode expression; parameters of a private helper are followed to the helper's call sites."""
    if not is_private_helper(fn) or _depth > 4:
        return mode_sources(ctx, fn, e)
    p = ctx.p
    sites = []
    for r in entry_roots(ctx, fn, stop=lambda f: f.node is not fn.node):
        if r is TOPLEVEL:
            return mode_sources(ctx, fn, e) | {"?referenced at module level"}
        if r.node is fn.node:
            continue
        for c in ast.walk(r.node):
            if isinstance(c, ast.Call):
                t = callee_of(p, r, c)
                if t is not None and t.node is fn.node:
                    sites.append((r, c))
    if not sites:
        return mode_sources(ctx, fn, e)
    out = set()
    for r, c in sites:
        b = {prm: _caller_sources(ctx, r, arg, _depth + 1) for prm, arg in bind_args(r, c, fn).items()}
        out |= mode_sources(ctx, fn, e, b)
    return out


def rule_open(ctx) -> RuleResult:
    res = RuleResult(
        "C10.OPEN",
        "C10",
        "Workspace.open passes to h5py.File only its own mode argument/_mode or the constant 'r' (fallback never upgrades); "
        "library helpers that open a workspace on the reader's behalf pass mode 'r' or rely on a default that is 'r'",
        floor=5,
    )
    p = ctx.p
    op = p.func("Workspace.open")
    files = _open_file_sites(ctx, op, None, False, (op,), [])
    if len(files) < 1:
        raise AnalysisError("Workspace.open: h5py.File call not found")
    own_mode = {"<arg:open:mode>", "self._mode", "self.mode", "'r'"}
    for fn, c, a, srcs, in_handler in files:
        txt = unparse(a)
        if in_handler:
            ok = srcs == {"'r'"}
            res.inst(f"Workspace.open fallback h5py.File(..., {txt})", nontrivial=True, ok=ok)
            if not ok:
                res.find("Workspace", "open", f"fallback opens with {txt}", f"{fn.module.relpath}:{c.lineno}",
                         "the OSError fallback must be read-only; anything else silently upgrades the handle")
        else:
            ok = srcs <= own_mode
            res.inst(f"Workspace.open h5py.File(..., {txt}) with mode sources {sorted(srcs)}", nontrivial=True, ok=ok)
            if not ok:
                res.find("Workspace", "open", f"opens with {txt}", f"{fn.module.relpath}:{c.lineno}",
                         "open() chooses a mode that is neither its argument nor the workspace's configured mode")
    # default of fetch_active_workspace / fetch_h5_handle / _io_call
    for spec in ("shared/utils.py:fetch_active_workspace", "shared/utils.py:fetch_h5_handle", "Workspace._io_call"):
        fn = p.func(spec)
        d = _default_of(p, fn, "mode")
        ok = d == "'r'"
        res.inst(f"{fn.qualname}: default mode {d}", ok=ok)
        if not ok:
            res.find(fn.cls.name if fn.cls else "utils", fn.name, f"default mode {d}", fn.where,
                     "callers relying on the default now get a writable handle")
    # helper open sites outside workspace.py / the writer
    ws = p.cls("Workspace")
    wmod = p.module("io/h5_writer.py")
    for fn in p.all_functions():
        if fn.module in (ws.module, wmod):
            continue
        for n in ast.walk(fn.node):
            if not isinstance(n, ast.Call):
                continue
            kind = None
            ch = chain(n.func)
            r = p.resolve_expr(fn.module, n.func) if ch else None
            if r and r[0] == "class" and r[1] is ws:
                kind = "Workspace("
            elif ch and ch[-1] == "fetch_active_workspace":
                kind = "fetch_active_workspace("
            elif isinstance(n.func, ast.Attribute) and n.func.attr == "open" and not (ch and ch[0] in ("Image", "os", "io")) and not _is_builtin_open(n):
                if any(kw.arg == "mode" for kw in n.keywords) or not n.args:
                    kind = ".open("
            if kind is None:
                continue
            mode = None
            for kw in n.keywords:
                if kw.arg == "mode":
                    mode = kw.value
            if kind == "fetch_active_workspace(" and len(n.args) > 1:
                mode = n.args[1]
            cv = const_value(p, fn, mode) if mode is not None else None
            txt = (repr(cv.value) if cv is not None else unparse(mode)) if mode is not None else "<default>"
            ok = mode is None or txt == "'r'"
            if not ok and cv is None:
                # fetch_active_workspace (or a private helper entered only from it) re-opens with the mode it was asked for
                srcs = _caller_sources(ctx, fn, mode)
                ok = srcs <= {"'r'", "<arg:fetch_active_workspace:mode>"} and \
                    entered_only_through(ctx, fn, lambda f: f.cls is None and f.name == "fetch_active_workspace")
            if kind == "Workspace(" and mode is None:
                # constructing a workspace with the default mode on behalf of a reader
                ok = not any(x is not TOPLEVEL and x.name == "path2workspace" for x in entry_roots(ctx, fn))
            if kind in (".open(", "Workspace(") and mode is None and ok and _was_given_a_mode(ctx, fn):
                # the caller asked for a mode (parameter mode=): opening with the workspace's own default loses the request
                ok = False
                txt = "<default although a mode was requested>"
            res.inst(f"{fn.qualname}:{n.lineno} {kind} mode={txt}", ok=ok)
            if not ok:
                res.find(fn.cls.name if fn.cls else fn.module.short, fn.prop or fn.name, f"{kind} mode={txt}",
                         f"{fn.module.relpath}:{n.lineno}", "a reading helper opens the user's file with a mode other than 'r'")
    return res


def _was_given_a_mode(ctx, fn) -> bool:
    """`fn` (or, for a private helper, every function through which it is entered) takes a parameter mode=."""

    def has_mode(f):
        a = f.node.args
        return "mode" in [x.arg for x in a.posonlyargs + a.args + a.kwonlyargs]

    if has_mode(fn):
        return True
    if not is_private_helper(fn):
        return False
    roots = entry_roots(ctx, fn, stop=has_mode)
    return bool(roots) and all(r is not TOPLEVEL and has_mode(r) for r in roots)


def _is_builtin_open(call) -> bool:
    return isinstance(call.func, ast.Name)


def _default_of(p, fn, name):
    """Text of the default of parameter `name` (a hoisted constant is shown by its value)."""
    a = fn.node.args
    pos = a.posonlyargs + a.args
    defaults = [None] * (len(pos) - len(a.defaults)) + list(a.defaults)
    for arg, d in list(zip(pos, defaults)) + list(zip(a.kwonlyargs, a.kw_defaults)):
        if arg.arg == name:
            if d is None:
                return None
            c = d if isinstance(d, ast.Constant) else (_module_const(p, fn, d))
            return unparse(c if c is not None else d)
    return None


def _module_const(p, fn, e):
    """Module-level constant named by a default value (defaults are evaluated in the module's scope)."""
    if isinstance(e, ast.Name):
        r = p.resolve_name(fn.module, e.id)
        if r and r[0] == "assign" and isinstance(r[1][1], ast.Constant):
            return r[1][1]
    return None


def _reader_taint(node, seeds, ret_handles) -> set:
    """Names of a reader method that denote the file handle or a node of it: the seeds (handle parameters),
    `with fetch_h5_handle(<handle>) as h5file`, and everything subscripted / .get() from them."""
    tainted = set(seeds)
    changed = True
    while changed:
        changed = False
        for n in ast.walk(node):
            if isinstance(n, (ast.With,)):
                for it in n.items:
                    if it.optional_vars is not None and isinstance(it.optional_vars, ast.Name) and _mentions(it.context_expr, tainted):
                        if it.optional_vars.id not in tainted:
                            tainted.add(it.optional_vars.id)
                            changed = True
            if isinstance(n, (ast.Assign, ast.AnnAssign)) and n.value is not None:
                tgs = n.targets if isinstance(n, ast.Assign) else [n.target]
                for t in tgs:
                    if isinstance(t, ast.Name) and t.id not in tainted and _handle_expr(n.value, tainted, ret_handles):
                        tainted.add(t.id)
                        changed = True
            if isinstance(n, (ast.For, ast.comprehension)):
                # children of a group: `for child in handle.values()` / `for key, child in handle.items()`
                it = n.iter
                if isinstance(it, ast.Call) and isinstance(it.func, ast.Attribute) and it.func.attr in ("values", "items") \
                        and _handle_expr(it.func.value, tainted, ret_handles):
                    tg = n.target
                    if it.func.attr == "items" and isinstance(tg, ast.Tuple) and len(tg.elts) == 2:
                        tg = tg.elts[1]
                    for x in ast.walk(tg):
                        if isinstance(x, ast.Name) and x.id not in tainted:
                            tainted.add(x.id)
                            changed = True
    return tainted


def _reader_mutations(node, tainted, ret_handles) -> list:
    bad = []
    for n in ast.walk(node):
        if isinstance(n, (ast.Assign, ast.AugAssign, ast.Delete)):
            tg = n.targets if not isinstance(n, ast.AugAssign) else [n.target]
            for t in tg:
                if isinstance(t, ast.Subscript) and _handle_expr(t.value, tainted, ret_handles):
                    bad.append((n, f"store/delete {unparse(t)[:40]}"))
        if isinstance(n, ast.Call) and isinstance(n.func, ast.Attribute) and n.func.attr in (H5_MUTATORS | {"move", "copy", "clear", "pop", "update"}):
            if _handle_expr(n.func.value, tainted, ret_handles) or (
                isinstance(n.func.value, ast.Attribute) and n.func.value.attr == "attrs" and _handle_expr(n.func.value.value, tainted, ret_handles)
            ):
                bad.append((n, f"mutating call {unparse(n.func)[:40]}"))
    return bad


def rule_reader(ctx) -> RuleResult:
    res = RuleResult(
        "C10.READER",
        "C10",
        "H5Reader performs no store / delete / mutating call on a name derived from the file handle",
        floor=15,
    )
    p = ctx.p
    R = p.cls("H5Reader")
    methods = dict(R.methods)

    def own_params(fn):
        params = fn.params
        if fn.kind in ("classmethod", "method") and params:
            params = params[1:]
        return params

    # which parameters are handles: the first one of every public method (`file` / a group handle); for a private helper
    # that is called only inside the reader, the parameters that receive a handle at some call site (an array read with
    # [:] / [()] and handed to a helper for decoding is a copy in memory, not a node of the file)
    seeds = {}
    by_call = set()
    for name, fn in methods.items():
        params = own_params(fn)
        users = [r for r in entry_roots(ctx, fn, stop=lambda f, fn=fn: f.node is not fn.node) if r is TOPLEVEL or r.node is not fn.node]
        internal = is_private_helper(fn) and bool(users) and all(r is not TOPLEVEL and r.cls is R for r in users)
        if internal:
            by_call.add(name)
            seeds[name] = set()
        else:
            seeds[name] = set(params[:1])
    views = {name: ctx.view(fn) for name, fn in methods.items()}
    taint = {}
    ret_handles: set = set()
    for _round in range(8):
        changed = False
        for name, fn in methods.items():
            t = _reader_taint(views[name].node, seeds[name], ret_handles) | _reader_taint(fn.node, seeds[name], ret_handles)
            if t != taint.get(name):
                taint[name] = t
                changed = True
            if name in by_call and name not in ret_handles:
                if any(isinstance(r, ast.Return) and r.value is not None and _handle_expr(r.value, t, ret_handles) for r in ast.walk(fn.node)):
                    ret_handles.add(name)
                    changed = True
        for name, fn in methods.items():
            for c in ast.walk(fn.node):
                if not isinstance(c, ast.Call):
                    continue
                t = callee_of(p, fn, c)
                if t is None or t.cls is not R or t.name not in by_call:
                    continue
                for prm, arg in bind_args(fn, c, t).items():
                    if prm not in seeds[t.name] and prm in own_params(t) and _handle_expr(arg, taint[name], ret_handles):
                        seeds[t.name].add(prm)
                        changed = True
        if not changed:
            break
    for name, fn in methods.items():
        tainted = taint[name]
        bad = {}
        for node in (fn.node, views[name].node):
            for n, what in _reader_mutations(node, tainted, ret_handles):
                bad.setdefault((n.lineno, what), (n, what))
        shown = sorted(x for x in tainted if "__i" not in x)
        res.inst(f"H5Reader.{name}: handle names {shown}", nontrivial=bool(tainted), ok=not bad)
        for n, what in bad.values():
            res.find("H5Reader", name, what, f"{fn.module.relpath}:{n.lineno}",
                     "the reader mutates a node of the file it was asked to read")
    return res


def _mentions(expr, names) -> bool:
    return any(isinstance(n, ast.Name) and n.id in names for n in ast.walk(expr))


def _handle_expr(e, tainted, ret_handles=None) -> bool:
    """Name / subscript / .get() / attribute chain rooted at a tainted name,
    without materialisation ([:] / [()] slices are arrays, not handles).
    `ret_handles`: names of private helpers that return a node of the handle they are given."""
    while True:
        if isinstance(e, ast.Name):
            return e.id in tainted
        if isinstance(e, ast.Subscript):
            s = e.slice
            if isinstance(s, ast.Slice) or (isinstance(s, ast.Tuple) and not s.elts):
                return False
            e = e.value
        elif isinstance(e, ast.Call) and isinstance(e.func, ast.Attribute) and e.func.attr == "get":
            e = e.func.value
        elif isinstance(e, ast.Attribute) and e.attr in ("attrs", "parent", "file"):
            e = e.value
        elif ret_handles and isinstance(e, ast.Call) and (e.func.attr if isinstance(e.func, ast.Attribute) else getattr(e.func, "id", None)) in ret_handles:
            return any(_handle_expr(a, tainted, ret_handles) for a in list(e.args) + [k.value for k in e.keywords])
        else:
            return False


_EXTERNAL_EFFECTS = {
    "subprocess.run", "subprocess.call", "subprocess.check_call", "subprocess.check_output", "subprocess.Popen",
    "shutil.move", "shutil.copy", "shutil.copyfile", "shutil.copy2", "os.replace", "os.remove", "os.rename", "os.unlink", "os.system",
}


def _close_effect(p, fn, n) -> bool:
    """A call by which Workspace.close changes the file: a save through the gateway, or the h5repack rewrite."""
    if not isinstance(n, ast.Call):
        return False
    f = unparse(n.func)
    r = p.resolve_expr(fn.module, n.func) if chain(n.func) else None
    if (r and r[0] == "external" and r[1] in _EXTERNAL_EFFECTS) or f in _EXTERNAL_EFFECTS or f.endswith(".unlink"):
        return True
    if isinstance(n.func, ast.Attribute) and n.func.attr in ("_io_call", "update_attribute"):
        if n.func.attr == "_io_call" and n.args:
            ch = chain(n.args[0])
            rr = p.resolve_expr(fn.module, n.args[0].value) if ch and isinstance(n.args[0], ast.Attribute) else None
            if rr and rr[0] == "class" and rr[1].name == "H5Reader":
                return False
        return "H5Reader" not in unparse(n)
    return False


def _close_effects(p, raw, cl, paths) -> list:
    """(CFG node, call) for everything the (normalised) Workspace.close does to the file besides closing the handle."""
    helpers_with_effects = {}

    def is_effect(n) -> bool:
        if _close_effect(p, cl, n):
            return True
        if isinstance(n, ast.Call):
            # a private helper that could not be expanded in place: an effect if its own code (or its helpers') has one
            t = callee_of(p, cl, n)
            if t is not None and t.node is not raw.node:
                key = id(t.node)
                if key not in helpers_with_effects:
                    helpers_with_effects[key] = any(
                        _close_effect(p, h, x) for h in helper_closure(p, t) if h.node is not raw.node for x in ast.walk(h.node)
                    )
                return helpers_with_effects[key]
        return False

    live = paths.g.reachable()
    effects = [(n, e) for n, hits in paths.nodes_with(is_effect) if n in live for e in hits]
    if len(effects) < 2:
        raise AnalysisError("Workspace.close: save / repack effects not found")
    return effects


def rule_repack(ctx) -> RuleResult:
    res = RuleResult(
        "C10.REPACK",
        "C10",
        "everything Workspace.close does to the file besides closing the handle — the final saves and the h5repack "
        "rewrite (subprocess, unlink, move) — is conditional on the handle having been opened writable",
        floor=2,
    )
    p = ctx.p
    raw = p.func("Workspace.close")
    cl = ctx.view(raw)
    # decided on paths: assume the handle was opened 'r'; no effect may then be reachable.  The mode may be read once into
    # a local / an attribute, tested positively (nested ifs) or negatively (guard clauses), in close() or in a private helper.
    paths = Paths(cl, texts=_handle_mode_facts(cl), project=p)
    effects = _close_effects(p, raw, cl, paths)
    reach = paths.reachable()
    for n, e in effects:
        ok = n not in reach
        res.inst(f"Workspace.close:{e.lineno} {unparse(e.func)}(...) only when the handle is writable", nontrivial=True, ok=ok)
        if not ok:
            res.find("Workspace", "close", f"{unparse(e.func)}(...) runs whatever the mode of the handle", f"{cl.module.relpath}:{e.lineno}",
                     "closing a workspace that was opened read-only rewrites the file (a pending repack flag, set in memory by a refused edit "
                     "of a concatenated entity, is enough): the bytes of a file opened 'r' change")
    return res


def asked_mode_facts(ctx) -> dict:
    """What Workspace.open remembers of the mode the workspace was ASKED for, as facts that hold after open() was asked
    for 'r' (explicitly, or by default from a constructor mode 'r'): {"self.<attribute>": value}.  An attribute counts when
    open() stores into it, on every path that binds a handle, a value that is determined by the requested mode, and
    nothing but open() / __init__ (and their private helpers) ever stores into it."""
    p = ctx.p
    raw = p.func("Workspace.open")
    fn = ctx.view(raw)
    s = fn.self_name
    a = raw.node.args
    if "mode" not in [x.arg for x in a.posonlyargs + a.args + a.kwonlyargs]:
        raise AnalysisError("Workspace.open: the parameter mode= was not found")
    ws = p.cls("Workspace")
    runs = []
    for init, texts in (({"mode": "r"}, {}), ({"mode": None}, {f"{s}._mode": "r"})):
        texts = dict(texts)
        texts[f"{s}._geoh5"] = FALSY  # not opened yet
        paths = Paths(fn, texts=texts, project=p)
        seen: dict = {}
        where: dict = {}

        def observe(n, env, paths=paths, seen=seen, where=where):
            st = n.ast
            if n.kind != "stmt" or not isinstance(st, (ast.Assign, ast.AnnAssign)) or st.value is None:
                return
            tgs = st.targets if isinstance(st, ast.Assign) else [st.target]
            for t in tgs:
                if _self_attr(fn, t, t.attr if isinstance(t, ast.Attribute) else ""):
                    v = paths.value(st.value, env)
                    seen.setdefault(t.attr, []).append(v)
                    where.setdefault(t.attr, set()).add(n.id)

        paths.reachable(init_env=init, observe=observe)
        facts = {}
        for attr, vals in seen.items():
            v0 = vals[0]
            if isinstance(v0, list) or not (v0 is None or isinstance(v0, (str, bool, int))):
                continue
            if any(type(v) is not type(v0) or v != v0 for v in vals):
                continue
            # every path that leaves open() normally (having bound a handle) passed the store
            if paths.g.exit in paths.reachable(avoid=where[attr], init_env=init):
                continue
            facts[attr] = v0
        runs.append(facts)
    common = {k: v for k, v in runs[0].items() if k in runs[1] and runs[1][k] == v and type(runs[1][k]) is type(v)}

    def own(f):
        return f.cls is not None and ws in f.cls.mro and (f.prop or f.name) in ("open", "__init__")

    out = {}
    for attr, v in common.items():
        foreign = False
        for f in p.all_functions(scope_only=False):
            for x in ast.walk(f.node):
                if isinstance(x, ast.Attribute) and x.attr == attr and not isinstance(x.ctx, ast.Load):
                    if not entered_only_through(ctx, f, own):
                        foreign = True
                elif isinstance(x, ast.Call) and isinstance(x.func, ast.Name) and x.func.id == "setattr" and len(x.args) >= 2 \
                        and isinstance(x.args[1], ast.Constant) and x.args[1].value == attr and not entered_only_through(ctx, f, own):
                    foreign = True
        if not foreign:
            out[attr] = v
    return out


def rule_asked(ctx) -> RuleResult:
    res = RuleResult(
        "C10.ASKED",
        "C10",
        "a workspace ASKED for mode 'r' is read-only whatever its HDF5 handle reports (a handle shared with another session of "
        "the same process on the same file reports that session's mode, e.g. 'r+'): Workspace.open remembers the requested mode, "
        "and with that memory alone the gateway refuses every writer function and Workspace.close flushes / repacks nothing",
        floor=2,
    )
    p = ctx.p
    facts = asked_mode_facts(ctx)
    shown = {f"self.{k}": v for k, v in sorted(facts.items())}
    res.inst(f"Workspace.open remembers the requested mode in {shown or 'nothing'}", nontrivial=True, ok=True)
    # the gateway
    raw = p.func("Workspace._io_call")
    io = ctx.view(raw)
    fun = raw.params[1] if len(raw.params) > 1 else None
    base = Paths(io, project=p)
    live = base.g.reachable()
    calls = [n for n, _h in base.nodes_with(lambda x: isinstance(x, ast.Call) and isinstance(x.func, ast.Name) and base.text(x.func) == fun) if n in live]
    if not calls:
        raise AnalysisError("Workspace._io_call: the call fun(...) was not found")
    used_modes = sorted({m for (_, _, _, m, k) in gate_sites(ctx) if k == "io_call" and m in WRITABLE} | {"r+", "a"})
    s = io.self_name
    leaks = []
    for m in used_modes:
        if not facts:
            leaks.append(m)
            continue
        pm = Paths(io, texts={f"{s}.{k}": v for k, v in facts.items()}, names={"mode": m}, project=p)
        ids = {n.id for n in pm.reachable()}
        if any(c.id in ids for c in calls):
            leaks.append(m)
    ok = not leaks
    res.inst(f"_io_call: asked for 'r', the call of a function needing {used_modes} is unreachable whatever the handle's mode", nontrivial=True, ok=ok)
    if not ok:
        res.find("Workspace", "_io_call", "a workspace asked for mode 'r' accepts writes when its handle reports another mode",
                 f"{raw.module.relpath}:{calls[0].lineno}",
                 "the guard consults only the mode reported by the h5py handle; when the file is already open 'r+' elsewhere in the "
                 "process HDF5 shares the file object and the handle of a mode='r' workspace reports 'r+': setters, creations and "
                 "removals through the read-only workspace reach the file")
    # close
    rawc = p.func("Workspace.close")
    cl = ctx.view(rawc)
    sc = cl.self_name
    pc = Paths(cl, texts={f"{sc}.{k}": v for k, v in facts.items()}, project=p)
    effects = _close_effects(p, rawc, cl, pc)
    reach = pc.reachable() if facts else pc.g.reachable()
    through = [(n, e) for n, e in effects if n in reach]
    ok = not through
    res.inst(f"Workspace.close: asked for 'r', none of its {len(effects)} saves / repack steps is reachable whatever the handle's mode", nontrivial=True, ok=ok)
    if not ok:
        res.find("Workspace", "close", "a workspace asked for mode 'r' is flushed / repacked at close when its handle reports another mode",
                 f"{rawc.module.relpath}:{through[0][1].lineno}",
                 "close() decides by the mode reported by the h5py handle only; with a handle shared in-process (file open 'r+' "
                 "elsewhere) a workspace opened with mode='r' — e.g. by path2workspace — saves its root and may repack the file")
    return res


def _is_gateway_write(ctx, fn, call) -> bool:
    """`call` is self._io_call(H5Writer.<member>, ..., mode='r+'|'a') (or a thin wrapper around it): refused on a read-only handle."""
    if not (isinstance(call, ast.Call) and call.args and isinstance(call.args[0], ast.Attribute)):
        return False
    r = ctx.p.resolve_expr(fn.module, call.args[0].value) if chain(call.args[0].value) else None
    if not (r and r[0] == "class" and r[1] is _writer_class(ctx)):
        return False
    if _gateway_call(fn, call):
        mode, dyn = _mode_of(ctx, fn, call)
        return not dyn and mode in ("r+", "a")
    fw = _forwarder_modes(ctx, fn, call)
    return bool(fw) and all(m in ("r+", "a") for m in fw)


def _refusing_nodes(ctx, fn, paths, _stack=()) -> set:
    """ids of the CFG nodes of `fn` that cannot complete normally while the handle is read-only: gateway writes, and calls to
    private helpers (left unexpanded by the normaliser) that cannot return normally themselves."""
    p = ctx.p

    def refuses(x):
        if _is_gateway_write(ctx, fn, x):
            return True
        if isinstance(x, ast.Call) and len(_stack) < 4:
            t = callee_of(p, fn, x)
            if t is not None and t.cls is fn.cls and t.kind == "method" and all(t.node is not s for s in _stack) and t.node is not fn.node:
                tv = ctx.view(t)
                tp = Paths(tv, texts=_handle_mode_facts(tv), project=p)
                return tp.g.exit not in tp.reachable(avoid=_refusing_nodes(ctx, tv, tp, _stack + (fn.node,)) or {-1})
        return False

    return {n.id for n, _hits in paths.nodes_with(refuses)}


def rule_funnel(ctx) -> RuleResult:
    res = RuleResult(
        "C10.FUNNEL",
        "C10",
        "Workspace.update_attribute — the funnel of every attribute setter of every entity — cannot return normally for an "
        "entity that is on file while the handle is read-only: each of its paths (file-backed or staged in memory by the "
        "concatenator and flushed at close) passes a write through the guarded gateway",
        floor=1,
    )
    p = ctx.p
    raw = p.func("Workspace.update_attribute")
    fn = ctx.view(raw)
    params = raw.params[1:]
    if not params:
        raise AnalysisError("Workspace.update_attribute: the entity parameter was not found")
    entity = params[0]
    facts = dict(_handle_mode_facts(fn))
    facts[f"{entity}.on_file"] = TRUTHY
    paths = Paths(fn, texts=facts, project=p)
    refusing = _refusing_nodes(ctx, fn, paths)
    if not refusing:
        raise AnalysisError("Workspace.update_attribute: no write through the gateway found")
    reach = paths.reachable(avoid=refusing)
    ok = paths.g.exit not in reach
    res.inst(f"Workspace.update_attribute: {len(refusing)} gateway write(s); with a read-only handle no path of an on-file entity reaches the normal exit",
             nontrivial=True, ok=ok)
    if not ok:
        # name the last statement of a path that gets through
        through = [n for n in reach if n.kind in ("stmt", "return") and n.id not in refusing and any(m is paths.g.exit or m.kind == "return" for m, _ in n.succ)]
        line = min([n.lineno for n in through if n.lineno] or [raw.node.lineno])
        res.find("Workspace", "update_attribute", "a path returns normally on a read-only handle without passing the gateway",
                 f"{raw.module.relpath}:{line}",
                 "an attribute setter on an entity of a workspace opened 'r' is accepted silently (the edit stays in memory, "
                 "e.g. staged by the concatenator, and is lost at close) instead of failing with an error")
    return res


def _handle_is_open_hook(fn):
    """Facts for "the workspace is currently opened": isinstance(self._geoh5, <h5py.File>) holds."""
    s = fn.self_name

    def hook(e, paths):
        if isinstance(e, ast.Call) and isinstance(e.func, ast.Name) and e.func.id == "isinstance" and len(e.args) == 2 and not e.keywords:
            if paths.text(e.args[0]) == f"{s}._geoh5":
                types = e.args[1].elts if isinstance(e.args[1], ast.Tuple) else [e.args[1]]
                for t in types:
                    ch = chain(t)
                    r = paths.p.resolve_expr(fn.module, t) if ch else None
                    if (r and r[0] == "external" and r[1] == "h5py.File") or (ch and ch[0] == "h5py" and ch[-1] == "File"):
                        return True
        return None

    return hook


def rule_reopen(ctx) -> RuleResult:
    res = RuleResult(
        "C10.REOPEN",
        "C10",
        "Workspace.open on a workspace that is already opened leaves the handle alone: while self._geoh5 is a live h5py.File no "
        "path reaches h5py.File(...), a store to self._geoh5 or self.close() — whatever mode is asked (or defaulted), an opened "
        "read-only handle is never swapped for a writable one",
        floor=1,
    )
    p = ctx.p
    raw = p.func("Workspace.open")
    fn = ctx.view(raw)
    s = fn.self_name
    paths = Paths(fn, texts={f"{s}._geoh5": TRUTHY}, project=p, hook=_handle_is_open_hook(fn))
    swaps_cache = {}

    def own_swap(f, x):
        if _is_h5py_file(p, f, x):
            return "h5py.File("
        if _self_attr(f, x, "_geoh5") and not isinstance(x.ctx, ast.Load):
            return "stores self._geoh5"
        if isinstance(x, ast.Call) and isinstance(x.func, ast.Attribute) and x.func.attr == "close" and isinstance(x.func.value, ast.Name) \
                and x.func.value.id == f.self_name and f.self_name:
            return "self.close()"
        return None

    def swap(x):
        k = own_swap(fn, x)
        if k:
            return k
        if isinstance(x, ast.Call):
            t = callee_of(p, fn, x)
            if t is not None and t.node is not raw.node:
                key = id(t.node)
                if key not in swaps_cache:
                    swaps_cache[key] = next((k2 for h in helper_closure(p, t) if h.node is not raw.node for y in ast.walk(h.node)
                                             for k2 in [own_swap(h, y)] if k2), None)
                return swaps_cache[key]
        return None

    live = paths.g.reachable()
    sites = [(n, x) for n, hits in paths.nodes_with(lambda x: swap(x) is not None) if n in live for x in hits]
    if not sites:
        raise AnalysisError("Workspace.open: the place where the handle is bound was not found")
    reach = paths.reachable()
    for n, x in sites:
        kind = swap(x)
        ok = n not in reach
        res.inst(f"Workspace.open:{n.lineno} {kind} unreachable while the workspace is already opened", nontrivial=True, ok=ok)
        if not ok:
            res.find("Workspace", "open", f"{kind} reachable on an already opened workspace", f"{raw.module.relpath}:{n.lineno}",
                     "open() on an opened workspace replaces (or closes) the live handle: a workspace opened read-only is silently "
                     "re-opened in another mode (e.g. the constructor's default 'r+' when open() is called without argument)")
    return res


def rule_load(ctx) -> RuleResult:
    from .c19 import rule_load as _load

    return _load(ctx, "C10.LOAD", "C10")


RULES = [rule_gate, rule_guard, rule_asked, rule_who, rule_open, rule_reopen, rule_funnel, rule_reader, rule_repack, rule_load]
