"""C10 — read-only workspaces never change the file (single guarded gateway)."""

from __future__ import annotations

import ast

from ..cfg import CFG, dominators
from ..model import AnalysisError, chain, unparse
from ..report import RuleResult

WRITABLE = {"r+", "a", "w", "w-", "x"}
H5_MUTATORS = {"create_group", "create_dataset", "require_group", "require_dataset", "create_virtual_dataset"}
ATTRS_MUTATORS = {"create", "modify"}


def _writer_class(ctx):
    return ctx.p.cls("H5Writer")


def _refs_to(ctx, target_cls):
    """All Name/Attribute expressions outside the writer module that resolve to
    the class `target_cls` (through any import alias)."""
    p = ctx.p
    out = []
    for fn in p.all_functions():
        if fn.module is target_cls.module:
            continue
        parents = {}
        for n in ast.walk(fn.node):
            for c in ast.iter_child_nodes(n):
                parents[c] = n
        for n in ast.walk(fn.node):
            if isinstance(n, (ast.Name, ast.Attribute)):
                par = parents.get(n)
                if isinstance(par, ast.Attribute) and par.value is n and isinstance(n, ast.Attribute):
                    pass
                r = p.resolve_expr(fn.module, n)
                if r and r[0] == "class" and r[1] is target_cls:
                    out.append((fn, n, parents))
    return out


def gate_sites(ctx):
    """(fn, call, writer function name, mode constant|None, kind) for every
    reference to an H5Writer member outside io/h5_writer.py."""
    W = _writer_class(ctx)
    sites = []
    for fn, ref, parents in _refs_to(ctx, W):
        par = parents.get(ref)
        if not (isinstance(par, ast.Attribute) and par.value is ref):
            sites.append((fn, ref, None, None, "bare-reference"))
            continue
        member = par.attr
        gp = parents.get(par)
        if isinstance(gp, ast.Call) and gp.args and gp.args[0] is par:
            f = gp.func
            if (
                isinstance(f, ast.Attribute)
                and f.attr == "_io_call"
                and isinstance(f.value, ast.Name)
                and f.value.id == fn.self_name
                and fn.cls is not None
                and fn.cls.name == "Workspace"
            ):
                mode = None
                dyn = False
                for kw in gp.keywords:
                    if kw.arg == "mode":
                        if isinstance(kw.value, ast.Constant):
                            mode = kw.value.value
                        else:
                            dyn = True
                sites.append((fn, gp, member, mode, "dynamic-mode" if dyn else "io_call"))
                continue
        if isinstance(gp, ast.Call) and gp.func is par:
            sites.append((fn, gp, member, None, "direct-call"))
            continue
        sites.append((fn, par, member, None, "escaping-reference"))
    return sites


def rule_gate(ctx) -> RuleResult:
    res = RuleResult(
        "C10.GATE",
        "C10",
        "every reference to an H5Writer function outside io/h5_writer.py is the first argument of "
        "Workspace._io_call(..., mode=<'r+'|'a'>), so the read-only guard sees every write",
        floor=11,
    )
    for fn, node, member, mode, kind in gate_sites(ctx):
        where = f"{fn.module.relpath}:{node.lineno}"
        inst = f"{fn.qualname}:{node.lineno} H5Writer.{member} [{kind}] mode={mode!r}"
        if kind == "io_call" and mode in ("r+", "a"):
            res.inst(inst, ok=True)
            continue
        if kind == "direct-call" and member == "init_geoh5" and _fresh_bytesio_exception(fn, node):
            res.inst(inst + " (named exception: fresh in-memory BytesIO file created two statements above)", nontrivial=True)
            res.notes.append(f"{where}: direct H5Writer.init_geoh5 on the fresh BytesIO file — accepted exception")
            continue
        res.inst(inst, ok=False)
        if kind == "io_call":
            msg = (
                f"writer function H5Writer.{member} goes through _io_call with mode={mode!r}: "
                "the read-only guard only fires for mode 'r+'/'a', so this write reaches a file opened 'r'"
                if mode is not None
                else f"writer function H5Writer.{member} goes through _io_call without mode= (defaults to 'r'): the guard never fires"
            )
        elif kind == "dynamic-mode":
            msg = f"H5Writer.{member} through _io_call with a non-constant mode"
        elif kind == "direct-call":
            msg = f"H5Writer.{member} is called directly, bypassing Workspace._io_call and its read-only guard"
        else:
            msg = f"H5Writer{('.' + member) if member else ''} escapes as a value ({kind}); writes through it are not guarded"
        res.find(fn.cls.name if fn.cls else fn.module.short, fn.prop or fn.name,
                 f"H5Writer.{member} {kind} mode={mode!r}", where, msg)
    return res


def _fresh_bytesio_exception(fn, call) -> bool:
    """The call sits in Workspace.h5file's setter, in a block that first binds
    self._h5file = BytesIO() and self._geoh5 = h5py.File(self.h5file, 'a')."""
    if not (fn.cls and fn.cls.name == "Workspace" and fn.kind == "setter" and fn.prop == "h5file"):
        return False
    for n in ast.walk(fn.node):
        if isinstance(n, ast.If):
            texts = [unparse(s) for s in n.body]
            if any(call in list(ast.walk(s)) for s in n.body):
                a = [i for i, t in enumerate(texts) if t == "self._h5file = BytesIO()"]
                b = [i for i, t in enumerate(texts) if t.startswith("self._geoh5 = h5py.File(self.h5file,")]
                c = [i for i, s in enumerate(n.body) if call in list(ast.walk(s))]
                return bool(a and b and c and a[0] < b[0] < c[0])
    return False


def rule_guard(ctx) -> RuleResult:
    res = RuleResult(
        "C10.GUARD",
        "C10",
        "in Workspace._io_call the test `mode in [...] and self.geoh5.mode == 'r'` with its raise dominates "
        "the call fun(self.geoh5, ...); the mode list covers every mode constant used at the gateway sites; "
        "Workspace.geoh5 raises when the handle is closed",
        floor=3,
    )
    p = ctx.p
    io = p.func("Workspace._io_call")
    fun = io.params[1]
    g = CFG(io.node)
    dom = dominators(g)
    calls = [
        n for n in g.nodes
        if n.ast is not None and not isinstance(n.ast, list)
        and any(isinstance(c, ast.Call) and isinstance(c.func, ast.Name) and c.func.id == fun for c in ast.walk(n.ast))
    ]
    calls = [c for c in calls if c in dom]  # reachable ones
    if not calls:
        raise AnalysisError("Workspace._io_call: the call fun(...) was not found")
    used_modes = {m for (_, _, _, m, k) in gate_sites(ctx) if k == "io_call" and m}
    for c in calls:
        call = next(x for x in ast.walk(c.ast) if isinstance(x, ast.Call) and isinstance(x.func, ast.Name) and x.func.id == fun)
        first = unparse(call.args[0]) if call.args else ""
        ok_handle = first == "self.geoh5"
        res.inst(f"_io_call: {unparse(call)[:50]} passes the raising property self.geoh5", ok=ok_handle)
        if not ok_handle:
            res.find("Workspace", "_io_call", f"fun called with {first}", f"{io.module.relpath}:{c.lineno}",
                     "the writer/reader receives something else than the raising property self.geoh5")
        guards = []
        for t in dom[c]:
            if t.kind != "test":
                continue
            modes = _guard_modes(t.ast)
            if modes is None:
                continue
            # the true edge must only lead to raise; the call must be reached through the false edge
            true_succ = [m for m, lab in t.succ if lab == "true"]
            from ..cfg import find_path

            leaks = any(find_path(g, s, lambda n, c=c: n is c) or s is c for s in true_succ)
            raises = all(_only_raises(g, s) for s in true_succ)
            if not leaks and raises:
                guards.append((t, modes))
        ok = bool(guards) and all(used_modes <= set(m) for _, m in guards[:1])
        res.inst(f"_io_call: read-only guard dominates {unparse(call)[:40]}; guard modes {guards[0][1] if guards else None} ⊇ used {sorted(used_modes)}",
                 nontrivial=True, ok=ok)
        if not guards:
            res.find("Workspace", "_io_call", "read-only guard does not dominate fun(...)", f"{io.module.relpath}:{c.lineno}",
                     "no test of the form `mode in [...] and self.geoh5.mode == 'r'` -> raise dominates the call to the "
                     "writer: a write can reach a file opened read-only")
        elif not ok:
            res.find("Workspace", "_io_call", f"guard modes {guards[0][1]} miss {sorted(used_modes - set(guards[0][1]))}",
                     f"{io.module.relpath}:{guards[0][0].lineno}",
                     "a mode constant used at a gateway site is not in the guard's list, so that write is not refused")
    # raising property
    gp = p.func("Workspace.geoh5")
    gg = CFG(gp.node)
    dd = dominators(gg)
    rets = [n for n in gg.nodes if n.kind == "return"]
    ok = bool(rets)
    for r in rets:
        has = False
        for t in dd[r]:
            if t.kind == "test" and unparse(t.ast) == "not self._geoh5":
                ts = [m for m, lab in t.succ if lab == "true"]
                if all(_only_raises(gg, s) for s in ts):
                    has = True
        ok = ok and has
    res.inst("Workspace.geoh5: `if not self._geoh5: raise` dominates the return", nontrivial=True, ok=ok)
    if not ok:
        res.find("Workspace", "geoh5", "closed-file raise does not dominate return", gp.where,
                 "the handle property can hand out a closed/False handle")
    return res


def _guard_modes(test):
    if not (isinstance(test, ast.BoolOp) and isinstance(test.op, ast.And)):
        return None
    modes = None
    ro = False
    for v in test.values:
        if isinstance(v, ast.Compare) and len(v.ops) == 1:
            if isinstance(v.ops[0], ast.In) and unparse(v.left) == "mode" and isinstance(v.comparators[0], (ast.List, ast.Tuple, ast.Set)):
                modes = [e.value for e in v.comparators[0].elts if isinstance(e, ast.Constant)]
            if isinstance(v.ops[0], ast.Eq) and unparse(v.left) in ("self.geoh5.mode", "self._geoh5.mode") and unparse(v.comparators[0]) == "'r'":
                ro = True
    return modes if (modes is not None and ro) else None


def _only_raises(g, start) -> bool:
    """Every path from `start` ends in the exceptional exit (or a handler) without reaching the normal exit."""
    seen = set()
    stack = [start]
    while stack:
        n = stack.pop()
        if n in seen:
            continue
        seen.add(n)
        if n is g.exit:
            return False
        if n.kind == "raise":
            continue
        stack.extend(m for m, _ in n.succ)
    return True


def rule_who(ctx) -> RuleResult:
    res = RuleResult(
        "C10.WHO",
        "C10",
        "the h5py mutation API occurs in no module other than io/h5_writer.py; h5py.File( only in Workspace.open, "
        "the h5file setter and fetch_h5_handle; Workspace._geoh5 is stored / used as a raw handle only in the gateway "
        "members; no writable mode constant is passed by any other module",
        floor=6,
    )
    p = ctx.p
    wmod = p.module("io/h5_writer.py")
    ws = p.cls("Workspace")
    file_ok = {"Workspace.open", "Workspace.h5file[setter]", "utils.fetch_h5_handle", "shared.utils.fetch_h5_handle"}
    geoh5_store_ok = {"__init__", "open", "h5file"}
    geoh5_use_ok = {"close", "open", "geoh5", "h5file", "_io_call"}
    n_scanned = 0
    # positive example for the matcher (zero-count rule): the writer itself must match
    pos = 0
    for fn in p.all_functions():
        in_writer = fn.module is wmod
        for n in ast.walk(fn.node):
            n_scanned += 1
            hit = None
            if isinstance(n, ast.Call) and isinstance(n.func, ast.Attribute):
                if n.func.attr in H5_MUTATORS and not (fn.cls and fn.cls.name == "H5Writer" and chain(n.func.value) in (["cls"], ["H5Writer"])):
                    hit = f"h5py mutation API .{n.func.attr}("
                elif n.func.attr in ATTRS_MUTATORS and isinstance(n.func.value, ast.Attribute) and n.func.value.attr == "attrs":
                    hit = f"h5py mutation API .attrs.{n.func.attr}("
            if isinstance(n, (ast.Assign, ast.AugAssign, ast.Delete)):
                tg = n.targets if not isinstance(n, ast.AugAssign) else [n.target]
                for t in tg:
                    if isinstance(t, ast.Subscript) and isinstance(t.value, ast.Attribute) and t.value.attr == "attrs":
                        hit = "store/delete on .attrs[...]"
            if hit:
                if in_writer:
                    pos += 1
                else:
                    res.inst(f"{fn.qualname}:{n.lineno} {hit}", ok=False)
                    res.find(fn.cls.name if fn.cls else fn.module.short, fn.prop or fn.name, hit,
                             f"{fn.module.relpath}:{n.lineno}",
                             f"{hit} outside io/h5_writer.py: a write that does not pass the _io_call guard")
            # h5py.File(
            if isinstance(n, ast.Call):
                ch = chain(n.func)
                if ch and ch[-1] == "File" and (ch[0] == "h5py" or (len(ch) == 1 and p.resolve_name(fn.module, "File") == ("external", "h5py.File"))):
                    qn = fn.qualname
                    ok = qn in file_ok
                    res.inst(f"{qn}:{n.lineno} h5py.File({', '.join(unparse(a) for a in n.args)})", ok=ok)
                    if not ok:
                        res.find(fn.cls.name if fn.cls else fn.module.short, fn.prop or fn.name, "h5py.File( outside the gateway",
                                 f"{fn.module.relpath}:{n.lineno}", "a second place opens HDF5 files; its mode is not governed by Workspace.open")
                # writable mode constants outside workspace.py / h5_writer.py
                if fn.module is not wmod and fn.module is not ws.module:
                    for kw in n.keywords:
                        if kw.arg == "mode" and isinstance(kw.value, ast.Constant) and kw.value.value in WRITABLE:
                            res.inst(f"{fn.qualname}:{n.lineno} mode={kw.value.value!r}", ok=False)
                            res.find(fn.cls.name if fn.cls else fn.module.short, fn.prop or fn.name,
                                     f"{unparse(n.func)}(mode={kw.value.value!r})", f"{fn.module.relpath}:{n.lineno}",
                                     "a library helper requests a writable mode on the caller's workspace")
            # Workspace._mode is bound once, in __init__; open() is never called with a writable constant
            if isinstance(n, ast.Attribute) and n.attr == "_mode" and isinstance(n.ctx, ast.Store) and fn.cls is not None and ws in fn.cls.mro:
                ok = fn.name == "__init__"
                res.inst(f"Workspace.{fn.prop or fn.name}:{n.lineno} stores self._mode", ok=ok)
                if not ok:
                    res.find("Workspace", fn.prop or fn.name, "stores self._mode", f"{fn.module.relpath}:{n.lineno}",
                             "the configured mode of a workspace changes after construction: a later open() may upgrade a read-only workspace")
            if isinstance(n, ast.Call) and isinstance(n.func, ast.Attribute) and n.func.attr == "open" and fn.module is ws.module:
                for a in list(n.args) + [kw.value for kw in n.keywords if kw.arg == "mode"]:
                    if isinstance(a, ast.Constant) and a.value in WRITABLE:
                        res.inst(f"{fn.qualname}:{n.lineno} open({a.value!r})", ok=False)
                        res.find("Workspace", fn.prop or fn.name, f"open({a.value!r})", f"{fn.module.relpath}:{n.lineno}",
                                 "the workspace re-opens itself with a writable constant regardless of the mode it was given")
            # Workspace._geoh5
            if isinstance(n, ast.Attribute) and n.attr == "_geoh5":
                recv_self_ws = isinstance(n.value, ast.Name) and n.value.id == fn.self_name and fn.cls is not None and ws in fn.cls.mro
                foreign = isinstance(n.value, ast.Name) and not (fn.cls is not None and n.value.id == fn.self_name)
                if recv_self_ws:
                    member = fn.prop or fn.name
                    if isinstance(n.ctx, ast.Store):
                        ok = member in geoh5_store_ok
                        res.inst(f"Workspace.{member}:{n.lineno} stores self._geoh5", ok=ok)
                        if not ok:
                            res.find("Workspace", member, "stores self._geoh5", f"{fn.module.relpath}:{n.lineno}",
                                     "the file handle is replaced outside open()/h5file: its mode escapes Workspace.open's policy")
                elif foreign:
                    ok = fn.qualname.endswith("fetch_active_workspace")
                    res.inst(f"{fn.qualname}:{n.lineno} reads {unparse(n)}", ok=ok)
                    if not ok:
                        res.find(fn.cls.name if fn.cls else fn.module.short, fn.prop or fn.name, f"access to {unparse(n)}",
                                 f"{fn.module.relpath}:{n.lineno}", "raw handle of a workspace accessed from outside the gateway")
        # raw-handle *use* (call / subscript through self._geoh5) in Workspace
        if fn.cls is not None and ws in fn.cls.mro:
            member = fn.prop or fn.name
            for n in ast.walk(fn.node):
                base = None
                if isinstance(n, ast.Subscript):
                    base = n.value
                elif isinstance(n, ast.Call) and isinstance(n.func, ast.Attribute):
                    base = n.func.value
                if isinstance(base, ast.Attribute) and base.attr == "_geoh5" and isinstance(base.value, ast.Name) and base.value.id == fn.self_name:
                    ok = member in geoh5_use_ok
                    res.inst(f"Workspace.{member}:{n.lineno} uses raw handle {unparse(n)[:40]}", ok=ok)
                    if not ok:
                        res.find("Workspace", member, f"raw handle use {unparse(n)[:40]}", f"{fn.module.relpath}:{n.lineno}",
                                 "self._geoh5 used directly instead of the raising property / _io_call")
    res.notes.append(f"{n_scanned} AST nodes scanned; matcher hit {pos} mutation sites inside io/h5_writer.py (positive control)")
    if pos < 30:
        raise AnalysisError(f"C10.WHO: matcher found only {pos} mutation sites in the writer (floor 30): matcher broken")
    return res


def rule_open(ctx) -> RuleResult:
    res = RuleResult(
        "C10.OPEN",
        "C10",
        "Workspace.open passes to h5py.File only its own mode argument/_mode or the constant 'r' (fallback never upgrades); "
        "library helpers that open a workspace on the reader's behalf pass mode 'r' or rely on a default that is 'r'",
        floor=5,
    )
    p = ctx.p
    op = p.func("Workspace.open")
    files = [n for n in ast.walk(op.node) if isinstance(n, ast.Call) and chain(n.func) == ["h5py", "File"]]
    if len(files) < 1:
        raise AnalysisError("Workspace.open: h5py.File call not found")
    # reaching definitions of `mode` inside open(): parameter or self._mode
    mode_srcs = set()
    for n in ast.walk(op.node):
        if isinstance(n, ast.Assign) and any(isinstance(t, ast.Name) and t.id == "mode" for t in n.targets):
            mode_srcs.add(unparse(n.value))
    ok_src = mode_srcs <= {"self._mode", "self.mode"}
    in_handler = set()
    for n in ast.walk(op.node):
        if isinstance(n, ast.ExceptHandler):
            for c in ast.walk(n):
                in_handler.add(c)
    for c in files:
        a = c.args[1] if len(c.args) > 1 else None
        txt = unparse(a)
        if c in in_handler:
            ok = txt == "'r'"
            res.inst(f"Workspace.open fallback h5py.File(..., {txt})", nontrivial=True, ok=ok)
            if not ok:
                res.find("Workspace", "open", f"fallback opens with {txt}", f"{op.module.relpath}:{c.lineno}",
                         "the OSError fallback must be read-only; anything else silently upgrades the handle")
        else:
            ok = (txt == "mode" and ok_src) or txt == "'r'"
            res.inst(f"Workspace.open h5py.File(..., {txt}) with mode sources {sorted(mode_srcs)}", nontrivial=True, ok=ok)
            if not ok:
                res.find("Workspace", "open", f"opens with {txt}", f"{op.module.relpath}:{c.lineno}",
                         "open() chooses a mode that is neither its argument nor the workspace's configured mode")
    # default of fetch_active_workspace / fetch_h5_handle / _io_call
    for spec in ("shared/utils.py:fetch_active_workspace", "shared/utils.py:fetch_h5_handle", "Workspace._io_call"):
        fn = p.func(spec)
        d = _default_of(fn, "mode")
        ok = d == "'r'"
        res.inst(f"{fn.qualname}: default mode {d}", ok=ok)
        if not ok:
            res.find(fn.cls.name if fn.cls else "utils", fn.name, f"default mode {d}", fn.where,
                     "callers relying on the default now get a writable handle")
    # helper open sites outside workspace.py / the writer
    ws = p.cls("Workspace")
    wmod = p.module("io/h5_writer.py")
    for fn in p.all_functions():
        if fn.module in (ws.module, wmod):
            continue
        for n in ast.walk(fn.node):
            if not isinstance(n, ast.Call):
                continue
            kind = None
            ch = chain(n.func)
            r = p.resolve_expr(fn.module, n.func) if ch else None
            if r and r[0] == "class" and r[1] is ws:
                kind = "Workspace("
            elif ch and ch[-1] == "fetch_active_workspace":
                kind = "fetch_active_workspace("
            elif isinstance(n.func, ast.Attribute) and n.func.attr == "open" and not (ch and ch[0] in ("Image", "os", "io")) and not _is_builtin_open(n):
                if any(kw.arg == "mode" for kw in n.keywords) or not n.args:
                    kind = ".open("
            if kind is None:
                continue
            mode = None
            for kw in n.keywords:
                if kw.arg == "mode":
                    mode = kw.value
            if kind == "fetch_active_workspace(" and len(n.args) > 1:
                mode = n.args[1]
            txt = unparse(mode) if mode is not None else "<default>"
            ok = mode is None or txt == "'r'" or (isinstance(mode, ast.Name) and fn.name == "fetch_active_workspace")
            if kind == "Workspace(" and mode is None:
                # constructing a workspace with the default mode on behalf of a reader
                ok = fn.name not in ("path2workspace",)
            res.inst(f"{fn.qualname}:{n.lineno} {kind} mode={txt}", ok=ok)
            if not ok:
                res.find(fn.cls.name if fn.cls else fn.module.short, fn.prop or fn.name, f"{kind} mode={txt}",
                         f"{fn.module.relpath}:{n.lineno}", "a reading helper opens the user's file with a mode other than 'r'")
    return res


def _is_builtin_open(call) -> bool:
    return isinstance(call.func, ast.Name)


def _default_of(fn, name):
    a = fn.node.args
    pos = a.posonlyargs + a.args
    defaults = [None] * (len(pos) - len(a.defaults)) + list(a.defaults)
    for arg, d in zip(pos, defaults):
        if arg.arg == name:
            return unparse(d) if d is not None else None
    for arg, d in zip(a.kwonlyargs, a.kw_defaults):
        if arg.arg == name:
            return unparse(d) if d is not None else None
    return None


def rule_reader(ctx) -> RuleResult:
    res = RuleResult(
        "C10.READER",
        "C10",
        "H5Reader performs no store / delete / mutating call on a name derived from the file handle",
        floor=15,
    )
    p = ctx.p
    R = p.cls("H5Reader")
    for name, fn in R.methods.items():
        # taint: the `file` parameter, `with fetch_h5_handle(file) as h5file`, and everything subscripted from them
        tainted = set()
        params = fn.params
        if fn.kind in ("classmethod", "method") and params:
            params = params[1:]
        if params:
            tainted.add(params[0])
        changed = True
        while changed:
            changed = False
            for n in ast.walk(fn.node):
                if isinstance(n, (ast.With,)):
                    for it in n.items:
                        if it.optional_vars is not None and isinstance(it.optional_vars, ast.Name) and _mentions(it.context_expr, tainted):
                            if it.optional_vars.id not in tainted:
                                tainted.add(it.optional_vars.id)
                                changed = True
                if isinstance(n, ast.Assign) and len(n.targets) == 1 and isinstance(n.targets[0], ast.Name):
                    if _handle_expr(n.value, tainted) and n.targets[0].id not in tainted:
                        tainted.add(n.targets[0].id)
                        changed = True
                if isinstance(n, ast.For) and isinstance(n.target, ast.Name):
                    pass
        bad = []
        for n in ast.walk(fn.node):
            if isinstance(n, (ast.Assign, ast.AugAssign, ast.Delete)):
                tg = n.targets if not isinstance(n, ast.AugAssign) else [n.target]
                for t in tg:
                    if isinstance(t, ast.Subscript) and _handle_expr(t.value, tainted):
                        bad.append((n, f"store/delete {unparse(t)[:40]}"))
            if isinstance(n, ast.Call) and isinstance(n.func, ast.Attribute) and n.func.attr in (H5_MUTATORS | {"move", "copy", "clear", "pop", "update"}):
                if _handle_expr(n.func.value, tainted) or (isinstance(n.func.value, ast.Attribute) and n.func.value.attr == "attrs" and _handle_expr(n.func.value.value, tainted)):
                    bad.append((n, f"mutating call {unparse(n.func)[:40]}"))
        res.inst(f"H5Reader.{name}: handle names {sorted(tainted)}", nontrivial=bool(tainted), ok=not bad)
        for n, what in bad:
            res.find("H5Reader", name, what, f"{fn.module.relpath}:{n.lineno}",
                     "the reader mutates a node of the file it was asked to read")
    return res


def _mentions(expr, names) -> bool:
    return any(isinstance(n, ast.Name) and n.id in names for n in ast.walk(expr))


def _handle_expr(e, tainted) -> bool:
    """Name / subscript / .get() / attribute chain rooted at a tainted name,
    without materialisation ([:] / [()] slices are arrays, not handles)."""
    while True:
        if isinstance(e, ast.Name):
            return e.id in tainted
        if isinstance(e, ast.Subscript):
            s = e.slice
            if isinstance(s, ast.Slice) or (isinstance(s, ast.Tuple) and not s.elts):
                return False
            e = e.value
        elif isinstance(e, ast.Call) and isinstance(e.func, ast.Attribute) and e.func.attr == "get":
            e = e.func.value
        elif isinstance(e, ast.Attribute) and e.attr in ("attrs", "parent", "file"):
            e = e.value
        else:
            return False


def rule_repack(ctx) -> RuleResult:
    res = RuleResult(
        "C10.REPACK",
        "C10",
        "everything Workspace.close does to the file besides closing the handle — the final saves and the h5repack "
        "rewrite (subprocess, unlink, move) — is conditional on the handle having been opened writable",
        floor=2,
    )
    p = ctx.p
    cl = p.func("Workspace.close")
    mode_names = {a.targets[0].id for a in ast.walk(cl.node) if isinstance(a, ast.Assign) and isinstance(a.targets[0], ast.Name)
                  and "mode in" in unparse(a.value) and "'r+'" in unparse(a.value)}

    def writable_test(t) -> bool:
        for x in ast.walk(t):
            if isinstance(x, ast.Compare) and "mode" in unparse(x.left) and isinstance(x.ops[0], ast.In) and "'r+'" in unparse(x.comparators[0]):
                return True
            if isinstance(x, ast.Name) and x.id in mode_names:
                # only as a conjunct (not under `not` / `or`)
                return True
        return False

    def positive(t) -> bool:
        """the writable condition is a conjunct of the test (so the body runs only when writable)"""
        if isinstance(t, ast.BoolOp) and isinstance(t.op, ast.And):
            return any(positive(v) for v in t.values)
        if isinstance(t, (ast.Compare, ast.Name)):
            return writable_test(t)
        return False

    effects = []
    for n in ast.walk(cl.node):
        if isinstance(n, ast.Call):
            f = unparse(n.func)
            if f in ("subprocess.run", "subprocess.call", "subprocess.check_call", "shutil.move", "os.replace", "os.remove") or f.endswith(".unlink") \
                    or (isinstance(n.func, ast.Attribute) and n.func.attr in ("_io_call", "update_attribute") and "H5Reader" not in unparse(n)):
                effects.append(n)
    if len(effects) < 2:
        raise AnalysisError("Workspace.close: save / repack effects not found")

    def ancestors_ifs(target):
        out = []

        def rec(stmts, stack):
            for s_ in stmts:
                if any(x is target for x in ast.walk(s_)):
                    if isinstance(s_, ast.If):
                        inb = any(x is target for b in s_.body for x in ast.walk(b))
                        if any(x is target for x in ast.walk(s_.test)):
                            out.extend(stack)
                            return True
                        return rec(s_.body if inb else s_.orelse, stack + [(s_.test, inb)])
                    for fld in ("body", "orelse", "finalbody"):
                        blk = getattr(s_, fld, None)
                        if isinstance(blk, list) and blk and any(x is target for b in blk if isinstance(b, ast.AST) for x in ast.walk(b)):
                            return rec(blk, stack)
                    for h in getattr(s_, "handlers", []):
                        if any(x is target for x in ast.walk(h)):
                            return rec(h.body, stack)
                    out.extend(stack)
                    return True
            return False

        rec(cl.node.body, [])
        return out

    for e in effects:
        ifs = ancestors_ifs(e)
        ok = any(inb and positive(t) for t, inb in ifs)
        res.inst(f"Workspace.close:{e.lineno} {unparse(e.func)}(...) only when the handle is writable", nontrivial=True, ok=ok)
        if not ok:
            res.find("Workspace", "close", f"{unparse(e.func)}(...) runs whatever the mode of the handle", f"{cl.module.relpath}:{e.lineno}",
                     "closing a workspace that was opened read-only rewrites the file (a pending repack flag, set in memory by a refused edit "
                     "of a concatenated entity, is enough): the bytes of a file opened 'r' change")
    return res


def rule_load(ctx) -> RuleResult:
    from .c19 import rule_load as _load

    return _load(ctx, "C10.LOAD", "C10")


RULES = [rule_gate, rule_guard, rule_who, rule_open, rule_reader, rule_repack, rule_load]
