"""C11 — closing leaves a released handle: acquire/release pairing, __exit__, raising gate."""

from __future__ import annotations

import ast

from ..cfg import CFG, dominators
from ..kinds import has_call, reach
from ..model import AnalysisError, chain, unparse
from ..report import RuleResult


def _acquisitions(ctx):
    """(fn, call, kind) for every call that opens an HDF5 file or a workspace:
    h5py.File(...), Workspace(...), Workspace.create(...), <ws>.open(...)."""
    p = ctx.p
    ws = p.cls("Workspace")
    out = []
    for fn in p.all_functions():
        for n in ast.walk(fn.node):
            if not isinstance(n, ast.Call):
                continue
            ch = chain(n.func)
            if ch and ch[-1] == "File" and ch[0] == "h5py":
                out.append((fn, n, "h5py.File"))
                continue
            r = p.resolve_expr(fn.module, n.func) if ch else None
            if r and r[0] == "class" and r[1] is ws:
                out.append((fn, n, "Workspace("))
            elif r and r[0] == "func" and r[1].cls is ws and r[1].name == "create":
                out.append((fn, n, "Workspace.create("))
            elif isinstance(n.func, ast.Attribute) and n.func.attr == "open" and not n.args and all(k.arg == "mode" for k in n.keywords):
                base = unparse(n.func.value)
                if base in ("Image", "os", "io", "webbrowser") or "Image" in base:
                    continue
                if fn.cls is ws and base == "self":
                    continue  # Workspace re-opening itself: ownership stays with the object (released by close())
                out.append((fn, n, ".open("))
    return out


def _stmt_of(fn, node):
    for st in ast.walk(fn.node):
        if isinstance(st, ast.stmt) and any(x is node for x in ast.walk(st)) and not isinstance(st, (ast.FunctionDef, ast.ClassDef, ast.If, ast.For, ast.While, ast.Try, ast.With)):
            return st
    return None


def rule_pair(ctx) -> RuleResult:
    res = RuleResult(
        "C11.PAIR",
        "C11",
        "every site that opens an HDF5 file or a workspace either stores the handle in the gateway field released by "
        "close(), uses it as a context manager, hands it to the caller, or closes the local on every path (finally); "
        "Workspace.close() reaches File.close() on every normal path past its guard",
        floor=8,
    )
    p = ctx.p
    for fn, call, kind in _acquisitions(ctx):
        where = f"{fn.module.relpath}:{call.lineno}"
        st = _stmt_of(fn, call)
        how = None
        # context manager
        for w in ast.walk(fn.node):
            if isinstance(w, (ast.With, ast.AsyncWith)) and any(any(x is call for x in ast.walk(it.context_expr)) for it in w.items):
                how = "context manager"
        if how is None and isinstance(st, ast.Assign):
            tgt = unparse(st.targets[0])
            if tgt == "self._geoh5":
                how = "stored in the gateway field self._geoh5 (released by Workspace.close)"
            elif isinstance(st.targets[0], ast.Name):
                name = st.targets[0].id
                g = CFG(fn.node)
                node = next(n for n in g.nodes if n.ast is not None and not isinstance(n.ast, list) and any(x is call for x in ast.walk(n.ast)))
                closes = lambda n, name=name: has_call(n, lambda c: isinstance(c.func, ast.Attribute) and c.func.attr == "close" and unparse(c.func.value) == name)  # noqa: E731
                used_as_cm = any(isinstance(w, ast.With) and any(unparse(it.context_expr) == name for it in w.items) for w in ast.walk(fn.node))
                after = reach(g, [m for m, _ in node.succ], avoid=closes)
                leaks_normal = g.exit in after
                leaks_exc = g.rexit in after
                if used_as_cm:
                    how = "local used as a context manager"
                elif not leaks_normal and not leaks_exc:
                    how = f"local `{name}` closed on every path"
                elif not leaks_normal:
                    # exceptional leak only matters if something between open and close is inside a try/with (explicit promise)
                    how = f"local `{name}` closed on every normal path"
                else:
                    how = None
                    res.inst(f"{fn.qualname}:{call.lineno} {kind} -> local `{name}` NOT closed on a normal path", ok=False)
                    res.find(fn.cls.name if fn.cls else fn.module.short, fn.prop or fn.name, f"{kind} assigned to `{name}` is not closed on every path",
                             where, f"the handle opened at {where} can reach the end of {fn.qualname} without close(): an HDF5 handle stays open")
                    continue
        if how is None and isinstance(st, ast.Return):
            how = "returned to the caller (ownership transferred)"
        if how is None and isinstance(st, ast.Expr) and isinstance(st.value, (ast.Yield,)):
            # `yield workspace.open(mode=mode)` inside try/finally: close()
            tr = next((t for t in ast.walk(fn.node) if isinstance(t, ast.Try) and any(x is call for s in t.body for x in ast.walk(s))), None)
            if tr is not None and any(isinstance(c, ast.Call) and isinstance(c.func, ast.Attribute) and c.func.attr == "close" for s in tr.finalbody for c in ast.walk(s)):
                how = "yielded inside try/finally: close()"
        if how is None:
            res.inst(f"{fn.qualname}:{call.lineno} {kind} -> release not recognised", ok=False)
            res.find(fn.cls.name if fn.cls else fn.module.short, fn.prop or fn.name, f"{kind} result is neither stored in the gateway, used as context manager, returned nor closed",
                     where, f"the handle opened at {where} has no recognised release")
            continue
        res.inst(f"{fn.qualname}:{call.lineno} {kind} -> {how}", nontrivial=True)
    # Workspace.close
    cl = p.func("Workspace.close")
    g = CFG(cl.node)
    closes = lambda n: has_call(n, lambda c: unparse(c.func) in ("self.geoh5.close", "self._geoh5.close"))  # noqa: E731
    guard_nodes = [n for n in g.nodes if n.kind == "test" and unparse(n.ast) in ("not self._geoh5", "self._geoh5 is None", "not self.geoh5")]
    starts = [m for gn in guard_nodes for m, l in gn.succ if l == "false"] or [g.entry]
    after = reach(g, starts, avoid=closes)
    ok = g.exit not in after
    res.inst("Workspace.close: File.close() on every normal path past the already-closed guard", nontrivial=True, ok=ok)
    if not ok:
        res.find("Workspace", "close", "a normal path skips self.geoh5.close()", cl.where, "close() can return with the HDF5 handle still open")
    # the final save precedes File.close (operations completed before the close are in the file)
    saves = [n for n in g.nodes if has_call(n, lambda c: isinstance(c.func, ast.Attribute) and c.func.attr == "_io_call" and c.args and unparse(c.args[0]) == "H5Writer.save_entity")]
    cls_nodes = [n for n in g.nodes if closes(n)]
    dom = dominators(g)
    ok = bool(saves) and all(not (set(reach(g, [c])) & set(saves)) for c in cls_nodes)
    res.inst("Workspace.close: the final save of the root subtree happens before File.close()", nontrivial=True, ok=ok)
    if not ok:
        res.find("Workspace", "close", "final save after (or without) File.close()", cl.where, "the last save runs on a closed handle or not at all")
    # the writable-mode test, written inline or through a local bound to it
    mode_names = {a.targets[0].id for a in ast.walk(cl.node) if isinstance(a, ast.Assign) and isinstance(a.targets[0], ast.Name) and "geoh5.mode in" in unparse(a.value)}
    starts_w = [m for n in g.nodes if n.kind == "test" and ("geoh5.mode in" in unparse(n.ast) or (isinstance(n.ast, ast.Name) and n.ast.id in mode_names))
                for m, l in n.succ if l == "true"]
    if not starts_w:
        raise AnalysisError("Workspace.close: writable-mode test not found")
    is_save = lambda n: has_call(n, lambda c: isinstance(c.func, ast.Attribute) and c.func.attr == "_io_call" and c.args and unparse(c.args[0]) == "H5Writer.save_entity")  # noqa: E731
    skipped = reach(g, starts_w, avoid=is_save)
    ok = not any(closes(n) for n in skipped)
    res.inst("Workspace.close: on every writable path the final save happens before File.close()", nontrivial=True, ok=ok)
    if not ok:
        res.find("Workspace", "close", "the final save of the root subtree is conditional", cl.where,
                 "operations completed before the close (entities created with save_on_creation=False, moved children) are not in the file for some workspaces")
    sa = p.func("Workspace.save_as")
    g2 = CFG(sa.node)
    copies = [n for n in g2.nodes if n.ast is not None and not isinstance(n.ast, list) and n.kind in ("stmt", "with") and
              any(isinstance(c, ast.Call) and (unparse(c.func) in ("shutil.copy", "shutil.copyfile", "shutil.copy2") or (isinstance(c.func, ast.Attribute) and c.func.attr in ("write", "getbuffer")))
                  for c in (ast.walk(n.ast) if n.kind == "stmt" else [x for it in n.ast.items for x in ast.walk(it.context_expr)]))]
    closes2 = lambda n: has_call(n, lambda c: unparse(c.func) == "self.close")  # noqa: E731
    dom2 = dominators(g2)
    if not copies:
        raise AnalysisError("Workspace.save_as: byte copy not found")
    ok = all(any(closes2(d) or (d.kind == "test" and "_geoh5" in unparse(d.ast)) for d in dom2.get(c, ())) and
             not (set(reach(g2, [c])) & {n for n in g2.nodes if closes2(n)}) for c in copies)
    res.inst("Workspace.save_as: close() (flush) precedes the byte copy", nontrivial=True, ok=ok)
    if not ok:
        res.find("Workspace", "save_as", "bytes are copied before the workspace is closed", sa.where,
                 "the copy is taken from an open, unflushed file: the saved file misses everything done since the source was last closed")
    return res


def rule_exit(ctx) -> RuleResult:
    res = RuleResult(
        "C11.EXIT",
        "C11",
        "Workspace.__exit__ calls close() unconditionally and returns nothing truthy (exceptions escaping a with-block "
        "still close the file and are not swallowed); helper context managers close in `finally`",
        floor=3,
    )
    p = ctx.p
    ex = p.func("Workspace.__exit__")
    g = CFG(ex.node)
    closes = lambda n: has_call(n, lambda c: unparse(c.func) == "self.close")  # noqa: E731
    ok = g.exit not in reach(g, [g.entry], avoid=closes) and any(closes(n) for n in g.nodes)
    res.inst("__exit__: self.close() on every path", nontrivial=True, ok=ok)
    if not ok:
        res.find("Workspace", "__exit__", "close() is conditional or missing", ex.where,
                 "leaving a with-block (normally or through an exception) can leave the file open")
    rets = [r for r in ast.walk(ex.node) if isinstance(r, ast.Return) and r.value is not None and unparse(r.value) not in ("None", "False")]
    ok = not rets
    res.inst("__exit__: returns nothing truthy (does not swallow exceptions)", ok=ok)
    if not ok:
        res.find("Workspace", "__exit__", f"returns {unparse(rets[0].value)}", ex.where, "exceptions raised inside the with-block are swallowed")
    base_ok = any((b if isinstance(b, str) else b.name) == "AbstractContextManager" for b in p.cls("Workspace").bases)
    has_enter = p.cls("Workspace").lookup("__enter__") is not None or base_ok
    res.inst("Workspace is a context manager (__enter__ from AbstractContextManager returns self)", ok=has_enter)
    if not has_enter:
        res.find("Workspace", "__enter__", "no __enter__", p.cls("Workspace").where, "`with Workspace(...)` no longer works")
    for spec in ("shared/utils.py:fetch_active_workspace", "shared/utils.py:fetch_h5_handle"):
        fn = p.func(spec)
        for y in [n for n in ast.walk(fn.node) if isinstance(n, ast.Yield)]:
            tr = next((t for t in ast.walk(fn.node) if isinstance(t, ast.Try) and any(x is y for s in t.body for x in ast.walk(s))), None)
            ok = tr is not None and bool(tr.finalbody)
            res.inst(f"{fn.qualname}:{y.lineno} yield inside try/finally", ok=ok)
            if not ok:
                res.find("utils", fn.name, "yield outside try/finally", f"{fn.module.relpath}:{y.lineno}",
                         "an exception in the caller's with-block skips the cleanup of the handle this helper opened")
    return res


def rule_gate(ctx) -> RuleResult:
    res = RuleResult(
        "C11.GATE",
        "C11",
        "after close, any call that needs the file meets the raising property: _io_call reaches the handle only through "
        "self.geoh5 and converts Geoh5FileClosedError into the dedicated closed-file / file-not-found errors",
        floor=3,
    )
    p = ctx.p
    io = p.func("Workspace._io_call")
    handlers = [h for t in ast.walk(io.node) if isinstance(t, ast.Try) for h in t.handlers]
    hs = [h for h in handlers if h.type is not None and "Geoh5FileClosedError" in unparse(h.type)]
    ok = bool(hs) and all(any(isinstance(x, ast.Raise) for x in ast.walk(h)) for h in hs)
    res.inst("_io_call: `except Geoh5FileClosedError` re-raises a dedicated error", ok=ok)
    if not ok:
        res.find("Workspace", "_io_call", "closed-file error is swallowed", io.where, "calls on a closed workspace return None instead of raising")
    for h in hs:
        g_ok = all(not (isinstance(s, ast.Return)) for s in ast.walk(h))
        res.inst("_io_call: the closed-file handler has no return (never yields stale / empty results)", ok=g_ok)
        if not g_ok:
            res.find("Workspace", "_io_call", "closed-file handler returns a value", io.where, "stale or empty results after close")
    gp = p.func("Workspace.geoh5")
    raises = [r for r in ast.walk(gp.node) if isinstance(r, ast.Raise) and "Geoh5FileClosedError" in unparse(r)]
    ok = bool(raises)
    res.inst("Workspace.geoh5 raises Geoh5FileClosedError", ok=ok)
    if not ok:
        res.find("Workspace", "geoh5", "does not raise Geoh5FileClosedError", gp.where, "closed handles are handed out")
    # the early `return None` of _io_call is only for `_geoh5 is None`
    early = [r for r in ast.walk(io.node) if isinstance(r, ast.Return) and (r.value is None or unparse(r.value) == "None")]
    for r in early:
        encl = next((i for i in ast.walk(io.node) if isinstance(i, ast.If) and r in i.body), None)
        ok = encl is not None and unparse(encl.test) == "self._geoh5 is None"
        res.inst(f"_io_call: `return None` only under `self._geoh5 is None` ({unparse(encl.test) if encl else None})", ok=ok)
        if not ok:
            res.find("Workspace", "_io_call", "silent None result", f"{io.module.relpath}:{r.lineno}", "a closed workspace silently returns None")
    return res


RULES = [rule_pair, rule_exit, rule_gate]
