"""C11 — closing leaves a released handle: acquire/release pairing, __exit__, raising gate."""

from __future__ import annotations

import ast

from ..cfg import CFG
from ..model import AnalysisError, chain, unparse
from ..report import RuleResult
from ._c11_sem import Facts, must_pass, node_exprs, own_nodes, surely_evaluated, call_name, closer, cm_released_args, falsy_result, field_resets, handlers_around, node_calls, node_of, path_text, protected, reach3, ReleaseModel, resolve_callee, self_field_meaning, truthy_source


def _is_h5py_file(p, mod, ch) -> bool:
    """`h5py.File`, also through `import h5py as <x>` / `from h5py import File`."""
    if ch[0] == "h5py":
        return True
    r = p.resolve_name(mod, ch[0])
    if not r or r[0] != "external":
        return False
    return ".".join([r[1]] + list(ch[1:])) == "h5py.File"


def _acquisitions(ctx):
    """(fn, call, kind) for every call that opens an HDF5 file or a workspace:
    h5py.File(...), Workspace(...), Workspace.create(...), <ws>.open(...)."""
    p = ctx.p
    ws = p.cls("Workspace")
    out = []
    for fn in p.all_functions():
        for n in ast.walk(fn.node):
            if not isinstance(n, ast.Call):
                continue
            ch = chain(n.func)
            if ch and ch[-1] == "File" and _is_h5py_file(p, fn.module, ch):
                out.append((fn, n, "h5py.File"))
                continue
            r = p.resolve_expr(fn.module, n.func) if ch else None
            if r and r[0] == "class" and r[1] is ws:
                out.append((fn, n, "Workspace("))
            elif r and r[0] == "func" and r[1].cls is ws and r[1].name == "create":
                out.append((fn, n, "Workspace.create("))
            elif isinstance(n.func, ast.Attribute) and n.func.attr == "open" and not n.args and all(k.arg == "mode" for k in n.keywords):
                base = unparse(n.func.value)
                if base in ("Image", "os", "io", "webbrowser") or "Image" in base:
                    continue
                if fn.cls is ws and base == "self":
                    continue  # Workspace re-opening itself: ownership stays with the object (released by close())
                out.append((fn, n, ".open("))
    return out


def _stmt_of(fn, node):
    for st in ast.walk(fn.node):
        if isinstance(st, ast.stmt) and any(x is node for x in ast.walk(st)) and not isinstance(st, (ast.FunctionDef, ast.ClassDef, ast.If, ast.For, ast.While, ast.Try, ast.With)):
            return st
    return None


def _acq(ctx):
    if "c11.acquisitions" not in ctx.cache:
        ctx.cache["c11.acquisitions"] = _acquisitions(ctx)
    return ctx.cache["c11.acquisitions"]


def _target(st):
    """The single target of `x = <..>` / `x: T = <..>`."""
    if isinstance(st, ast.Assign):
        return st.targets[0]
    if isinstance(st, ast.AnnAssign) and st.value is not None:
        return st.target
    return None


def _is_gateway(fn, target) -> bool:
    """`self._geoh5`: the field Workspace.close() releases."""
    return isinstance(target, ast.Attribute) and target.attr == "_geoh5" and isinstance(target.value, ast.Name) and target.value.id in ("self", fn.self_name)


def _receiver(call, kind):
    return call.func.value if kind == ".open(" and isinstance(call.func, ast.Attribute) else None


def _handles(fn, call, kind) -> set:
    """Texts of the expressions that denote the handle opened by `call`: the local it is bound to, and for
    `<ws>.open(..)` (which returns <ws>) the receiver."""
    out = set()
    tgt = _target(_stmt_of(fn, call))
    if isinstance(tgt, ast.Name):
        out.add(tgt.id)
    recv = _receiver(call, kind)
    if recv is not None:
        out.add(unparse(recv))
    return out


def _closer(p, fn, handles):
    """closer() that also follows generator context managers of the package (`with <cm>(<h>):`)."""
    return closer(fn.node, handles, released_by=lambda c: cm_released_args(p, fn, c))


def _model(p, fn, g, call, kind, extra=None):
    """ReleaseModel of the handle opened by `call` in fn: released by close() on it, the exit of a with-block over it or over
    closing(it), the exit of the with-block whose item the call is, an exit stack it was registered on, `extra(node)`."""
    recv = _receiver(call, kind)
    tgt = _target(_stmt_of(fn, call))
    withs = [w for w in ast.walk(fn.node) if isinstance(w, (ast.With, ast.AsyncWith)) and any(any(x is call for x in ast.walk(it.context_expr)) for it in w.items)]
    own_with = lambda n: n.kind == "withexit" and any(n.stmt is w for w in withs)  # noqa: E731
    both = (lambda n: own_with(n) or extra(n)) if extra is not None else own_with
    return ReleaseModel(g, fn.node, node_of(g, call), {unparse(recv)} if recv is not None else set(), {tgt.id} if isinstance(tgt, ast.Name) else set(),
                        released_by=lambda c: cm_released_args(p, fn, c), extra=both)


_protected = protected


def rule_pair(ctx) -> RuleResult:
    res = RuleResult(
        "C11.PAIR",
        "C11",
        "every site that opens an HDF5 file or a workspace either stores the handle in the gateway field released by "
        "close(), uses it as a context manager, hands it to the caller, or closes the local on every path (finally); "
        "Workspace.close() reaches File.close() on every normal path past its guard",
        floor=8,
    )
    p = ctx.p
    for fn, call, kind in _acq(ctx):
        where = f"{fn.module.relpath}:{call.lineno}"
        st = _stmt_of(fn, call)
        how = None
        # context manager
        for w in ast.walk(fn.node):
            if isinstance(w, (ast.With, ast.AsyncWith)) and any(any(x is call for x in ast.walk(it.context_expr)) for it in w.items):
                how = "context manager"
        if how is None and any(isinstance(c, ast.Call) and call_name(c) in ("enter_context", "enter_async_context") and any(x is call for a in c.args for x in ast.walk(a))
                               for c in ast.walk(fn.node)):
            how = "context manager (entered on an exit stack)"
        tgt = _target(st)
        handles = _handles(fn, call, kind)
        bare_reopen = isinstance(st, ast.Expr) and st.value is call and _receiver(call, kind) is not None  # `<ws>.open(mode=..)` as a statement
        if how is None and _is_gateway(fn, tgt):
            how = "stored in the gateway field self._geoh5 (released by Workspace.close)"
        elif how is None and (isinstance(tgt, ast.Name) or bare_reopen):
            name = tgt.id if isinstance(tgt, ast.Name) else unparse(_receiver(call, kind))
            g = CFG(fn.node)
            node = node_of(g, call)
            if node is None:
                raise AnalysisError(f"{fn.qualname}:{call.lineno}: acquisition not found in the control-flow graph")
            closes_h = _closer(p, fn, handles)
            # moving the local into the gateway field hands it to Workspace.close()
            to_gateway = lambda n: isinstance(n.ast, (ast.Assign, ast.AnnAssign)) and _is_gateway(fn, _target(n.ast)) and n.ast.value is not None and closes_h.denotes(n.ast.value)  # noqa: E731
            used_as_cm = any(isinstance(w, (ast.With, ast.AsyncWith)) and any(closes_h.releases_item(it.context_expr) for it in w.items) for w in ast.walk(fn.node))
            leaks_normal, leaks_exc = _model(p, fn, g, call, kind, extra=to_gateway).leaks()
            if used_as_cm:
                how = "local used as a context manager"
            elif not leaks_normal and not leaks_exc:
                how = f"local `{name}` closed on every path"
            elif not leaks_normal:
                # exceptional leak only matters if something between open and close is inside a try/with (explicit promise)
                how = f"local `{name}` closed on every normal path"
            else:
                how = None
                res.inst(f"{fn.qualname}:{call.lineno} {kind} -> local `{name}` NOT closed on a normal path", ok=False)
                res.find(fn.cls.name if fn.cls else fn.module.short, fn.prop or fn.name, f"{kind} assigned to `{name}` is not closed on every path",
                         where, f"the handle opened at {where} can reach the end of {fn.qualname} without close(): an HDF5 handle stays open")
                continue
        if how is None and isinstance(st, ast.Return):
            how = "returned to the caller (ownership transferred)"
        if how is None and isinstance(st, ast.Expr) and isinstance(st.value, (ast.Yield,)) and handles:
            # `yield workspace.open(mode=mode)`: an exception thrown in at the yield and the normal resumption both pass close()
            # (try/finally, or `with closing(workspace)`)
            g = CFG(fn.node)
            node = node_of(g, call)
            if node is not None and _model(p, fn, g, call, kind).protected(node):
                how = "yielded inside try/finally: close()"
        if how is None:
            res.inst(f"{fn.qualname}:{call.lineno} {kind} -> release not recognised", ok=False)
            res.find(fn.cls.name if fn.cls else fn.module.short, fn.prop or fn.name, f"{kind} result is neither stored in the gateway, used as context manager, returned nor closed",
                     where, f"the handle opened at {where} has no recognised release")
            continue
        res.inst(f"{fn.qualname}:{call.lineno} {kind} -> {how}", nontrivial=True)
    # Workspace.close (private helpers expanded: the flush / repack blocks may live in methods of their own)
    cl = ctx.view("Workspace.close")
    sn = cl.self_name or "self"
    handle_texts = (f"{sn}._geoh5", f"{sn}.geoh5")
    opened = {t: True for t in handle_texts}
    g = CFG(cl.node)
    plain = Facts(cl.node)
    is_handle = lambda e: plain.text(e) in handle_texts  # noqa: E731
    handle_cm = lambda e: is_handle(e) or (isinstance(e, ast.Call) and call_name(e) == "closing" and len(e.args) == 1 and is_handle(e.args[0]))  # noqa: E731
    closes = lambda n: any(isinstance(c.func, ast.Attribute) and c.func.attr == "close" and is_handle(c.func.value) for c in node_calls(n)) or \
        (n.kind == "withexit" and isinstance(n.stmt, (ast.With, ast.AsyncWith)) and any(handle_cm(it.context_expr) for it in n.stmt.items))  # noqa: E731
    # past the already-closed guard = under the assumption that the handle is there and open, however the guard is written
    is_open = Facts(cl.node, truthy=opened, notnone=opened)
    after = reach3(g, [g.entry], is_open, avoid=closes)
    ok = g.exit not in after
    res.inst("Workspace.close: File.close() on every normal path past the already-closed guard", nontrivial=True, ok=ok)
    if not ok:
        res.find("Workspace", "close", "a normal path skips self.geoh5.close()", cl.where, "close() can return with the HDF5 handle still open")
    # the final save precedes File.close (operations completed before the close are in the file)
    is_save = lambda n: any(_is_final_save(c, plain) for c in node_calls(n))  # noqa: E731
    saves = [n for n in g.nodes if is_save(n)]
    cls_nodes = [n for n in g.nodes if closes(n)]
    ok = bool(saves) and all(not (set(reach3(g, [c])) & set(saves)) for c in cls_nodes)
    res.inst("Workspace.close: the final save of the root subtree happens before File.close()", nontrivial=True, ok=ok)
    if not ok:
        res.find("Workspace", "close", "final save after (or without) File.close()", cl.where, "the last save runs on a closed handle or not at all")
    # ... and on the exceptional path: when the final flush raises (I/O error, an entity that cannot be written) the handle is
    # still released - the flush sits in a frame (try/finally, with) whose way out passes File.close()
    flush_nodes = saves + [n for n in g.nodes if not is_save(n) and any(_is_concatenated_flush(c) for c in node_calls(n))]
    ok = all(protected(g, n, closes) for n in flush_nodes)
    res.inst("Workspace.close: File.close() also when the final flush raises", nontrivial=True, ok=ok or not flush_nodes)
    if flush_nodes and not ok:
        res.find("Workspace", "close", "File.close() is skipped when the final save raises", cl.where,
                 "an exception raised by the final flush (device error, an entity that cannot be serialised) leaves close() before "
                 "File.close(): the with-block is left, the HDF5 handle stays open and the file stays locked")
    # the writable-mode test, whatever its spelling (inline, through a local, negated, in a helper, through a property or a
    # flag of the workspace cached elsewhere): a test of close() that comes out differently for handles in different modes
    ws_cls = ctx.p.cls("Workspace")
    fields = {}
    requests = set()
    def resolve(tx, depth=0):
        """meanings of the attributes of self / argument-less methods of self read by the expression (and by those meanings)"""
        called = {id(c.func) for c in ast.walk(tx) if isinstance(c, ast.Call)}
        for a in ast.walk(tx):
            if isinstance(a, ast.Call) and not a.args and not a.keywords and isinstance(a.func, ast.Attribute) and isinstance(a.func.value, ast.Name) and a.func.value.id == sn:
                key, name = f"{sn}.{a.func.attr}()", a.func.attr  # an argument-less method the normaliser left in place
            elif isinstance(a, ast.Attribute) and id(a) not in called and isinstance(a.value, ast.Name) and a.value.id == sn and f"{sn}.{a.attr}" not in handle_texts:
                key, name = f"{sn}.{a.attr}", a.attr
            else:
                continue
            if key in fields:
                continue
            # what the workspace remembers about the REQUEST made to the method that binds the handle (the mode the handle is
            # opened with, stored in a field): it may restrict the flush in the read-only direction only - the obligations
            # below are stated for a workspace that was not asked for 'r'
            if not key.endswith("()") and key not in requests and _request_field(ctx, ws_cls, name):
                requests.add(key)
                continue
            if key in requests:
                continue
            m = self_field_meaning(ctx.p, ws_cls, name, sn)
            if m is None:
                continue
            fields[key] = m[0]
            # ... or a value computed from such a parameter and cached
            asked = _opened_with(ctx.view(m[1]))
            for x in ast.walk(m[0]):
                if isinstance(x, ast.Name) and x.id.endswith("@" + m[1].name) and x.id.split("@")[0] in asked:
                    requests.add(x.id)
            if depth < 3:
                resolve(m[0], depth + 1)

    for n in g.nodes:
        if n.kind == "test" and n.ast is not None:
            resolve(plain.x(n.ast))

    def with_mode(m, asked="r+"):
        value = {f"{t}.mode": m for t in handle_texts}
        value.update({r: asked for r in requests})
        return Facts(cl.node, truthy=opened, notnone=opened, value=value, fields=fields)

    writable = with_mode("r+")  # what h5py reports for every file opened 'r+', 'a', 'w', 'x'
    others = [with_mode(m) for m in ("r", "a", "w")]
    mode_tests = [n for n in g.nodes if n.kind == "test" and n.ast is not None and any(writable.ev(n.ast) != o.ev(n.ast) for o in others)]
    if not mode_tests:
        # the tests the final save depends on (it is reachable through one branch only), other than the already-closed guard
        def decides_save(t):
            sides = [any(is_save(x) for x in reach3(g, [m], avoid=lambda x, t=t: x is t)) for m, l in t.succ if l in ("true", "false")]
            return len(sides) == 2 and sides[0] != sides[1]

        deciding = [n for n in g.nodes if n.kind == "test" and n.ast is not None and is_open.ev(n.ast) is None and decides_save(n)]
        if not deciding:
            raise AnalysisError("Workspace.close: writable-mode test not found")
        res.inst("Workspace.close: the flush is decided by the mode of the handle being closed", nontrivial=True, ok=False)
        res.find("Workspace", "close", "the writable test of close() does not read the mode of the handle", f"{cl.module.relpath}:{deciding[0].lineno}",
                 "whether close() flushes is decided by a value that is not computed from the mode of the bound handle (open() can fall back to a "
                 "read-only handle, the requested mode says nothing about it): on such a handle the final save runs against a read-only file and "
                 "raises, File.close() is skipped and the HDF5 handle stays open; or pending operations of a writable handle are not flushed")
    else:
        res.inst("Workspace.close: the flush is decided by the mode of the handle being closed", nontrivial=True)
    if mode_tests:
        # a writable handle of a workspace that was asked for any of the writable modes
        ok = True
        for asked in ("r+", "a"):
            skipped = reach3(g, [g.entry], with_mode("r+", asked), avoid=is_save, normal_only=True)
            ok = ok and not any(closes(n) for n in skipped)
        res.inst("Workspace.close: on every writable path the final save happens before File.close()", nontrivial=True, ok=ok)
        if not ok:
            res.find("Workspace", "close", "the final save of the root subtree is conditional", cl.where,
                     "operations completed before the close (entities created with save_on_creation=False, moved children) are not in the file for some workspaces")
    # save_as: the source is closed (flushed) before its bytes are copied, wherever the copy is written (helper or inline)
    sa = ctx.view("Workspace.save_as")
    sn2 = sa.self_name or "self"
    g2 = CFG(sa.node)
    copies = [n for n in g2.nodes if any(_is_byte_copy(c) for c in node_calls(n))]
    closes2 = lambda n: any(unparse(c.func) == f"{sn2}.close" for c in node_calls(n))  # noqa: E731
    if not copies:
        raise AnalysisError("Workspace.save_as: byte copy not found")
    opened2 = {f"{sn2}._geoh5": True, f"{sn2}.geoh5": True}
    unflushed = reach3(g2, [g2.entry], Facts(sa.node, truthy=opened2, notnone=opened2), avoid=closes2)
    ok = not any(c in unflushed for c in copies) and all(not (set(reach3(g2, [c])) & {n for n in g2.nodes if closes2(n)}) for c in copies)
    res.inst("Workspace.save_as: close() (flush) precedes the byte copy", nontrivial=True, ok=ok)
    if not ok:
        res.find("Workspace", "save_as", "bytes are copied before the workspace is closed", sa.where,
                 "the copy is taken from an open, unflushed file: the saved file misses everything done since the source was last closed")
    return res


def _acquisition_args(fn) -> list:
    """Alias-expanded argument expressions of the call(s) whose result `fn` stores in the gateway field `self._geoh5`, directly or
    through a local (`fn`: a normalised view, so that a helper that opens the file or does the binding is seen)."""
    stored = [x.value for x in ast.walk(fn.node) if isinstance(x, (ast.Assign, ast.AnnAssign)) and x.value is not None and _is_gateway(fn, _target(x))]
    values = []
    for v in stored:
        if isinstance(v, ast.Name):
            values += [x.value for x in ast.walk(fn.node) if isinstance(x, (ast.Assign, ast.AnnAssign)) and x.value is not None and isinstance(_target(x), ast.Name) and _target(x).id == v.id]
        else:
            values.append(v)
    facts = Facts(fn.node)
    out = []
    for v in values:
        for c in ast.walk(v):
            if isinstance(c, ast.Call):
                out += [facts.x(arg) for arg in list(c.args) + [k.value for k in c.keywords]]
    return out


def _opened_with(fn) -> set:
    """Parameters of `fn` that the handle it binds into the gateway field is opened with."""
    return {a.id for arg in _acquisition_args(fn) for a in ast.walk(arg) if isinstance(a, ast.Name)} & set(fn.params)


def _stores_field(fi, field):
    """Values stored into `self.<field>` by the function (its own statements)."""
    sn = fi.self_name
    if sn is None:
        return []
    out = []
    for x in ast.walk(fi.node):
        if isinstance(x, (ast.Assign, ast.AnnAssign)) and x.value is not None:
            tgs = x.targets if isinstance(x, ast.Assign) else [x.target]
            if any(isinstance(t, ast.Attribute) and t.attr == field and isinstance(t.value, ast.Name) and t.value.id == sn for t in tgs):
                out.append(x.value)
    return out


def _co_targets(fi, field) -> list:
    """[(value, names bound to the same value in that statement)] for the stores of `self.<field>` (`self.f = name = <value>`)."""
    sn = fi.self_name
    out = []
    for x in ast.walk(fi.node):
        if isinstance(x, ast.Assign) and any(isinstance(t, ast.Attribute) and t.attr == field and isinstance(t.value, ast.Name) and t.value.id == sn for t in x.targets):
            out.append((x.value, {t.id for t in x.targets if isinstance(t, ast.Name)}))
    return out


def _request_field(ctx, cls, field) -> bool:
    """`self.<field>` remembers what the handle was asked to be opened with: wherever the class stores it (the constant default
    of __init__ aside), the stored value is - modulo local aliases, in the normalised view of the method that binds the
    handle - one of the non-constant arguments of the call whose result that method puts in the gateway field (the requested
    mode, read into a local first or not, stored before or after the bind, in the method or in a helper it calls)."""
    members = list(cls.methods.values()) + [f for q in cls.props.values() for f in (q.getter, q.setter) if f is not None]
    sites = [fi for fi in members if any(not (fi.name == "__init__" and isinstance(v, ast.Constant)) for v in _stores_field(fi, field))]
    if not sites:
        return False
    site_names = {fi.name for fi in sites}
    binders = []
    for fi in members:
        if fi.self_name is None:
            continue
        calls_site = any(isinstance(c, ast.Call) and isinstance(c.func, ast.Attribute) and c.func.attr in site_names for c in ast.walk(fi.node))
        if fi.name not in site_names and not calls_site:
            continue
        v = ctx.view(fi)
        stored = [x for x in _stores_field(v, field) if not (fi.name == "__init__" and isinstance(x, ast.Constant))]
        opened = {unparse(a) for a in _acquisition_args(v) if not isinstance(a, ast.Constant)}
        if not stored or not opened:
            continue
        facts = Facts(v.node)
        # (`self.f = mode = <value>`: the field and the name the file is opened with are bound to the same value)
        also = {id(val): names for val, names in _co_targets(v, field)}
        if not all(facts.text(x) in opened or (also.get(id(x), set()) & opened) for x in stored):
            return False
        binders.append(fi)
    if not binders:
        return False
    for s_ in sites:
        if any(b is s_ for b in binders):
            continue
        if not any(isinstance(c, ast.Call) and isinstance(c.func, ast.Attribute) and c.func.attr == s_.name for b in binders for c in ast.walk(b.node)):
            return False
    return True


def _is_concatenated_flush(c) -> bool:
    """A call that persists the deferred attribute records of a drillhole group: it names the stored field
    'concatenated_attributes' (`self.update_attribute(group, "concatenated_attributes")`, `group.save_attribute(..)`)."""
    return any(isinstance(a, ast.Constant) and a.value == "concatenated_attributes" for a in list(c.args) + [k.value for k in c.keywords])


def _is_final_save(c, facts) -> bool:
    """`self._io_call(H5Writer.save_entity, ..)` (the writer entry point possibly read into a local first)."""
    if not (isinstance(c.func, ast.Attribute) and c.func.attr == "_io_call" and c.args):
        return False
    return facts.text(c.args[0]) == "H5Writer.save_entity"


def _is_byte_copy(c) -> bool:
    if unparse(c.func) in ("shutil.copy", "shutil.copyfile", "shutil.copy2", "shutil.copyfileobj"):
        return True
    if isinstance(c.func, ast.Attribute) and c.func.attr in ("write", "getbuffer", "write_bytes", "getvalue"):
        return True
    return isinstance(c.func, ast.Name) and c.func.id in ("copyfile", "copy2", "copyfileobj")


def rule_exit(ctx) -> RuleResult:
    res = RuleResult(
        "C11.EXIT",
        "C11",
        "Workspace.__exit__ calls close() unconditionally and returns nothing truthy (exceptions escaping a with-block "
        "still close the file and are not swallowed); helper context managers close in `finally`",
        floor=3,
    )
    p = ctx.p
    ex = ctx.view("Workspace.__exit__")
    sn = ex.self_name or "self"
    g = CFG(ex.node)
    closes = lambda n: any(path_text(c.func, ex.node) == f"{sn}.close" for c in node_calls(n))  # noqa: E731
    ok = g.exit not in reach3(g, [g.entry], avoid=closes) and any(closes(n) for n in g.nodes)
    res.inst("__exit__: self.close() on every path", nontrivial=True, ok=ok)
    if not ok:
        res.find("Workspace", "__exit__", "close() is conditional or missing", ex.where,
                 "leaving a with-block (normally or through an exception) can leave the file open")
    rets = [r for r in ast.walk(ex.node) if isinstance(r, ast.Return) and not falsy_result(r.value, ex.node)]
    ok = not rets
    res.inst("__exit__: returns nothing truthy (does not swallow exceptions)", ok=ok)
    if not ok:
        res.find("Workspace", "__exit__", f"returns {unparse(truthy_source(rets[0].value, ex.node))}", ex.where, "exceptions raised inside the with-block are swallowed")
    base_ok = any((b if isinstance(b, str) else b.name) == "AbstractContextManager" for b in p.cls("Workspace").bases)
    has_enter = p.cls("Workspace").lookup("__enter__") is not None or base_ok
    res.inst("Workspace is a context manager (__enter__ from AbstractContextManager returns self)", ok=has_enter)
    if not has_enter:
        res.find("Workspace", "__enter__", "no __enter__", p.cls("Workspace").where, "`with Workspace(...)` no longer works")
    for spec in ("shared/utils.py:fetch_active_workspace", "shared/utils.py:fetch_h5_handle"):
        fn = p.func(spec)
        g = CFG(fn.node)
        acqs = [_model(p, fn, g, c, k) for f, c, k in _acq(ctx) if f.node is fn.node]
        for y in [n for n in ast.walk(fn.node) if isinstance(n, ast.Yield)]:
            yn = node_of(g, y)
            if yn is None:
                raise AnalysisError(f"{fn.qualname}:{y.lineno}: yield not found in the control-flow graph")
            # the handles this helper opened itself that are still open when control is handed to the caller's with-block
            held = [m for m in acqs if m.acq is not None and m.held_at(yn)]
            ok = all(m.protected(yn) for m in held)
            what = "yield inside try/finally" if held else "yield: nothing opened by the helper is held here (no cleanup owed)"
            res.inst(f"{fn.qualname}:{y.lineno} {what}", ok=ok)
            if not ok:
                res.find("utils", fn.name, "yield outside try/finally", f"{fn.module.relpath}:{y.lineno}",
                         "an exception in the caller's with-block skips the cleanup of the handle this helper opened")
    return res


def rule_gate(ctx) -> RuleResult:
    res = RuleResult(
        "C11.GATE",
        "C11",
        "after close, any call that needs the file meets the raising property: _io_call reaches the handle only through "
        "self.geoh5 and converts Geoh5FileClosedError into the dedicated closed-file / file-not-found errors",
        floor=3,
    )
    p = ctx.p
    io = ctx.view("Workspace._io_call")
    sn = io.self_name or "self"
    g = CFG(io.node)
    # the handlers that intercept the closed-file error raised in the body of _io_call: its own `except` clauses, or those
    # around the `yield` of a generator context manager the body runs in (`with self._guard(..):`)
    catches = lambda h: h.type is not None and "Geoh5FileClosedError" in unparse(h.type)  # noqa: E731
    hs = handlers_around(p, io, catches, view=ctx.view)
    ok = bool(hs) and all(any(isinstance(x, ast.Raise) for x in ast.walk(h)) for _f, _t, h in hs)
    # ... on every path through the handler: it never completes normally (in a generator context manager that would
    # swallow the error: the with-block ends silently and _io_call returns None)
    for owner, _t, h in hs:
        og = g if owner is io else CFG(owner.node)
        hn = next((n for n in og.nodes if n.kind == "except" and n.ast is h), None)
        if hn is None or og.exit in reach3(og, [hn]):
            ok = False
    res.inst("_io_call: `except Geoh5FileClosedError` re-raises a dedicated error", ok=ok)
    if not ok:
        res.find("Workspace", "_io_call", "closed-file error is swallowed", io.where, "calls on a closed workspace return None instead of raising")
    for _f, _t, h in hs:
        g_ok = all(not (isinstance(s, ast.Return)) for s in ast.walk(h))
        res.inst("_io_call: the closed-file handler has no return (never yields stale / empty results)", ok=g_ok)
        if not g_ok:
            res.find("Workspace", "_io_call", "closed-file handler returns a value", io.where, "stale or empty results after close")
    gp = ctx.view("Workspace.geoh5")
    raises = [r for r in ast.walk(gp.node) if isinstance(r, ast.Raise) and "Geoh5FileClosedError" in unparse(r)]
    ok = bool(raises)
    res.inst("Workspace.geoh5 raises Geoh5FileClosedError", ok=ok)
    if not ok:
        res.find("Workspace", "geoh5", "does not raise Geoh5FileClosedError", gp.where, "closed handles are handed out")
    # the early `return None` of _io_call is only for `_geoh5 is None` (a workspace that never had a file): once there is a
    # handle object, open or closed, no path may end in a silent None
    has_handle = Facts(io.node, notnone={f"{sn}._geoh5": True})
    live = reach3(g, [g.entry], has_handle)
    early = [n for n in g.nodes if n.kind == "return" and (n.ast is None or falsy_result(n.ast, io.node))]
    for n in early:
        ok = n not in live
        res.inst(f"_io_call: `return None` only under `self._geoh5 is None` (line {n.lineno})", ok=ok)
        if not ok:
            res.find("Workspace", "_io_call", "silent None result", f"{io.module.relpath}:{n.lineno}", "a closed workspace silently returns None")
    # ... and no other answer either: once there is a handle object, every way out of the gateway that the gateway itself decides
    # (a `raise` of its own, a `return`) comes after the raising handle property was evaluated on that path - a test that can
    # short-circuit around the property (a cheaper operand first) lets a closed workspace get the answer meant for an open one
    raising = _raising_properties(ctx)
    reads_handle = lambda e: isinstance(e, ast.Attribute) and e.attr in raising and isinstance(e.value, ast.Name) and e.value.id == sn  # noqa: E731

    def evaluates_handle(n, outcome):
        if n.kind == "test":
            return any(reads_handle(x) for x in surely_evaluated(n.ast, outcome))
        return any(reads_handle(x) for e in node_exprs(n) for x in surely_evaluated(e, None))

    unchecked = must_pass(g, has_handle, evaluates_handle)
    answers = [n for n in g.nodes if n.kind in ("return", "raise") and n in unchecked and not evaluates_handle(n, None)]
    ok = not answers
    res.inst("_io_call: every answer of the gateway comes after the raising handle property was evaluated", nontrivial=True, ok=ok)
    if not ok:
        res.find("Workspace", "_io_call", "an answer is given before the closed-file check", f"{io.module.relpath}:{answers[0].lineno}",
                 "on some path the gateway raises / returns without having evaluated the handle property that raises on a closed file "
                 "(a test short-circuits around it): a call made after close() gets that answer instead of the closed-file error")
    return res


def _raising_properties(ctx) -> set:
    """Names of the properties of Workspace whose getter raises Geoh5FileClosedError (the raising handle property)."""
    ws = ctx.p.cls("Workspace")
    out = set()
    for name, pr in ws.props.items():
        if pr.getter is not None and any(isinstance(r, ast.Raise) and "Geoh5FileClosedError" in unparse(r) for r in ast.walk(ctx.view(pr.getter).node)):
            out.add(name)
    return out


def _is_gateway_use(c, sn, raising) -> bool:
    return isinstance(c.func, ast.Attribute) and c.func.attr == "_io_call" and isinstance(c.func.value, ast.Name) and c.func.value.id == sn


def rule_stale(ctx) -> RuleResult:
    res = RuleResult(
        "C11.STALE",
        "C11",
        "after closing, a call that needs the file does not serve what is cached in memory: in every method of Workspace that reads "
        "the file through the gateway, a `return` of state held by an argument (an attribute path of a parameter: cached children, "
        "cached values) comes, on every path where that argument is on file, after the gateway (or the raising handle property) "
        "was consulted",
        floor=5,
    )
    p = ctx.p
    ws = p.cls("Workspace")
    raising = _raising_properties(ctx)
    members = list(ws.methods.values()) + [f for q in ws.props.values() for f in (q.getter, q.setter) if f is not None]
    for fi in members:
        sn = fi.self_name
        if sn is None:
            continue
        # (on the normalised view: the read may sit in a helper the method calls)
        v = ctx.view(fi)
        reads = [c for c in ast.walk(v.node) if isinstance(c, ast.Call) and _is_gateway_use(c, sn, raising) and c.args and isinstance(c.args[0], ast.Attribute)
                 and _is_reader_entry(p, fi, c.args[0])]
        if not reads:
            continue
        g = CFG(v.node)
        params = [a for a in v.params if a != sn]
        facts = Facts(v.node, truthy={f"{a}.on_file": True for a in params}, notnone={a: True for a in params})

        def consults(n, outcome, sn=sn):
            exprs = [x for x in surely_evaluated(n.ast, outcome)] if n.kind == "test" else [x for e in node_exprs(n) for x in surely_evaluated(e, None)]
            return any((isinstance(x, ast.Call) and _is_gateway_use(x, sn, raising)) or
                       (isinstance(x, ast.Attribute) and x.attr in raising and isinstance(x.value, ast.Name) and x.value.id == sn) for x in exprs)

        unchecked = must_pass(g, facts, consults)

        def cached_state(e):
            e = facts.x(e)
            if not isinstance(e, ast.Attribute):
                return False
            root = e
            while isinstance(root, (ast.Attribute, ast.Subscript)):
                root = root.value
            return isinstance(root, ast.Name) and root.id in params and not any(isinstance(x, (ast.Call, ast.Await)) for x in ast.walk(e))

        served = [n for n in g.nodes if n.kind == "return" and n.ast is not None and cached_state(n.ast)]
        bad = [n for n in served if n in unchecked and not consults(n, None)]
        res.inst(f"{fi.qualname}: {len(served)} return(s) of an argument's cached state, each after the gateway was consulted", nontrivial=bool(served), ok=not bad)
        for n in bad:
            res.find("Workspace", fi.prop or fi.name, "cached state of an argument returned without consulting the file", f"{fi.module.relpath}:{n.lineno}",
                     f"{fi.qualname} reads the file on other paths but returns `{unparse(facts.x(n.ast))}` without going through the gateway: on a closed "
                     "workspace the call serves what was cached before the close instead of raising the closed-file error")
    return res


def _is_reader_entry(p, fi, expr) -> bool:
    """`H5Reader.<function>`: an attribute of the reader class of the package."""
    r = p.resolve_name(fi.module, expr.value.id) if isinstance(expr.value, ast.Name) else None
    return bool(r and r[0] == "class" and r[1].name == "H5Reader")


def _registries(ctx) -> list:
    """The uid registries of the workspace, by what they are: fields bound to an empty mapping by Workspace.__init__ that
    Workspace.register() files entities into (named there as `self.<field>` or, table-driven, by the field's name)."""
    init = ctx.view("Workspace.__init__")
    sn = init.self_name or "self"
    made = set()
    for fields in field_resets(CFG(init.node), init.node, sn).values():
        made |= fields
    named = set()
    seen = set()

    def mentions(fi, depth):
        """fields of self / field names that register() refers to, helpers it hands the choice of the registry to included"""
        if id(fi.node) in seen or depth > 2:
            return
        seen.add(id(fi.node))
        v = ctx.view(fi)
        rsn = v.self_name or "self"
        for x in ast.walk(v.node):
            if isinstance(x, ast.Attribute) and isinstance(x.value, ast.Name) and x.value.id == rsn:
                named.add(x.attr)
            elif isinstance(x, ast.Constant) and isinstance(x.value, str):
                named.add(x.value)
            elif isinstance(x, ast.Call):
                callee = resolve_callee(ctx.p, v, x)
                if callee is not None and callee.cls is not None and callee.cls is fi.cls:
                    mentions(callee, depth + 1)

    mentions(ctx.p.func("Workspace.register"), 0)
    return sorted(made & named)


def rule_reopen(ctx) -> RuleResult:
    res = RuleResult(
        "C11.REOPEN",
        "C11",
        "re-opening restores access to the content of the file, not of the previous session: on every normal path of "
        "Workspace.open() that binds a new handle, every uid registry that register() files entities into is re-bound to a "
        "fresh empty mapping (the tree loaded afterwards is built from the file, not wired to objects cached before the close)",
        floor=3,
    )
    regs = _registries(ctx)
    if len(regs) < 2:
        raise AnalysisError(f"Workspace: uid registries (fields of __init__ that register() fills) not found: {regs}")
    op = ctx.view("Workspace.open")
    sn = op.self_name or "self"
    g = CFG(op.node)
    resets = field_resets(g, op.node, sn)
    stores = [n for n in g.nodes if n.kind == "stmt" and isinstance(n.ast, (ast.Assign, ast.AnnAssign)) and _is_gateway(op, _target(n.ast))]
    closed = Facts(op.node, truthy={f"{sn}._geoh5": False})
    for x in regs:
        avoid = lambda n, x=x: x in resets.get(n, ())  # noqa: E731
        if stores:
            before = reach3(g, [g.entry], avoid=avoid)
            ok = not any(s_ in before and g.exit in reach3(g, [s_], avoid=avoid) for s_ in stores)
        else:
            # the handle is bound somewhere the view does not show: every normal path of open() on a closed workspace
            ok = g.exit not in reach3(g, [g.entry], closed, avoid=avoid)
        res.inst(f"Workspace.open: registry {x} reset on every path that binds a new handle", nontrivial=True, ok=ok)
        if not ok:
            res.find("Workspace", "open", f"registry {x} is not reset on re-open", op.where,
                     f"after close() and open() the tree is reloaded while {x} still holds the previous session's objects: lookups by uid return "
                     "stale objects instead of what is in the file (and the next write of such an object overwrites the file content)")
    return res


def _caller_assignable(cls, name) -> bool:
    """`self.<name>` can be given any value by the users of the class: a public property with a setter, or a public plain
    attribute (not a method, not a read-only property)."""
    if name.startswith("_"):
        return False
    pr = cls.props.get(name)
    if pr is not None:
        return pr.setter is not None
    m = cls.lookup(name)
    return m is None


def rule_flush(ctx) -> RuleResult:
    res = RuleResult(
        "C11.FLUSH",
        "C11",
        "every operation completed before the close is in the file: the write-back of the pending concatenated attribute records in "
        "Workspace.close() does not depend on a value the users of the workspace can clear (a public setter): with every such "
        "value cleared, the write-back is still reachable on the writable path",
        floor=1,
    )
    cl = ctx.view("Workspace.close")
    sn = cl.self_name or "self"
    g = CFG(cl.node)
    flushes = [n for n in g.nodes if any(_is_concatenated_flush(c) for c in node_calls(n))]
    if not flushes:
        res.inst("Workspace.close: no deferred write-back of concatenated attributes (nothing to decide)")
        return res
    ws_cls = ctx.p.cls("Workspace")
    plain = Facts(cl.node)
    handle_texts = (f"{sn}._geoh5", f"{sn}.geoh5")
    switches = {}
    for n in g.nodes:
        if n.kind == "test" and n.ast is not None:
            tx = plain.x(n.ast)
            called = {id(c.func) for c in ast.walk(tx) if isinstance(c, ast.Call)}
            for a in ast.walk(tx):
                if isinstance(a, ast.Attribute) and id(a) not in called and isinstance(a.value, ast.Name) and a.value.id == sn and _caller_assignable(ws_cls, a.attr):
                    switches[f"{sn}.{a.attr}"] = False
    truthy = {t: True for t in handle_texts}
    truthy.update(switches)
    cleared = Facts(cl.node, truthy=truthy, notnone={t: True for t in handle_texts}, value={f"{t}.mode": "r+" for t in handle_texts})
    live = reach3(g, [g.entry], cleared)
    ok = any(n in live for n in flushes)
    names = ", ".join(sorted(switches)) or "-"
    res.inst(f"Workspace.close: write-back of concatenated attributes reachable with the caller-assignable values cleared ({names})", nontrivial=True, ok=ok)
    if not ok:
        res.find("Workspace", "close", "the write-back of pending concatenated attributes can be switched off through a public setter",
                 f"{cl.module.relpath}:{flushes[0].lineno}",
                 f"close() writes the pending attribute records of drillhole groups only while {names} is set, and any user of the workspace can "
                 "clear it before the close (it is also the documented request to repack the file): the records of the drillholes created or "
                 "edited in the session are then not in the file, which cannot be opened again")
    return res


RULES = [rule_pair, rule_exit, rule_gate, rule_reopen, rule_flush, rule_stale]
