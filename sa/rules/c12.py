"""C12 — copy: harvested mutable attributes are not shared by reference when the class mutates them in place."""

from __future__ import annotations

import ast

from ..model import AnalysisError, unparse
from ..report import RuleResult

IN_PLACE = {"update", "append", "extend", "insert", "remove", "pop", "clear", "setdefault", "sort", "reverse"}


def base_omit(ctx):
    """omit_list literal of Workspace.copy_to_parent's get_attributes call."""
    fn = ctx.p.func("Workspace.copy_to_parent")
    for n in ast.walk(fn.node):
        if isinstance(n, ast.Call) and unparse(n.func) == "get_attributes":
            for kw in n.keywords:
                if kw.arg == "omit_list":
                    lst = kw.value.left if isinstance(kw.value, ast.BinOp) else kw.value
                    if isinstance(lst, ast.List):
                        return {e.value for e in lst.elts if isinstance(e, ast.Constant)}
    raise AnalysisError("Workspace.copy_to_parent: omit_list of get_attributes not found")


def copied_on_harvest(ctx):
    """Keys of the harvested kwargs that copy_to_parent re-binds to a (deep) copy before constructing the new entity."""
    fn = ctx.p.func("Workspace.copy_to_parent")
    out = set()
    for n in ast.walk(fn.node):
        if isinstance(n, ast.Assign) and len(n.targets) == 1 and isinstance(n.targets[0], ast.Subscript) and isinstance(n.targets[0].slice, ast.Constant):
            v = n.value
            if isinstance(v, ast.Call) and (unparse(v.func) in ("deepcopy", "copy.deepcopy", "copy.copy", "dict") or (isinstance(v.func, ast.Attribute) and v.func.attr == "copy")):
                if unparse(n.targets[0].value) in unparse(v):
                    out.add(n.targets[0].slice.value)
    return out


def class_omit(ctx, K):
    """omit_list constants handed along K's copy chain (list literals or module constants named in copy())."""
    out = set()
    for c in K.mro:
        if isinstance(c, str):
            continue
        fn = c.methods.get("copy")
        if fn is None:
            continue
        for n in ast.walk(fn.node):
            lists = []
            if isinstance(n, ast.keyword) and n.arg == "omit_list":
                lists.append(n.value)
            # a local holding the list that is later passed as omit_list=<local> (whatever the local is called)
            passed = {unparse(k.value) for k in ast.walk(fn.node) if isinstance(k, ast.keyword) and k.arg == "omit_list" and isinstance(k.value, ast.Name)}
            if isinstance(n, ast.Assign) and any(isinstance(t, ast.Name) and t.id in passed for t in n.targets):
                lists.append(n.value)
            for v in lists:
                if isinstance(v, ast.Name):
                    r = ctx.p.resolve_name(fn.module, v.id)
                    if r and r[0] == "assign":
                        v = r[1][1]
                if isinstance(v, (ast.List, ast.Tuple)):
                    out |= {e.value for e in v.elts if isinstance(e, ast.Constant)}
    return out


def init_fields(K):
    out = set()
    for c in K.mro:
        if isinstance(c, str):
            continue
        fn = c.methods.get("__init__")
        if fn is None:
            continue
        for n in ast.walk(fn.node):
            if isinstance(n, ast.Attribute) and isinstance(n.ctx, ast.Store) and isinstance(n.value, ast.Name) and n.value.id == "self" and n.attr.startswith("_"):
                out.add(n.attr)
    return out


def rule_alias(ctx) -> RuleResult:
    res = RuleResult(
        "C12.ALIAS",
        "C12",
        "for every attribute harvested by copy_to_parent (instance fields minus the omit lists of the copy chain): not all of "
        "(getter returns the stored object itself) and (setter stores its argument by reference) and (a method of the class "
        "mutates the field in place) — otherwise copy and source share state observable through the API",
        floor=300,
    )
    p = ctx.p
    ent = p.cls("Entity")
    omit0 = base_omit(ctx)
    copied = copied_on_harvest(ctx)
    n_fields = 0
    for K in p.subclasses(ent):
        omit = omit0 | class_omit(ctx, K)
        for f in sorted(init_fields(K) - omit):
            prop = f[1:]
            m = K.lookup(prop)
            if not m or m[1] != "prop" or m[2].getter is None or m[2].setter is None:
                continue
            g, s = m[2].getter, m[2].setter
            n_fields += 1
            returns_self = any(isinstance(r, ast.Return) and _may_be_field(r.value, f, g) for r in ast.walk(g.node))
            arg = s.params[1] if len(s.params) > 1 else None
            by_ref = any(
                isinstance(a, ast.Assign) and any(unparse(t) == f"self.{f}" for t in a.targets) and isinstance(a.value, ast.Name) and a.value.id == arg
                and not _rebound(s, arg)
                for a in ast.walk(s.node)
            )
            mutators = []
            for c in K.mro:
                if isinstance(c, str):
                    continue
                members = list(c.methods.values()) + [x for pr in c.props.values() for x in (pr.getter, pr.setter) if x is not None and x.cls is c]
                for fn in members:
                    for n in ast.walk(fn.node):
                        if isinstance(n, ast.Call) and isinstance(n.func, ast.Attribute) and n.func.attr in IN_PLACE and unparse(n.func.value) == f"self.{f}":
                            mutators.append(f"{fn.qualname}:{n.lineno} {unparse(n)[:40]}")
                        if isinstance(n, ast.Subscript) and isinstance(n.ctx, (ast.Store, ast.Del)) and unparse(n.value) == f"self.{f}":
                            mutators.append(f"{fn.qualname}:{n.lineno} {unparse(n)[:40]}")
            shared = returns_self and by_ref and bool(mutators) and prop not in copied
            res.inst(f"{K.name}.{prop}: returns-stored={returns_self} stores-by-ref={by_ref} in-place-mutators={len(mutators)}",
                     nontrivial=returns_self and by_ref, ok=not shared)
            if shared:
                res.find(s.cls.name, prop, f"{f} shared by reference between source and copy and mutated in place", s.where,
                         f"copy_to_parent hands the source's {f} object to the copy's constructor; the setter keeps the reference and "
                         f"{mutators[0]} edits it in place: an edit of the copy's {prop} shows in the source",
                         resolved_on=K.name, mutators=mutators[:3])
    res.notes.append(f"omit list of copy_to_parent: {sorted(omit0)}; copied on harvest: {sorted(copied)}")
    if n_fields < 300:
        raise AnalysisError(f"C12.ALIAS: only {n_fields} harvested (class, field) pairs found")
    return res


def rule_shape(ctx) -> RuleResult:
    res = RuleResult(
        "C12.SHAPE",
        "C12",
        "(a) copy_to_parent's omit list keeps out every harvested field that holds a child entity (the copy would reference the "
        "source's child); (b) copy_property_groups remaps the members in the source group's own order; (c) the recursive "
        "child.copy(...) calls of the copy methods do not forward the caller's **kwargs (overrides meant for the copied "
        "entity would leak into its whole subtree); (d) mutable helper objects held by the entity type (colour map, value map) "
        "are re-created, not shared, when copy_to_parent builds the type of the copy",
        floor=10,
    )
    p = ctx.p
    ent = p.cls("Entity")
    omit0 = base_omit(ctx)
    fam = {c.name for c in p.subclasses(ent)}
    # (a) fields annotated with an entity class in __init__
    seen = set()
    for K in p.subclasses(ent):
        omit = omit0 | class_omit(ctx, K)
        for c in K.mro:
            if isinstance(c, str):
                continue
            fn = c.methods.get("__init__")
            if fn is None or (fn, K.name) in seen:
                continue
            for a in ast.walk(fn.node):
                if isinstance(a, ast.AnnAssign) and isinstance(a.target, ast.Attribute) and unparse(a.target.value) == "self":
                    names = {n.id for n in ast.walk(a.annotation) if isinstance(n, ast.Name)} | {
                        x for n in ast.walk(a.annotation) if isinstance(n, ast.Constant) and isinstance(n.value, str) for x in n.value.replace("|", " ").split()}
                    ents = sorted(names & fam)
                    if not ents:
                        continue
                    fld = a.target.attr
                    prop = fld[1:]
                    m = K.lookup(prop)
                    settable = bool(m and m[1] == "prop" and m[2].setter is not None)
                    key = (c.name, fld)
                    if key in seen:
                        continue
                    seen.add(key)
                    ok = fld in omit or not settable or fld in ("_parent", "_entity_type")
                    res.inst(f"{c.name}.{fld}: holds {ents}; omitted on copy: {fld in omit}; settable: {settable}", nontrivial=True, ok=ok)
                    if not ok:
                        res.find(c.name, prop, f"entity-valued field {fld} is harvested by copy_to_parent", fn.where,
                                 f"the copy's constructor receives the source's {ents[0]} object: the copy references a child of the source, and "
                                 "editing it through the copy rewrites the source's stored data")
    # (b) property-group remapping order
    cpg = p.func("Workspace.copy_property_groups")
    # the remapping: the list comprehension whose elements are looked up in the uid map (the function's last parameter)
    dmap = cpg.params[-1]
    # ... i.e. the local that becomes the "properties" entry of the new group's keyword arguments
    prop_locals = {unparse(v) for d in ast.walk(cpg.node) if isinstance(d, ast.Dict) for k, v in zip(d.keys, d.values)
                   if isinstance(k, ast.Constant) and k.value == "properties" and isinstance(v, ast.Name)}
    prop_locals |= {unparse(k.value) for k in ast.walk(cpg.node) if isinstance(k, ast.keyword) and k.arg == "properties" and isinstance(k.value, ast.Name)}
    comps = [a for a in ast.walk(cpg.node) if isinstance(a, ast.Assign) and isinstance(a.value, ast.ListComp) and unparse(a.targets[0]) in prop_locals
             and any(isinstance(x, ast.Name) and x.id == dmap for x in ast.walk(a.value))]
    if not comps:
        raise AnalysisError("Workspace.copy_property_groups: remapping comprehension not found")
    for a in comps:
        gen = a.value.generators[0]
        ok = unparse(gen.iter).endswith(".properties") and not gen.ifs
        res.inst(f"copy_property_groups: members remapped by iterating {unparse(gen.iter)}", nontrivial=True, ok=ok)
        if not ok:
            res.find("Workspace", "copy_property_groups", f"members remapped by iterating {unparse(gen.iter)[:40]}", f"{cpg.module.relpath}:{a.lineno}",
                     "the copied property group lists its members in the order of the uid map, not in the source group's order: ordered groups "
                     "(dip direction & dip, 3-D vectors) come out permuted")
    # (c) kwargs leak
    done = set()
    for K in p.subclasses(ent):
        fn = K.methods.get("copy")
        if fn is None or fn in done or fn.node.args.kwarg is None:
            continue
        done.add(fn)
        kw = fn.node.args.kwarg.arg
        for lp in [x for x in ast.walk(fn.node) if isinstance(x, ast.For) and "children" in unparse(x.iter)]:
            var = unparse(lp.target)
            for c in ast.walk(lp):
                if isinstance(c, ast.Call) and isinstance(c.func, ast.Attribute) and c.func.attr in ("copy", "copy_from_extent") and unparse(c.func.value) == var:
                    leak = any(k.arg is None and unparse(k.value) == kw for k in c.keywords)
                    res.inst(f"{fn.qualname}:{c.lineno} {var}.{c.func.attr}(...) forwards **{kw}: {leak}", nontrivial=True, ok=not leak)
                    if leak:
                        res.find(fn.cls.name, "copy", f"{var}.{c.func.attr}(...) receives the caller's **{kw}", f"{fn.module.relpath}:{c.lineno}",
                                 "attribute overrides given for the copied entity (name=..., public=...) are applied to every descendant as well: the "
                                 "subtree is not reproduced")
    # (d) mutable helper objects of the entity TYPE (colour map, value map) are re-created for the copy's type
    ety = p.cls("EntityType")
    ctp = p.func("Workspace.copy_to_parent")
    tk = None
    type_omit = set()
    for a in ast.walk(ctp.node):
        if isinstance(a, ast.Assign) and isinstance(a.value, ast.Call) and getattr(a.value.func, "id", None) == "get_attributes" and a.value.args \
                and unparse(a.value.args[0]).endswith(".entity_type") and isinstance(a.targets[0], ast.Name):
            tk = a.targets[0].id
            for k in a.value.keywords:
                if k.arg == "omit_list":
                    type_omit |= {c.value for c in ast.walk(k.value) if isinstance(c, ast.Constant) and isinstance(c.value, str)}
    if tk is None:
        raise AnalysisError("Workspace.copy_to_parent: harvest of entity.entity_type not found")
    recreated = {a.targets[0].slice.value for a in ast.walk(ctp.node) if isinstance(a, ast.Assign) and isinstance(a.targets[0], ast.Subscript)
                 and unparse(a.targets[0].value) == tk and isinstance(a.targets[0].slice, ast.Constant)
                 and not (isinstance(a.value, ast.Name) or unparse(a.value).startswith(f"{tk}"))}
    type_fam = {c.name for c in p.subclasses(ety)}

    def mutable_helper(name):
        try:
            H = p.cls(name)
        except AnalysisError:
            return False
        if H.name in fam or H.name in type_fam or H.synthetic:
            return False
        return any(pr.setter is not None for pr in H.props.values()) or "__setitem__" in H.methods

    seen_t = set()
    for T in p.subclasses(ety):
        for c in T.mro:
            if isinstance(c, str) or c.name in seen_t:
                continue
            seen_t.add(c.name)
            fns = list(c.methods.values()) + [f for pr in c.props.values() for f in (pr.getter, pr.setter) if f is not None and f.cls is c]
            for fn in fns:
                for a in ast.walk(fn.node):
                    if isinstance(a, ast.AnnAssign) and isinstance(a.target, ast.Attribute) and unparse(a.target.value) == "self":
                        names = {n.id for n in ast.walk(a.annotation) if isinstance(n, ast.Name)}
                        helpers = sorted(n for n in names if mutable_helper(n))
                        if not helpers:
                            continue
                        fld = a.target.attr
                        if (c.name, fld) in seen_t:
                            continue
                        seen_t.add((c.name, fld))
                        ok = fld in type_omit or fld.lstrip("_") in recreated
                        res.inst(f"{c.name}.{fld}: holds a mutable {helpers[0]}; re-created for the copy's type: {ok}", nontrivial=True, ok=ok)
                        if not ok:
                            res.find(c.name, fld.lstrip("_"), f"type field {fld} ({helpers[0]}) is handed to the copy's type as the same object", f"{ctp.module.relpath}:{ctp.node.lineno}",
                                     f"a type created for the copy (other workspace) shares the source type's {helpers[0]}: editing the copy's {fld.lstrip('_')} "
                                     "changes the source's, and helpers that point back to their type are re-pointed to the copy's type")
    return res


def _may_be_field(e, f, g) -> bool:
    """The expression may evaluate to the very object stored in self.<f>."""
    if e is None:
        return False
    if unparse(e) == f"self.{f}":
        return True
    if isinstance(e, ast.BoolOp):
        return any(_may_be_field(v, f, g) for v in e.values)
    if isinstance(e, ast.IfExp):
        return _may_be_field(e.body, f, g) or _may_be_field(e.orelse, f, g)
    if isinstance(e, ast.Name):
        return any(isinstance(a, ast.Assign) and any(isinstance(t, ast.Name) and t.id == e.id for t in a.targets) and _may_be_field(a.value, f, g)
                   for a in ast.walk(g.node))
    return False


def _rebound(fn, name) -> bool:
    """The parameter is re-assigned (converted / copied) before being stored."""
    for n in ast.walk(fn.node):
        if isinstance(n, ast.Assign) and any(isinstance(t, ast.Name) and t.id == name for t in n.targets):
            v = unparse(n.value)
            if any(tok in v for tok in ("copy(", "deepcopy(", "dict(", "list(", "np.asarray", "np.array", "np.r_", ".astype", "tolist")):
                return True
    return False


def rule_fresh(ctx) -> RuleResult:
    res = RuleResult(
        "C12.FRESH",
        "C12",
        "every NumericData.format_type implementation returns a fresh array (astype without copy=False, np.array ...): a copy is "
        "built by handing the source's values to the copy's values setter, which stores format_type's result — a pass-through "
        "would make source and copy share one buffer",
        floor=3,
    )
    from .c04 import is_fresh

    p = ctx.p
    seen = set()
    for K in p.subclasses(p.cls("NumericData")):
        fn = K.methods.get("format_type")
        if fn is None or fn in seen:
            continue
        seen.add(fn)
        for r in [x for x in ast.walk(fn.node) if isinstance(x, ast.Return) and x.value is not None]:
            ok = is_fresh(r.value)
            res.inst(f"{K.name}.format_type returns {unparse(r.value)[:50]} (fresh: {ok})", nontrivial=True, ok=ok)
            if not ok:
                res.find(K.name, "format_type", f"returns {unparse(r.value)[:50]}, which may be the caller's array itself", f"{fn.module.relpath}:{r.lineno}",
                         "the values setter stores the very array it was handed: a copy made from the source's values shares its buffer, and an "
                         "in-place edit of the copy's values silently changes the source")
    st = p.cls("NumericData").props["values"].setter
    ok = any(isinstance(a, ast.Assign) and unparse(a.targets[0]) == "self._values" and unparse(a.value).startswith("self.format_values(") for a in ast.walk(st.node))
    res.inst("NumericData.values setter stores format_values(...) (which ends in format_type)", ok=ok)
    if not ok:
        res.find("NumericData", "values", "setter does not go through format_values", st.where, "raw arrays are stored by reference")
    fv = p.cls("NumericData").methods["format_values"]
    last = [a for a in ast.walk(fv.node) if isinstance(a, ast.Assign) and "format_type" in unparse(a.value)]
    rets = [r for r in ast.walk(fv.node) if isinstance(r, ast.Return) and r.value is not None and unparse(r.value) != fv.params[1] or False]
    ok = bool(last)
    res.inst("format_values ends with values = self.format_type(values)", ok=ok)
    if not ok:
        res.find("NumericData", "format_values", "format_type no longer applied", fv.where, "stored values are neither coerced nor copied")
    return res


RULES = [rule_alias, rule_fresh, rule_shape]
