"""C12 — copy: harvested mutable attributes are not shared by reference when the class mutates them in place.

The sites are located by what they DO on the normalised code (ctx.view: private helpers expanded, hoisted constants
substituted) and locals are followed to where their value comes from (_c12_flow.Flow), so that renaming locals, extracting /
inlining helpers, hoisting the omit lists, aliasing `self.workspace`, reading a getter once into a local, guard clauses or
conditional expressions do not change a verdict."""

from __future__ import annotations

import ast

from ..model import AnalysisError, unparse
from ..report import RuleResult
from ._c12_flow import Flow, argument, call_name, certain_strings, inline_closures, instance_facts, isinstance_of, parents, test_facts, top_types

IN_PLACE = {"update", "append", "extend", "insert", "remove", "pop", "clear", "setdefault", "sort", "reverse"}
COPY_CALLS = ("deepcopy", "copy.deepcopy", "copy.copy", "dict")
ORDER_KEEPING = ("list", "tuple", "iter")


# ---------------------------------------------------------------------------------------------- normalised views
def _record_resolver(ctx, module):
    """call -> field names when the call constructs a NamedTuple / dataclass of the package (positional construction order)"""
    def fields(call):
        r = ctx.p.resolve_expr(module, call.func) if isinstance(call.func, (ast.Name, ast.Attribute)) else None
        if not r or r[0] != "class" or r[1].node is None:
            return None
        K = r[1]
        key = ("c12.record", id(K.node))
        if key not in ctx.cache:
            is_record = any(unparse(b).split(".")[-1] == "NamedTuple" for b in K.node.bases) or any("dataclass" in unparse(d) for d in K.node.decorator_list)
            ctx.cache[key] = [st.target.id for st in K.node.body if isinstance(st, ast.AnnAssign) and isinstance(st.target, ast.Name)] if is_record else None
        return ctx.cache[key]

    return fields


def _flow(ctx, fn, inline=True):
    """(view, Flow) of a function, cached.  On top of the normaliser's view, calls to LOCAL closures are expanded in place and small
    records (NamedTuple / dataclass) are seen through when they are unpacked or their fields are read."""
    key = ("c12.flow", id(fn.node), inline)
    if key not in ctx.cache:
        v = ctx.view(fn, inline=inline) if inline else fn
        if any(isinstance(x, ast.FunctionDef) and x is not v.node for x in ast.walk(v.node)):
            from dataclasses import replace

            v = replace(v, node=inline_closures(v.node))
        ctx.cache[key] = (v, Flow(v.node, _record_resolver(ctx, fn.module)))
    return ctx.cache[key]


def _self_attr(e, self_name, names) -> bool:
    return isinstance(e, ast.Attribute) and isinstance(e.value, ast.Name) and e.value.id == self_name and e.attr in names


def _param_index(ctx, module, callee_name, param, default):
    r = ctx.p.resolve_name(module, callee_name)
    if r and r[0] == "func" and param in r[1].params:
        return r[1].params.index(param)
    return default


def _harvests(ctx):
    """copy_to_parent (normalised), its Flow, the get_attributes calls harvesting the ENTITY and those harvesting its TYPE,
    and the position of the omit list among get_attributes' parameters."""
    if "c12.harvests" in ctx.cache:
        return ctx.cache["c12.harvests"]
    fn = ctx.p.func("Workspace.copy_to_parent")
    v, fl = _flow(ctx, fn)
    ent = fn.params[1] if len(fn.params) > 1 else None
    subj_i = _param_index(ctx, fn.module, "get_attributes", "entity", 0)
    omit_i = _param_index(ctx, fn.module, "get_attributes", "omit_list", 1)
    ent_calls, type_calls = [], []
    for n in ast.walk(v.node):
        if isinstance(n, ast.Call) and call_name(n) == "get_attributes":
            subject = argument(n, subj_i, "entity")
            for o in fl.origins(subject):
                if isinstance(o, ast.Name) and o.id == ent and n not in ent_calls:
                    ent_calls.append(n)
                elif isinstance(o, ast.Attribute) and o.attr == "entity_type" and fl.is_param(o.value, ent) and n not in type_calls:
                    type_calls.append(n)
    ctx.cache["c12.harvests"] = (fn, v, fl, ent_calls, type_calls, omit_i)
    return ctx.cache["c12.harvests"]


def _dict_stores(fl: Flow, root, calls):
    """(key, value expr, statement) for every store of a constant key into a dict that may be the result of one of `calls`:
    d[k] = v, d.update(k=v), d.update({k: v}), d.__setitem__(k, v)."""
    def is_h(e):
        return any(fl.holds_entries_of(e, c) for c in calls)

    for n in ast.walk(root):
        if isinstance(n, (ast.Assign, ast.AnnAssign)) and n.value is not None:
            for t in (n.targets if isinstance(n, ast.Assign) else [n.target]):
                if isinstance(t, ast.Subscript) and isinstance(t.slice, ast.Constant) and is_h(t.value):
                    yield t.slice.value, n.value, n
        elif isinstance(n, ast.Call) and isinstance(n.func, ast.Attribute) and is_h(n.func.value):
            if n.func.attr == "update":
                for k in n.keywords:
                    if k.arg is not None:
                        yield k.arg, k.value, n
                for a in n.args:
                    if isinstance(a, ast.Dict):
                        for k, val in zip(a.keys, a.values):
                            if isinstance(k, ast.Constant):
                                yield k.value, val, n
            elif n.func.attr == "__setitem__" and len(n.args) == 2 and isinstance(n.args[0], ast.Constant):
                yield n.args[0].value, n.args[1], n


def _literal_table(ctx, fn, fl: Flow, e, _depth=0):
    """rows (lists of element expressions) of a literal table of tuples: a display, a local bound once to one, a module / class constant"""
    if _depth > 4:
        return None
    e = _unwrap_order_keeping(e)
    if isinstance(e, (ast.Tuple, ast.List)):
        if e.elts and all(isinstance(r, (ast.Tuple, ast.List)) for r in e.elts):
            return [list(r.elts) for r in e.elts]
        return None
    if isinstance(e, ast.Name):
        if e.id in fl.defs:
            return _literal_table(ctx, fn, fl, fl.defs[e.id][0], _depth + 1) if len(fl.defs[e.id]) == 1 else None
        r = ctx.p.resolve_name(fn.module, e.id)
        if r and r[0] == "assign":
            return _literal_table(ctx, fn, fl, r[1][1], _depth + 1)
    if isinstance(e, ast.Attribute) and isinstance(e.value, ast.Name) and fn.cls is not None and e.value.id in ("self", "cls", fn.cls.name):
        m = fn.cls.lookup(e.attr)
        if m and m[1] == "assign" and m[2] is not None:
            return _literal_table(ctx, fn, fl, m[2], _depth + 1)
    return None


def _table_stores(ctx, fn, fl: Flow, root, calls):
    """(key, value expr, statement) for stores `d[name] = make(x)` made inside a loop over a literal TABLE of rows
    (name, .., make): one per row, the key being the row's constant and the value the row's callable applied — a lambda / a
    one-expression function is replaced by its body with the argument put in."""
    import copy

    def is_h(e):
        return any(fl.holds_entries_of(e, c) for c in calls)

    for lp in [n for n in ast.walk(root) if isinstance(n, (ast.For, ast.AsyncFor)) and isinstance(n.target, (ast.Tuple, ast.List))]:
        cols = {t.id: i for i, t in enumerate(lp.target.elts) if isinstance(t, ast.Name)}
        rows = _literal_table(ctx, fn, fl, lp.iter)
        if not rows or any(len(r) != len(lp.target.elts) for r in rows):
            continue
        for st in ast.walk(lp):
            if not (isinstance(st, ast.Assign) and isinstance(st.targets[0], ast.Subscript) and isinstance(st.targets[0].slice, ast.Name)
                    and st.targets[0].slice.id in cols and is_h(st.targets[0].value)):
                continue
            for row in rows:
                key = row[cols[st.targets[0].slice.id]]
                if not isinstance(key, ast.Constant):
                    continue
                val = st.value
                if isinstance(val, ast.Call) and isinstance(val.func, ast.Name) and val.func.id in cols and not val.keywords:
                    make = row[cols[val.func.id]]
                    if isinstance(make, ast.Name):
                        r = ctx.p.resolve_name(fn.module, make.id)
                        body = r[1].node.body if r and r[0] == "func" else []
                        body = [b for b in body if not (isinstance(b, ast.Expr) and isinstance(b.value, ast.Constant))]
                        if len(body) == 1 and isinstance(body[0], ast.Return) and body[0].value is not None:
                            make = ast.Lambda(args=r[1].node.args, body=body[0].value)
                    if isinstance(make, ast.Lambda) and len(make.args.args) == len(val.args) and not (make.args.vararg or make.args.kwarg):
                        bound = {p_.arg: a for p_, a in zip(make.args.args, val.args)}

                        class Sub(ast.NodeTransformer):
                            def visit_Name(self, n, bound=bound):
                                return copy.deepcopy(bound[n.id]) if n.id in bound and isinstance(n.ctx, ast.Load) else n

                        val = ast.fix_missing_locations(ast.copy_location(Sub().visit(copy.deepcopy(make.body)), st))
                yield key.value, val, st


def _entry_read(fl: Flow, e, calls, key=None) -> bool:
    """e reads an entry (of constant key `key`, or any) out of one of the harvested dicts: d[k], d.get(k), d.pop(k)."""
    def is_h(x):
        return any(fl.holds_entries_of(x, c) for c in calls)

    if isinstance(e, ast.Subscript) and is_h(e.value):
        return key is None or (isinstance(e.slice, ast.Constant) and e.slice.value == key)
    if isinstance(e, ast.Call) and isinstance(e.func, ast.Attribute) and e.func.attr in ("get", "pop", "__getitem__") and e.args and is_h(e.func.value):
        return key is None or (isinstance(e.args[0], ast.Constant) and e.args[0].value == key)
    return False


def _hands_out_state(p, fl: Flow, e, calls) -> bool:
    """e is `<h>()`, `<h>.<m>()` or `<h>.<prop>` where <h> is a local that holds an entry of a harvested dict, and the
    method / `__call__` / property getter of that name — in a class of the package that can be edited in place (has
    `__setitem__` or a property setter) — returns one of the instance's own fields as it is (`return self._map`): the
    expression is then the helper's inner object, not a new one.  Unresolved names decide nothing (False)."""
    if isinstance(e, ast.Call):
        f = e.func
        if isinstance(f, ast.Name):
            recv, member = f, "__call__"
        elif isinstance(f, ast.Attribute) and isinstance(f.value, ast.Name):
            recv, member = f.value, f.attr
        else:
            return False
    elif isinstance(e, ast.Attribute) and isinstance(e.value, ast.Name):
        recv, member = e.value, e.attr
    else:
        return False
    if member in ("copy", "deepcopy", "get", "pop", "items", "keys", "values"):
        return False
    try:
        ros = fl.origins_at(recv)
    except Exception:  # noqa: BLE001 - an unresolvable receiver decides nothing
        return False
    if not any(_entry_read(fl, o, calls) for o in ros or []):
        return False
    for c in p.classes:
        if c.synthetic or not ("__setitem__" in c.methods or any(pr.setter is not None for pr in c.props.values())):
            continue
        if isinstance(e, ast.Call):
            fn = c.methods.get(member)
        else:
            pr = c.props.get(member)
            fn = pr.getter if pr is not None else None
        if fn is None:
            continue
        me = fn.self_name or "self"
        rets = [r for r in ast.walk(fn.node) if isinstance(r, ast.Return) and r.value is not None]
        if rets and any(isinstance(r.value, ast.Attribute) and isinstance(r.value.value, ast.Name) and r.value.value.id == me for r in rets):
            return True
    return False


def _is_copy_call(e) -> bool:
    return isinstance(e, ast.Call) and (unparse(e.func) in COPY_CALLS or (isinstance(e.func, ast.Attribute) and e.func.attr in ("copy", "deepcopy")))


# ---------------------------------------------------------------------------------------------- omit lists
def base_omit(ctx):
    """Fields that the entity harvest of Workspace.copy_to_parent certainly omits (whatever the caller adds)."""
    fn, v, fl, ent_calls, _type_calls, omit_i = _harvests(ctx)
    if not ent_calls:
        raise AnalysisError("Workspace.copy_to_parent: omit_list of get_attributes not found")
    sets = [certain_strings(argument(c, omit_i, "omit_list"), ctx.p, fn.module, fn.cls, fl) for c in ent_calls]
    return set.intersection(*sets)


def copied_on_harvest(ctx):
    """Keys of the harvested kwargs that copy_to_parent re-binds to a (deep) copy before constructing the new entity."""
    _fn, v, fl, ent_calls, _type_calls, _ = _harvests(ctx)
    out = set()
    for key, val, _st in _dict_stores(fl, v.node, ent_calls):
        for o in fl.origins_at(val):
            if _is_copy_call(o):
                src = list(o.args) + ([o.func.value] if isinstance(o.func, ast.Attribute) and o.func.attr == "copy" else [])
                if any(_entry_read(fl, s, ent_calls, key) for a in src for s in fl.origins_at(a)):
                    out.add(key)
    return out | set(_generic_harvest_copies(ctx)[0])


MAPPING_TYPES = {"dict", "Dict", "Mapping", "MutableMapping", "OrderedDict", "defaultdict"}


def _entry_iteration(fl: Flow, target, it, is_h):
    """(key variable, value variable | None) when `for target in it` walks the entries of a harvested dict:
    `for k, v in d.items()`, `for k in d` / `d.keys()` (also through list(...) / tuple(...))."""
    it = _unwrap_order_keeping(it)
    if isinstance(it, ast.Call) and isinstance(it.func, ast.Attribute) and not it.args and is_h(it.func.value):
        if it.func.attr == "items" and isinstance(target, (ast.Tuple, ast.List)) and len(target.elts) == 2 and all(isinstance(t, ast.Name) for t in target.elts):
            return target.elts[0].id, target.elts[1].id
        if it.func.attr == "keys" and isinstance(target, ast.Name):
            return target.id, None
    elif isinstance(target, ast.Name) and is_h(it):
        return target.id, None
    return None


def _as_expression(fdef):
    """the single (conditional) expression a small function returns, else None: `return e`; `if t: return a` + `return b` (or else:)"""
    body = [b for b in fdef.body if not (isinstance(b, ast.Expr) and isinstance(b.value, ast.Constant))]
    if len(body) == 1 and isinstance(body[0], ast.Return) and body[0].value is not None:
        return body[0].value
    if body and isinstance(body[0], ast.If) and len(body[0].body) == 1 and isinstance(body[0].body[0], ast.Return) and body[0].body[0].value is not None:
        rest = body[0].orelse if body[0].orelse and len(body) == 1 else body[1:] if not body[0].orelse else None
        if rest and len(rest) == 1 and isinstance(rest[0], ast.Return) and rest[0].value is not None:
            return ast.IfExp(test=body[0].test, body=body[0].body[0].value, orelse=rest[0].value)
    return None


def _applied_expression(ctx, fn, call):
    """`f(a, b)` rewritten as the expression f returns with the arguments put in, for a module-level function / a method of the
    class reached through self / cls / the class name that consists of one (conditional) expression; else None"""
    import copy

    target = None
    if isinstance(call.func, ast.Name):
        r = ctx.p.resolve_name(fn.module, call.func.id)
        target = r[1] if r and r[0] == "func" else None
        skip = 0
    elif isinstance(call.func, ast.Attribute) and isinstance(call.func.value, ast.Name) and fn.cls is not None \
            and call.func.value.id in (fn.self_name, "cls", fn.cls.name):
        m = fn.cls.lookup(call.func.attr)
        target = m[2] if m and m[1] == "method" else None
        skip = 0 if target is not None and target.kind == "staticmethod" else 1
    if target is None or call.keywords or any(isinstance(a, ast.Starred) for a in call.args):
        return None
    a = target.node.args
    if a.vararg or a.kwarg or a.kwonlyargs or target.node.decorator_list and not all(unparse(d) in ("staticmethod", "classmethod") for d in target.node.decorator_list):
        return None
    params = [x.arg for x in a.posonlyargs + a.args][skip:]
    expr = _as_expression(target.node)
    if expr is None or len(params) != len(call.args):
        return None
    bound = dict(zip(params, call.args))

    class Sub(ast.NodeTransformer):
        def visit_Name(self, n):
            return copy.deepcopy(bound[n.id]) if n.id in bound and isinstance(n.ctx, ast.Load) else n

    return ast.fix_missing_locations(ast.copy_location(Sub().visit(copy.deepcopy(expr)), call))


def _generic_harvest_copies(ctx):
    """(keys, types): copy_to_parent re-binds the harvested entries of those keys / EVERY harvested entry that is an instance of one
    of those types ("*": whatever its type) to a copy of itself before constructing the new entity.  Recognised: a loop over the
    entries with the store under isinstance / key tests (nested ifs, conjunctions, `if not ..: continue`), a dict comprehension over
    the entries (re-bound, or handed to .update) with a conditional expression / filter; the copy may be made in an expanded helper."""
    if "c12.generic" in ctx.cache:
        return ctx.cache["c12.generic"]
    _fn, v, fl, ent_calls, _type_calls, _ = _harvests(ctx)
    par = parents(v.node)

    def is_h(e):
        return any(fl.holds_entries_of(e, c) for c in ent_calls)

    def entry_test(kv):
        key, val = kv

        def is_entry(e):
            for o in fl.origins_at(e):
                if isinstance(o, ast.Name) and val is not None and o.id == val:
                    return True
                if isinstance(o, ast.Subscript) and isinstance(o.slice, ast.Name) and o.slice.id == key and is_h(o.value):
                    return True
                if isinstance(o, ast.Call) and isinstance(o.func, ast.Attribute) and o.func.attr in ("get", "__getitem__") and o.args \
                        and isinstance(o.args[0], ast.Name) and o.args[0].id == key and is_h(o.func.value):
                    return True
            return False

        return is_entry

    def copies_entry(e, is_entry, through_ifexp=True, _depth=0):
        """None: not a copy of the entry; else the set of types for which the entry is copied ('*': always)"""
        # f(entry) with f a small function of the package that is one (conditional) expression of its argument: seen as that
        # expression (the normaliser does not expand calls made inside a comprehension)
        if isinstance(e, ast.Call) and not _is_copy_call(e) and _depth < 3:
            applied = _applied_expression(ctx, _fn, e)
            if applied is not None:
                return copies_entry(applied, is_entry, True, _depth + 1)
        if isinstance(e, ast.IfExp) and through_ifexp:
            t = isinstance_of(e.test, is_entry)
            if t is None:
                return None
            names, positive = t
            copied, kept = (e.body, e.orelse) if positive else (e.orelse, e.body)
            if copies_entry(copied, is_entry, False) is not None and is_entry(kept) and positive:
                return names
            return None
        os_ = fl.origins_at(e)
        if os_ and all(_is_copy_call(o) and any(is_entry(a) for a in list(o.args) + ([o.func.value] if isinstance(o.func, ast.Attribute) and o.func.attr == "copy" else []))
                       for o in os_):
            return {"*"}
        return None

    def settle(types, facts):
        """(types copied, keys it is restricted to | None) under the facts"""
        keys = None
        for kind, vals in facts:
            if kind == "type":
                types = set(vals) if "*" in types else (types & set(vals))
            else:
                keys = set(vals) if keys is None else (keys & set(vals))
        return types, keys

    out_types: set = set()
    out_keys: set = set()

    def record(types, keys):
        if not types:
            return
        if keys is None:
            out_types.update(types)
        else:
            out_keys.update(k for k in keys if isinstance(k, str))

    for n in ast.walk(v.node):
        if isinstance(n, (ast.For, ast.AsyncFor)):
            kv = _entry_iteration(fl, n.target, n.iter, is_h)
            if kv is None:
                continue
            is_entry = entry_test(kv)
            is_key = lambda e, kv=kv: isinstance(e, ast.Name) and e.id == kv[0]  # noqa: E731
            for st in ast.walk(n):
                if not (isinstance(st, (ast.Assign, ast.AnnAssign)) and st.value is not None):
                    continue
                tgs = st.targets if isinstance(st, ast.Assign) else [st.target]
                if not any(isinstance(t, ast.Subscript) and isinstance(t.slice, ast.Name) and t.slice.id == kv[0] and is_h(t.value) for t in tgs):
                    continue
                types = copies_entry(st.value, is_entry)
                if types is None:
                    continue
                # the conditions under which the store is reached, inside the loop
                facts = instance_facts(par, st, n, is_entry, is_key=is_key)
                if facts is not None:
                    record(*settle(types, facts))
        elif isinstance(n, ast.DictComp) and len(n.generators) == 1:
            g = n.generators[0]
            kv = _entry_iteration(fl, g.target, g.iter, is_h)
            if kv is None or not (isinstance(n.key, ast.Name) and n.key.id == kv[0]):
                continue
            up = par.get(n)
            rebinding = isinstance(up, (ast.Assign, ast.AnnAssign)) and up.value is n
            updating = isinstance(up, ast.Call) and isinstance(up.func, ast.Attribute) and up.func.attr == "update" and n in up.args and is_h(up.func.value)
            if not (rebinding or updating) or (rebinding and g.ifs):
                continue  # (a filter on a re-binding comprehension drops entries: not this clause's business)
            is_entry = entry_test(kv)
            is_key = lambda e, kv=kv: isinstance(e, ast.Name) and e.id == kv[0]  # noqa: E731
            types = copies_entry(n.value, is_entry)
            if types is None:
                continue
            facts = []
            for cond in g.ifs:
                sub = test_facts(cond, True, is_entry, is_key)
                facts = None if (facts is None or sub is None) else facts + sub
            if facts is not None:
                record(*settle(types, facts))
    ctx.cache["c12.generic"] = (out_keys, out_types)
    return ctx.cache["c12.generic"]


def copied_types_on_harvest(ctx) -> set:
    """Type names T such that copy_to_parent re-binds EVERY harvested entry that is an instance of T to a copy of itself
    before constructing the new entity ("*": every entry whatever its type)."""
    return set(_generic_harvest_copies(ctx)[1])


def _omit_sites(ctx, fn):
    """[(call, certain strings)] for every call of the (normalised) function that hands over an omit_list."""
    key = ("c12.omit", id(fn.node))
    if key not in ctx.cache:
        v, fl = _flow(ctx, fn)
        ctx.cache[key] = [(n, certain_strings(k.value, ctx.p, fn.module, fn.cls, fl))
                          for n in ast.walk(v.node) if isinstance(n, ast.Call) for k in n.keywords if k.arg == "omit_list"]
    return ctx.cache[key]


def class_omit(ctx, K):
    """omit_list constants handed along K's copy chain (literals, hoisted constants, locals, sums of those)."""
    out = set()
    for c in K.mro:
        if isinstance(c, str):
            continue
        fn = c.methods.get("copy")
        if fn is None:
            continue
        for _call, strings in _omit_sites(ctx, fn):
            out |= strings
    return out


def init_fields(K, ctx=None):
    out = set()
    for c in K.mro:
        if isinstance(c, str):
            continue
        fn = c.methods.get("__init__")
        if fn is None:
            continue
        node = _flow(ctx, fn)[0].node if ctx is not None else fn.node
        me = fn.self_name or "self"
        for n in ast.walk(node):
            if isinstance(n, ast.Attribute) and isinstance(n.ctx, ast.Store) and isinstance(n.value, ast.Name) and n.value.id == me and n.attr.startswith("_"):
                out.add(n.attr)
    return out


# ---------------------------------------------------------------------------------------------- ALIAS
def _mutations(ctx, fn):
    """(direct, indirect): field / property name -> [description] of the in-place edits a member function makes.
    direct: on the object stored in `self.<field>` itself (also through a local alias of it);
    indirect: on an entry nested in it, or through the property of the same name (`self.<prop>[k].append(..)`)."""
    key = ("c12.mut", id(fn.node))
    if key in ctx.cache:
        return ctx.cache[key]
    direct: dict = {}
    indirect: dict = {}
    me = fn.self_name
    if me is not None:
        fl = None

        def strip(e):
            depth = 0
            while isinstance(e, ast.Subscript):
                e, depth = e.value, depth + 1
            return e, depth

        def targets(e):
            """[(attribute of self, nested?)] the receiver may stand for"""
            nonlocal fl
            e, depth = strip(e)
            if isinstance(e, ast.Attribute):
                return [(e, depth > 0)] if isinstance(e.value, ast.Name) and e.value.id == me else []
            if isinstance(e, ast.Name):
                if fl is None:
                    fl = Flow(fn.node)
                res = []
                for o in fl.origins(e):
                    o, d2 = strip(o)
                    if isinstance(o, ast.Attribute) and isinstance(o.value, ast.Name) and o.value.id == me:
                        res.append((o, depth + d2 > 0))
                return res
            return []

        for n in ast.walk(fn.node):
            recv = None
            if isinstance(n, ast.Call) and isinstance(n.func, ast.Attribute) and n.func.attr in IN_PLACE:
                recv = n.func.value
            elif isinstance(n, ast.Subscript) and isinstance(n.ctx, (ast.Store, ast.Del)):
                recv = n.value
            if recv is not None:
                for t, nested in targets(recv):
                    (indirect if nested or not t.attr.startswith("_") else direct).setdefault(t.attr, []).append(f"{fn.qualname}:{n.lineno} {unparse(n)[:40]}")
    ctx.cache[key] = (direct, indirect)
    return ctx.cache[key]


def _reset_by_constructor(ctx, K, f):
    """The class (or a base) whose __init__ assigns self.<f> unconditionally AFTER its super().__init__(..) call: the keyword
    arguments are applied at the bottom of that chain (Entity.__init__), so whatever value was harvested for <f> is overwritten
    again before the constructor returns — the copy does not keep the source's object."""
    for c in K.mro:
        if isinstance(c, str):
            continue
        fn = c.methods.get("__init__")
        if fn is None:
            continue
        key = ("c12.reset", id(fn.node))
        if key not in ctx.cache:
            me = fn.self_name or "self"
            body = _flow(ctx, fn)[0].node.body
            up = next((i for i, st in enumerate(body) if any(
                isinstance(x, ast.Call) and isinstance(x.func, ast.Attribute) and x.func.attr == "__init__"
                and (_is_super(x.func.value) or (isinstance(x.func.value, ast.Name) and x.args and isinstance(x.args[0], ast.Name) and x.args[0].id == me))
                for x in ast.walk(st))), None)
            fields = set()
            if up is not None:
                for st in body[up + 1:]:
                    if isinstance(st, (ast.Assign, ast.AnnAssign)) and st.value is not None:
                        for t in (st.targets if isinstance(st, ast.Assign) else [st.target]):
                            if isinstance(t, ast.Attribute) and isinstance(t.value, ast.Name) and t.value.id == me:
                                fields.add(t.attr)
            ctx.cache[key] = fields
        if f in ctx.cache[key]:
            return c
    return None


CONTAINER_KINDS = {
    "dict": MAPPING_TYPES,
    "list": {"list", "List", "MutableSequence"},
    "array": {"ndarray", "NDArray", "ArrayLike"},
}


def _kind_of(names: set):
    """the container kind the type names stand for — only when they say nothing else (`dict | None`, not `float | np.ndarray`:
    a union with a scalar type does not tell what the field holds)"""
    rest = set(names) - {"None", "NoneType", "type", "Optional", "np", "numpy"}
    return next((kind for kind, types in CONTAINER_KINDS.items() if rest and rest <= types), None)


def _container_typed(ctx, K, f, g, s, arg):
    """(kind, why) when the harvested field holds a mutable container — kind 'dict' / 'list' / 'array' — decided by the top level of the
    annotation of the field / of the setter's parameter / of the getter, the setter's isinstance validation, a literal default;
    None when nothing says so."""
    key = ("c12.container", id(s.node), f)
    if key in ctx.cache:
        return ctx.cache[key]
    found = None
    for c in K.mro:
        if isinstance(c, str) or found:
            continue
        fn = c.methods.get("__init__")
        if fn is None:
            continue
        me = fn.self_name or "self"
        for a in ast.walk(_flow(ctx, fn)[0].node):
            if isinstance(a, ast.AnnAssign) and _self_attr(a.target, me, (f,)) and _kind_of(top_types(a.annotation)):
                found = (_kind_of(top_types(a.annotation)), f"annotated {unparse(a.annotation)} in {fn.qualname}")
            elif isinstance(a, (ast.Assign, ast.AnnAssign)) and a.value is not None \
                    and any(_self_attr(t, me, (f,)) for t in (a.targets if isinstance(a, ast.Assign) else [a.target])):
                if isinstance(a.value, (ast.Dict, ast.DictComp)) or (isinstance(a.value, ast.Call) and call_name(a.value) in MAPPING_TYPES):
                    found = found or ("dict", f"initialised with a dict in {fn.qualname}")
                elif isinstance(a.value, (ast.List, ast.ListComp)):
                    found = found or ("list", f"initialised with a list in {fn.qualname}")
    if found is None and arg is not None:
        prm = next((x for x in s.node.args.posonlyargs + s.node.args.args if x.arg == arg), None)
        if prm is not None and prm.annotation is not None and _kind_of(top_types(prm.annotation)):
            found = (_kind_of(top_types(prm.annotation)), f"setter parameter annotated {unparse(prm.annotation)}")
    if found is None and arg is not None:
        # a VALIDATION of the argument's type (anything else raises), not a mere branch on it
        sv, sfl = _flow(ctx, s)
        for c in ast.walk(sv.node):
            t = None
            if isinstance(c, ast.Assert):
                t = isinstance_of(c.test, lambda e: sfl.is_param(e, arg))
                t = t if t and t[1] else None
            elif isinstance(c, ast.If):
                t = isinstance_of(c.test, lambda e: sfl.is_param(e, arg))
                rejected = c.orelse if (t and t[1]) else c.body
                t = t if t and rejected and all(isinstance(x, ast.Raise) for x in rejected) else None
            if t and _kind_of(t[0]):
                found = found or (_kind_of(t[0]), f"setter validates isinstance(.., {sorted(t[0] & CONTAINER_KINDS[_kind_of(t[0])])[0]})")
    if found is None and g.node.returns is not None and _kind_of(top_types(g.node.returns)):
        found = (_kind_of(top_types(g.node.returns)), f"getter annotated -> {unparse(g.node.returns)}")
    ctx.cache[key] = found
    return found


def _dict_typed(ctx, K, f, g, s, arg):
    """Why the harvested field holds a dict (None when nothing says so)."""
    found = _container_typed(ctx, K, f, g, s, arg)
    return found[1] if found and found[0] == "dict" else None


def rule_alias(ctx) -> RuleResult:
    res = RuleResult(
        "C12.ALIAS",
        "C12",
        "for every attribute harvested by copy_to_parent (instance fields minus the omit lists of the copy chain): not all of "
        "(getter returns the stored object itself) and (setter stores its argument by reference) and (a method of the class "
        "mutates the field in place) — otherwise copy and source share state observable through the API; a field holding a DICT "
        "(annotation / setter validation / default) needs no mutator of the class: the getter hands the stored dict to the caller. "
        "Either way the field is fine when copy_to_parent copies it on harvest (by key, or every dict-valued entry)",
        floor=300,
    )
    p = ctx.p
    ent = p.cls("Entity")
    omit0 = base_omit(ctx)
    copied = copied_on_harvest(ctx)
    copied_types = copied_types_on_harvest(ctx)
    n_fields = 0
    noted: set = set()
    for K in p.subclasses(ent):
        omit = omit0 | class_omit(ctx, K)
        for f in sorted(init_fields(K, ctx) - omit):
            prop = f[1:]
            m = K.lookup(prop)
            if not m or m[1] != "prop" or m[2].getter is None or m[2].setter is None:
                continue
            g, s = m[2].getter, m[2].setter
            n_fields += 1
            gv, gfl = _flow(ctx, g)
            returns_self = any(isinstance(r, ast.Return) and _may_be_field(r.value, f, g, gfl) for r in ast.walk(gv.node))
            sv, sfl = _flow(ctx, s)
            arg = s.params[1] if len(s.params) > 1 else None
            by_ref = arg is not None and any(_stores_param(a, f, s, sfl, arg) for a in ast.walk(sv.node))
            mutators, deep = [], []
            for c in K.mro:
                if isinstance(c, str):
                    continue
                members = list(c.methods.values()) + [x for pr in c.props.values() for x in (pr.getter, pr.setter) if x is not None and x.cls is c]
                for fn in members:
                    direct, indirect = _mutations(ctx, fn)
                    mutators += direct.get(f, [])
                    deep += indirect.get(f, []) + indirect.get(prop, [])
            held = _container_typed(ctx, K, f, g, s, arg) if returns_self and by_ref else None
            kind, why = held if held else (None, None)
            detached = prop in copied or "*" in copied_types or (kind is not None and bool(copied_types & CONTAINER_KINDS[kind]))
            if returns_self and by_ref and not detached and (mutators or kind) and _reset_by_constructor(ctx, K, f) is not None:
                detached = True
            shared = returns_self and by_ref and bool(mutators) and not detached
            # a mutable container handed out by the getter can be edited by the CALLER (copy.options["a"] = .., copy.cells[0] = ..):
            # shared state even when no method of the class edits it
            shared_held = returns_self and by_ref and kind is not None and not detached and not shared
            if returns_self and by_ref and deep and not mutators and not detached and kind is None and s.cls.name + "." + prop not in noted:
                noted.add(s.cls.name + "." + prop)
            res.inst(f"{K.name}.{prop}: returns-stored={returns_self} stores-by-ref={by_ref} in-place-mutators={len(mutators)}"
                     + (f" {kind} ({why})" if kind else ""), nontrivial=returns_self and by_ref, ok=not (shared or shared_held))
            if shared:
                res.find(s.cls.name, prop, f"{f} shared by reference between source and copy and mutated in place", s.where,
                         f"copy_to_parent hands the source's {f} object to the copy's constructor; the setter keeps the reference and "
                         f"{mutators[0]} edits it in place: an edit of the copy's {prop} shows in the source",
                         resolved_on=K.name, mutators=mutators[:3])
            if shared_held:
                noun = {"dict": "a dict", "list": "a list", "array": "an array"}[kind]
                res.find(s.cls.name, prop, f"{f} ({noun}) is shared by reference between source and copy", s.where,
                         f"copy_to_parent hands the source's {f} {kind} ({why}) to the copy's constructor without copying it; the setter keeps "
                         f"the reference and the getter hands the stored {kind} itself out: copy.{prop}[..] = ... (or any nested edit) shows in the source",
                         resolved_on=K.name)
    res.notes.append(f"omit list of copy_to_parent: {sorted(omit0)}; copied on harvest: {sorted(copied)}"
                     + (f"; every harvested entry of type {sorted(copied_types)} copied" if copied_types else ""))
    if noted:
        res.notes.append("not decided here (harvested, returned and stored by reference, edited only in nested entries or through the property): " + ", ".join(sorted(noted)))
    if n_fields < 300:
        raise AnalysisError(f"C12.ALIAS: only {n_fields} harvested (class, field) pairs found")
    return res


def _may_be_field(e, f, g, fl: Flow | None = None) -> bool:
    """The expression may evaluate to the very object stored in self.<f>."""
    if e is None:
        return False
    fl = fl or Flow(g.node)
    me = g.self_name or "self"
    return any(_self_attr(o, me, (f,)) for o in fl.origins(e))


def _stores_param(a, f, s, fl: Flow, arg) -> bool:
    """Statement `a` stores the setter's argument itself (possibly through aliases, never converted on the way) into self.<f>."""
    if not (isinstance(a, (ast.Assign, ast.AnnAssign)) and a.value is not None):
        return False
    me = s.self_name or "self"
    tgs = a.targets if isinstance(a, ast.Assign) else [a.target]
    if not any(_self_attr(t, me, (f,)) for t in tgs):
        return False
    if not fl.is_param(a.value, arg):
        return False
    # ... and the argument as it came in still reaches this store (not `value = self.format(value); self._x = value`)
    if not any(isinstance(o, ast.Name) and o.id == arg for o in fl.origins_at(a.value)):
        return False
    return not any(_rebound(s, nm, fl.node) for nm in fl.names_on_the_way(a.value) | {arg})


def _rebound(fn, name, node=None) -> bool:
    """The parameter is re-assigned (converted / copied) before being stored."""
    for n in ast.walk(node if node is not None else fn.node):
        if isinstance(n, ast.Assign) and any(isinstance(t, ast.Name) and t.id == name for t in n.targets):
            v = unparse(n.value)
            if any(tok in v for tok in ("copy(", "deepcopy(", "dict(", "list(", "np.asarray", "np.array", "np.r_", ".astype", "tolist")):
                return True
    return False


# ---------------------------------------------------------------------------------------------- SHAPE
def _annotation_names(ann) -> set:
    return {n.id for n in ast.walk(ann) if isinstance(n, ast.Name)} | {n.attr for n in ast.walk(ann) if isinstance(n, ast.Attribute)} | {
        x for n in ast.walk(ann) if isinstance(n, ast.Constant) and isinstance(n.value, str) for x in n.value.replace("|", " ").replace("[", " ").replace("]", " ").replace(",", " ").split()}


def _unwrap_order_keeping(e):
    while isinstance(e, ast.Call) and isinstance(e.func, ast.Name) and e.func.id in ORDER_KEEPING and len(e.args) == 1 and not e.keywords:
        e = e.args[0]
    return e


def _empty_literal(e) -> bool:
    return (isinstance(e, (ast.List, ast.Tuple)) and not e.elts) or (isinstance(e, ast.Call) and isinstance(e.func, ast.Name) and e.func.id in ("list", "tuple") and not e.args)


def _remap_sites(fl: Flow, root, dmap, groups):
    """Iterations that look members up in the uid map: [(iter expr, filtered?, line)].  The site is found from the USE of the
    map (subscript, .get, .items(), `in`), going out to the innermost comprehension / map() / for loop around it; a use
    directly in the loop over the property groups themselves is not a member remapping."""
    par = parents(root)
    sites, seen = [], set()

    def use_of_map(n):
        if not (isinstance(n, ast.Name) and isinstance(n.ctx, ast.Load) and fl.is_param(n, dmap)):
            return False
        up = par.get(n)
        if isinstance(up, (ast.Assign, ast.AnnAssign, ast.NamedExpr)) and up.value is n:
            return False  # an alias of the map (also: the parameter binding of an expanded helper)
        if isinstance(up, ast.Call) and (n in up.args or any(k.value is n for k in up.keywords)) and call_name(up) not in ("map", "sorted", "list", "tuple", "iter", "set", "dict", "enumerate", "zip"):
            return False  # handed to another function as a whole
        if isinstance(up, ast.keyword):
            return False
        return True

    for n in ast.walk(root):
        if not use_of_map(n):
            continue
        cur, child = par.get(n), n
        conditional = False  # the use sits in a branch / handler inside the iteration: not every member gets mapped
        while cur is not None:
            site = None
            if isinstance(cur, (ast.ListComp, ast.SetComp, ast.GeneratorExp, ast.DictComp)):
                gens = cur.generators
                filtered = len(gens) != 1 or any(g.ifs for g in gens) or isinstance(cur, (ast.SetComp, ast.DictComp))
                site = (gens[0].iter, filtered, cur)
            elif isinstance(cur, ast.Call) and call_name(cur) == "map" and len(cur.args) >= 2 and child is cur.args[0]:
                site = (cur.args[1], len(cur.args) != 2, cur)
            elif isinstance(cur, ast.Call) and call_name(cur) == "filter":
                site = (cur.args[-1], True, cur)
            elif isinstance(cur, (ast.For, ast.AsyncFor)) and child is not cur.iter and child is not cur.target:
                if any(fl.is_param(o, groups) for o in fl.origins(_unwrap_order_keeping(cur.iter))):
                    break  # the loop over the groups
                jumps = any(isinstance(x, (ast.Continue, ast.Break)) for st in cur.body for x in ast.walk(st))
                site = (cur.iter, conditional or child not in cur.body or jumps, cur)
            elif isinstance(cur, (ast.For, ast.AsyncFor)) and child is cur.iter:
                site = (cur.iter, False, cur)  # iterating the map itself
            if site is not None:
                if id(site[2]) not in seen:
                    seen.add(id(site[2]))
                    sites.append((site[0], site[1], getattr(site[2], "lineno", getattr(n, "lineno", 0))))
                break
            if isinstance(cur, (ast.If, ast.While, ast.Try, ast.ExceptHandler)) or (hasattr(ast, "Match") and isinstance(cur, ast.Match)):
                conditional = True
            cur, child = par.get(cur), cur
    return sites


def _is_child(fl: Flow, e) -> bool:
    """e may be an element of an iteration over something computed from a `.children` attribute."""
    return any(isinstance(o, ast.Name) and o.id in fl.loops and any(fl.mentions_attr(i, "children") for i in fl.iterated_over(o.id))
               for o in fl.origins(e))


def _is_super(e) -> bool:
    return isinstance(e, ast.Call) and isinstance(e.func, ast.Name) and e.func.id == "super"


def rule_shape(ctx) -> RuleResult:
    res = RuleResult(
        "C12.SHAPE",
        "C12",
        "(a) copy_to_parent's omit list keeps out every harvested field that holds a child entity (the copy would reference the "
        "source's child); (b) copy_property_groups remaps the members in the source group's own order; (c) the recursive "
        "child.copy(...) calls of the copy methods do not forward the caller's **kwargs (overrides meant for the copied "
        "entity would leak into its whole subtree); (d) mutable helper objects held by the entity type (colour map, value map) "
        "are re-created, not shared, when copy_to_parent builds the type of the copy; (e) a partner entity copied along "
        "(copy_complement) is rebuilt with at least the omissions of the entity's own copy",
        floor=10,
    )
    p = ctx.p
    ent = p.cls("Entity")
    omit0 = base_omit(ctx)
    fam = {c.name for c in p.subclasses(ent)}
    # (a) fields annotated with an entity class in __init__ (or a private helper of it)
    seen = set()
    for K in p.subclasses(ent):
        omit = omit0 | class_omit(ctx, K)
        for c in K.mro:
            if isinstance(c, str):
                continue
            fn = c.methods.get("__init__")
            if fn is None or (fn, K.name) in seen:
                continue
            me = fn.self_name or "self"
            for a in ast.walk(_flow(ctx, fn)[0].node):
                if isinstance(a, ast.AnnAssign) and isinstance(a.target, ast.Attribute) and isinstance(a.target.value, ast.Name) and a.target.value.id == me:
                    ents = sorted(_annotation_names(a.annotation) & fam)
                    if not ents:
                        continue
                    fld = a.target.attr
                    prop = fld[1:]
                    m = K.lookup(prop)
                    settable = bool(m and m[1] == "prop" and m[2].setter is not None)
                    key = (c.name, fld)
                    if key in seen:
                        continue
                    seen.add(key)
                    ok = fld in omit or not settable or fld in ("_parent", "_entity_type")
                    res.inst(f"{c.name}.{fld}: holds {ents}; omitted on copy: {fld in omit}; settable: {settable}", nontrivial=True, ok=ok)
                    if not ok:
                        res.find(c.name, prop, f"entity-valued field {fld} is harvested by copy_to_parent", fn.where,
                                 f"the copy's constructor receives the source's {ents[0]} object: the copy references a child of the source, and "
                                 "editing it through the copy rewrites the source's stored data")
    # (b) property-group remapping order: every iteration that looks members up in the uid map (the last parameter) walks the
    # source group's own `.properties`, unfiltered
    cpg = p.func("Workspace.copy_property_groups")
    cv, cfl = _flow(ctx, cpg)
    if len(cpg.params) < 3:
        raise AnalysisError("Workspace.copy_property_groups: parameters (entity, property_groups, data_map) not found")
    dmap, groups = cpg.params[-1], cpg.params[-2]
    sites = _remap_sites(cfl, cv.node, dmap, groups)
    if not sites:
        raise AnalysisError("Workspace.copy_property_groups: remapping comprehension not found")
    for it, filtered, lineno in sites:
        srcs = [_unwrap_order_keeping(o) for o in cfl.origins_at(_unwrap_order_keeping(it))]
        in_order = bool(srcs) and all((isinstance(o, ast.Attribute) and o.attr == "properties") or _empty_literal(o) for o in srcs) \
            and any(isinstance(o, ast.Attribute) for o in srcs)
        ok = in_order and not filtered
        txt = cfl.text(it, fs=True)
        res.inst(f"copy_property_groups: members remapped by iterating {txt}", nontrivial=True, ok=ok)
        if not ok:
            res.find("Workspace", "copy_property_groups", f"members remapped by iterating {txt[:40]}", f"{cpg.module.relpath}:{lineno}",
                     "the copied property group lists its members in the order of the uid map, not in the source group's order: ordered groups "
                     "(dip direction & dip, 3-D vectors) come out permuted")
    # (c) kwargs leak: no call made for a child of the copied entity receives the caller's **kwargs (followed into private helpers
    # that receive them wholesale — those are not expanded by the normaliser)
    done = set()
    work = []
    for K in p.subclasses(ent):
        fn = K.methods.get("copy")
        if fn is not None and fn.node.args.kwarg is not None:
            work.append((fn, fn))
    # ... and the steps of the copy delegated to overridable hooks (template methods), which are handed the children
    from ._c12_source import copy_functions, from_source

    handed = {f: roots - {f.self_name} for f, roots in copy_functions(ctx) if f.cls is not None and not (f.name == "copy" or f.name.startswith("copy_") or f.name.endswith("_copy"))}
    work += [(f, f) for f in handed]
    while work:
        fn, top = work.pop(0)
        if fn in done:
            continue
        done.add(fn)
        kw = fn.node.args.kwarg.arg if fn.node.args.kwarg is not None else None
        fv, ffl = _flow(ctx, fn)

        def is_child(e, ffl=ffl, given=handed.get(fn, set())):
            if _is_child(ffl, e):
                return True
            # an element of a collection of the source's children that the caller handed in
            return bool(given) and any(isinstance(o, ast.Name) and o.id in ffl.loops and any(from_source(ffl, i, given, as_iter=True) for i in ffl.iterated_over(o.id))
                                       for o in ffl.origins(e))

        for c in ast.walk(fv.node):
            if not isinstance(c, ast.Call):
                continue
            leak = kw is not None and any(k.arg is None and ffl.is_param(k.value, kw) for k in c.keywords)
            nm = call_name(c)
            if leak and nm and nm.startswith("_") and not nm.startswith("__") and isinstance(c.func, ast.Attribute) and isinstance(c.func.value, ast.Name) \
                    and c.func.value.id in (fn.self_name, "cls") and fn.cls is not None:
                m = fn.cls.lookup(nm)
                if m and m[1] == "method" and m[2].node.args.kwarg is not None:
                    work.append((m[2], top))
            on_child = isinstance(c.func, ast.Attribute) and is_child(c.func.value)
            with_child = on_child or any(is_child(a) for a in c.args if isinstance(a, ast.Name)) or any(is_child(k.value) for k in c.keywords if isinstance(k.value, ast.Name))
            if not with_child:
                continue
            copies = on_child and c.func.attr in ("copy", "copy_from_extent")
            if not (copies or leak):
                continue
            what = f"<child>.{c.func.attr}(...)" if on_child else f"{nm}(<child>, ...)"
            res.inst(f"{fn.qualname}:{c.lineno} {what} forwards the caller's keyword overrides: {leak}", nontrivial=True, ok=not leak)
            if leak:
                res.find(top.cls.name, top.name, f"{what} receives the caller's keyword overrides", f"{fn.module.relpath}:{c.lineno}",
                         "attribute overrides given for the copied entity (name=..., public=...) are applied to every descendant as well: the "
                         "subtree is not reproduced")
    # (d) mutable helper objects of the entity TYPE (colour map, value map) are re-created for the copy's type
    ety = p.cls("EntityType")
    ctp, tv, tfl, ent_calls, type_calls, omit_i = _harvests(ctx)
    if not type_calls:
        raise AnalysisError("Workspace.copy_to_parent: harvest of entity.entity_type not found")
    type_omit = set.intersection(*[certain_strings(argument(c, omit_i, "omit_list"), p, ctp.module, ctp.cls, tfl) for c in type_calls])
    recreated = set()
    for key, val, _st in list(_dict_stores(tfl, tv.node, type_calls)) + list(_table_stores(ctx, ctp, tfl, tv.node, type_calls)):
        os_ = tfl.origins_at(val)
        # the stored value is built anew: it is neither a value that came in from outside nor an entry of a harvested dict,
        # nor what a harvested helper hands out of its own state (`value_map()` / `value_map.map`: the helper's inner dict)
        if os_ and not any(isinstance(o, ast.Name) or _entry_read(tfl, o, type_calls + ent_calls)
                           or _hands_out_state(p, tfl, o, type_calls + ent_calls) for o in os_):
            recreated.add(key)
    type_fam = {c.name for c in p.subclasses(ety)}

    def mutable_helper(name):
        try:
            H = p.cls(name)
        except AnalysisError:
            return False
        if H.name in fam or H.name in type_fam or H.synthetic:
            return False
        return any(pr.setter is not None for pr in H.props.values()) or "__setitem__" in H.methods

    seen_t = set()
    for T in p.subclasses(ety):
        for c in T.mro:
            if isinstance(c, str) or c.name in seen_t:
                continue
            seen_t.add(c.name)
            fns = list(c.methods.values()) + [f for pr in c.props.values() for f in (pr.getter, pr.setter) if f is not None and f.cls is c]
            for fn in fns:
                me = fn.self_name or "self"
                for a in ast.walk(fn.node):
                    if isinstance(a, ast.AnnAssign) and isinstance(a.target, ast.Attribute) and isinstance(a.target.value, ast.Name) and a.target.value.id == me:
                        names = {n.id for n in ast.walk(a.annotation) if isinstance(n, ast.Name)}
                        helpers = sorted(n for n in names if mutable_helper(n))
                        if not helpers:
                            continue
                        fld = a.target.attr
                        if (c.name, fld) in seen_t:
                            continue
                        seen_t.add((c.name, fld))
                        ok = fld in type_omit or fld.lstrip("_") in recreated
                        res.inst(f"{c.name}.{fld}: holds a mutable {helpers[0]}; re-created for the copy's type: {ok}", nontrivial=True, ok=ok)
                        if not ok:
                            res.find(c.name, fld.lstrip("_"), f"type field {fld} ({helpers[0]}) is handed to the copy's type as the same object", f"{ctp.module.relpath}:{ctp.node.lineno}",
                                     f"a type created for the copy (other workspace) shares the source type's {helpers[0]}: editing the copy's {fld.lstrip('_')} "
                                     "changes the source's, and helpers that point back to their type are re-pointed to the copy's type")
    # (e) a partner copied along with the entity is rebuilt with (at least) the omissions of the entity's own copy
    # (private helpers are seen expanded inside their callers; copies of CHILDREN are not partner copies)
    done_e = set()
    for K in p.subclasses(ent):
        own_copy = next((c.methods["copy"] for c in K.mro if not isinstance(c, str) and "copy" in c.methods and _omit_sites(ctx, c.methods["copy"])), None)
        if own_copy is None:
            continue
        own_sites = _omit_sites(ctx, own_copy)
        upward = [st for call, st in own_sites if isinstance(call.func, ast.Attribute) and _is_super(call.func.value) and not call.func.value.args]
        wanted = set.intersection(*(upward or [st for _c, st in own_sites]))
        for c in K.mro:
            if isinstance(c, str):
                continue
            for fn in c.methods.values():
                if fn.name == "copy" or fn.name.startswith("_") or (fn, own_copy) in done_e:
                    continue
                done_e.add((fn, own_copy))
                sites_e = _omit_sites(ctx, fn)
                if not sites_e:
                    continue
                efl = _flow(ctx, fn)[1]
                for call, strings in sites_e:
                    if call_name(call) not in ("copy", "_super_copy", "copy_to_parent", "copy_from_extent"):
                        continue
                    if isinstance(call.func, ast.Attribute) and _is_child(efl, call.func.value):
                        continue
                    missing = sorted(wanted - strings)
                    res.inst(f"{fn.qualname}:{call.lineno} copies a partner omitting what {own_copy.qualname} omits: {not missing}", nontrivial=True, ok=not missing)
                    if missing:
                        res.find(fn.cls.name, fn.name, f"partner copied with fields that {own_copy.qualname} keeps out: {', '.join(missing)}", f"{fn.module.relpath}:{call.lineno}",
                                 f"the partner's copy is constructed from the source partner's {', '.join(missing)} although the entity's own copy is not: "
                                 "the two copies are not rebuilt alike, the partner's copy keeps state (links, metadata) of the originals")
    return res


# ---------------------------------------------------------------------------------------------- FRESH
def rule_fresh(ctx) -> RuleResult:
    res = RuleResult(
        "C12.FRESH",
        "C12",
        "every NumericData.format_type implementation returns a fresh array (astype without copy=False, np.array ...): a copy is "
        "built by handing the source's values to the copy's values setter, which stores format_type's result — a pass-through "
        "would make source and copy share one buffer",
        floor=3,
    )
    from .c04 import is_fresh

    p = ctx.p
    seen = set()
    for K in p.subclasses(p.cls("NumericData")):
        fn = K.methods.get("format_type")
        if fn is None or fn in seen:
            continue
        seen.add(fn)
        fv, ffl = _flow(ctx, fn)
        for r in [x for x in ast.walk(fv.node) if isinstance(x, ast.Return) and x.value is not None]:
            os_ = ffl.origins_at(r.value, skip_none=False)
            ok = bool(os_) and all(is_fresh(o) for o in os_)
            txt = ffl.text(r.value, fs=True)
            res.inst(f"{K.name}.format_type returns {txt[:50]} (fresh: {ok})", nontrivial=True, ok=ok)
            if not ok:
                res.find(K.name, "format_type", f"returns {txt[:50]}, which may be the caller's array itself", f"{fn.module.relpath}:{r.lineno}",
                         "the values setter stores the very array it was handed: a copy made from the source's values shares its buffer, and an "
                         "in-place edit of the copy's values silently changes the source")
    nd = p.cls("NumericData")
    st = nd.props["values"].setter
    sv, sfl = _flow(ctx, st)
    me = st.self_name or "self"

    def formats(e, name, fl, me):
        return isinstance(e, ast.Call) and isinstance(e.func, ast.Attribute) and e.func.attr == name and isinstance(e.func.value, ast.Name) and e.func.value.id == me

    stores = [a for a in ast.walk(sv.node) if isinstance(a, (ast.Assign, ast.AnnAssign)) and a.value is not None
              and any(_self_attr(t, me, ("_values",)) for t in (a.targets if isinstance(a, ast.Assign) else [a.target]))]
    ok = bool(stores) and any(any(formats(o, "format_values", sfl, me) for o in sfl.origins_at(a.value)) for a in stores) \
        and all(all(formats(o, "format_values", sfl, me) for o in sfl.origins_at(a.value)) for a in stores)
    res.inst("NumericData.values setter stores format_values(...) (which ends in format_type)", ok=ok)
    if not ok:
        res.find("NumericData", "values", "setter does not go through format_values", st.where, "raw arrays are stored by reference")
    fv_fn = nd.methods["format_values"]
    fv, ffl = _flow(ctx, fv_fn)
    me = fv_fn.self_name or "self"
    arg = fv_fn.params[1] if len(fv_fn.params) > 1 else None
    par = parents(fv.node)

    def under_none_guard(r):
        """the return sits in the branch taken when the argument is None"""
        cur, child = par.get(r), r
        while cur is not None and cur is not fv.node:
            if isinstance(cur, ast.If) and child in cur.body and isinstance(cur.test, ast.Compare) and len(cur.test.ops) == 1 \
                    and isinstance(cur.test.ops[0], ast.Is) and isinstance(cur.test.comparators[0], ast.Constant) and cur.test.comparators[0].value is None \
                    and ffl.is_param(cur.test.left, arg):
                return True
            cur, child = par.get(cur), cur
        return False

    applied, raw = 0, 0
    for r in [x for x in ast.walk(fv.node) if isinstance(x, ast.Return) and x.value is not None]:
        for o in ffl.origins_at(r.value):
            if formats(o, "format_type", ffl, me):
                applied += 1
            elif not under_none_guard(r):
                raw += 1
    ok = applied > 0 and raw == 0
    res.inst("format_values ends with values = self.format_type(values)", ok=ok)
    if not ok:
        res.find("NumericData", "format_values", "format_type no longer applied", fv_fn.where, "stored values are neither coerced nor copied")
    return res


def rule_source(ctx) -> RuleResult:
    from ._c12_source import rule_source as impl

    return impl(ctx, _flow)


def rule_pgroup(ctx) -> RuleResult:
    from ._c12_source import rule_pgroup as impl

    return impl(ctx, _flow)


def rule_nested(ctx) -> RuleResult:
    from ._c12_source import rule_nested as impl

    return impl(ctx, _flow)


def rule_override(ctx) -> RuleResult:
    from ._c12_round5 import rule_override as impl

    return impl(ctx, _flow)


def rule_harvest(ctx) -> RuleResult:
    from ._c12_round5 import rule_harvest as impl

    return impl(ctx, _flow)


def rule_dedup(ctx) -> RuleResult:
    from ._c12_round5 import rule_dedup as impl

    return impl(ctx, _flow)


def rule_snapshot(ctx) -> RuleResult:
    from ._c12_round5 import rule_snapshot as impl

    return impl(ctx, _flow)


def rule_type_override(ctx) -> RuleResult:
    from ._c12_round5 import rule_type_override as impl

    return impl(ctx, _flow, _harvests(ctx))


def rule_named_children(ctx) -> RuleResult:
    from ._c12_round5 import rule_named_children as impl

    return impl(ctx, _flow)


def rule_plain(ctx) -> RuleResult:
    from ._c12_round5 import rule_plain as impl

    return impl(ctx, _flow)


def rule_option(ctx) -> RuleResult:
    from ._c12_round5 import rule_option as impl

    return impl(ctx, _flow)


RULES = [rule_alias, rule_fresh, rule_shape, rule_source, rule_pgroup, rule_nested, rule_override, rule_harvest, rule_dedup,
         rule_snapshot, rule_type_override, rule_named_children, rule_plain, rule_option]
