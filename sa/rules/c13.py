"""C13 — spatial selection: delegation to the single predicate, closed comparisons.

The rules decide on normalised code (ctx.view: private helpers expanded, hoisted constants substituted) and on facts that
do not depend on layout: which clauses hold on every path to a `return None` (guard clauses, nested ifs, merged / split
conditions, conditional expressions give the same clauses), which parameter a compared value is computed from, on which
side of the accept / reject decision a comparison sits.  Locals are identified by what they are bound from.
"""

from __future__ import annotations

import ast

from ..model import AnalysisError, unparse
from ..report import RuleResult
from ._c13_sem import (NP_ORDERING, ORDERING, PathFacts, call_name, ex, is_none, is_reducer, local_defs, mentions, names_from, prepare,
                       provenance, self_attr, self_stores, taint, taint_of)

# no per-element selection: the four corners are kept or dropped together (not among the object kinds C13 enumerates)
WHOLE_OBJECT = {"GeoImage": "image corners are selected all-or-nothing; `inverse` has no per-element meaning"}
# data follow "their vertices or cells" (property text): the other associations have no geometry to select by
GEOMETRY_ASSOCIATIONS = {"VERTEX", "CELL"}
COUNTERS = {"count_nonzero", "sum"}
COMPLEMENT_CALLS = {"logical_not", "invert", "bitwise_not"}


def _predicate(p):
    return p.module("shared/utils.py").functions.get("mask_by_extent")


def _is_call_to(p, mod, call, target) -> bool:
    """`call` invokes the module-level function `target` (through any import alias / module attribute); a bare name that
    the calling module does not define (code expanded from a helper of another module) is matched by name."""
    if not isinstance(call, ast.Call):
        return False
    r = p.resolve_expr(mod, call.func)
    if r is not None:
        return r[0] == "func" and r[1] is target
    return isinstance(call.func, ast.Name) and call.func.id == target.name


def _view(ctx, fn, receiver=None):
    """Normalised view of `fn` for a receiver class (default: the class defining it), after (1) table dispatch is written back
    as an if / elif chain (_c13_tables), (2) the calls to the two anchor functions are spelled by their own names — the
    normaliser keeps a call un-expanded when a rule names the called name, so `from ..utils import mask_by_extent as pick` /
    `utils.mask_by_extent` would otherwise have the predicate's body expanded into the override and the delegation could
    not be seen — and with (3) `self.<hook>()` calls resolved on the receiver class (_c13_recv: template methods)."""
    import copy
    from ..model import FuncInfo
    from ._c13_recv import view_for

    key = ("c13-src", id(fn.node))
    if key not in ctx.cache:
        p = ctx.p
        utils = p.module("shared/utils.py")
        anchors = [f for f in (utils.functions.get("mask_by_extent"), utils.functions.get("box_intersect")) if f is not None]
        node, renamed = copy.deepcopy(fn.node), False
        for c in ast.walk(node):
            if isinstance(c, ast.Call) and not (isinstance(c.func, ast.Name) and c.func.id in [a.name for a in anchors]):
                r = p.resolve_expr(fn.module, c.func)
                if r and r[0] == "func" and any(r[1] is a for a in anchors):
                    c.func = ast.copy_location(ast.Name(id=r[1].name, ctx=ast.Load()), c.func)
                    renamed = True
        from ._c13_tables import Tables

        tables = Tables(p, fn)  # dispatch through a dict of callables, written back as the if / elif chain it stands for
        chained = tables.rewrite(node)
        if tables.changed:
            node, renamed = chained, True
        src = FuncInfo(name=fn.name, module=fn.module, node=node, cls=fn.cls, kind=fn.kind, prop=fn.prop) if renamed else fn
        ctx.cache[key] = (fn, src)  # keeps the function and the renamed copy alive (caches are keyed by node identity)
    src = ctx.cache[key][1]
    receiver = receiver if receiver is not None else fn.cls
    if receiver is None or fn.kind == "staticmethod":
        return ctx.view(src)
    return view_for(ctx, src, receiver, id(fn.node))


def _users(p, ci, name, fn0):
    """The classes on which `name` resolves to the method fn0 of class ci (ci first)."""
    out = []
    for K in p.subclasses(ci):
        m = K.lookup(name)
        if m and m[1] == "method" and m[2] is fn0:
            out.append(K)
    return sorted(out, key=lambda K: K is not ci)


def _views_by_receiver(ctx, ci, name, fn0, classes=None):
    """[(view, [classes sharing it])] of method fn0 over the classes that use it (or `classes`): one entry unless a hook it
    calls is overridden below ci."""
    groups: list = []
    for K in (classes if classes is not None else _users(ctx.p, ci, name, fn0)):
        v = _view(ctx, fn0, K)
        for g in groups:
            if g[0] is v:
                g[1].append(K)
                break
        else:
            groups.append((v, [K]))
    return groups


def _mask_source(p, fn, call, pred):
    """Positional slot of `inverse` when `call` yields a selection mask that the rules accept as delegated: the shared
    predicate, or the same method of a base class (`super().mask_by_extent(..)`, `Base.mask_by_extent(self, ..)`) — which is
    itself an override checked here.  None for any other call."""
    if not isinstance(call, ast.Call):
        return None
    if _is_call_to(p, fn.module, call, pred):
        return 2
    f = call.func
    if fn.cls is None or not (isinstance(f, ast.Attribute) and f.attr == fn.name == "mask_by_extent"):
        return None
    if isinstance(f.value, ast.Call) and isinstance(f.value.func, ast.Name) and f.value.func.id == "super":
        return 1
    if isinstance(f.value, ast.Name):
        r = p.resolve_name(fn.module, f.value.id)
        if r and r[0] == "class" and r[1] is not fn.cls and r[1] in fn.cls.mro and call.args \
                and isinstance(call.args[0], ast.Name) and call.args[0].id == fn.self_name:
            return 2
    return None


def _argument(call, name, index, fn_node=None, defs=None):
    """Expression passed for parameter `name` (positional slot `index`, None = keyword only), or None.  A `**options`
    argument is read through when `options` is a dict display / dict(...) call bound once in the function."""
    for k in call.keywords:
        if k.arg == name:
            return k.value
    for k in call.keywords:
        if k.arg is None and fn_node is not None:
            d = ex(k.value, fn_node, defs)
            if isinstance(d, ast.Dict):
                for key, val in zip(d.keys, d.values):
                    if isinstance(key, ast.Constant) and key.value == name:
                        return val
            elif isinstance(d, ast.Call) and isinstance(d.func, ast.Name) and d.func.id == "dict" and not d.args:
                for kk in d.keywords:
                    if kk.arg == name:
                        return kk.value
    if index is not None and len(call.args) > index and not any(isinstance(a, ast.Starred) for a in call.args[: index + 1]):
        return call.args[index]
    return None


def _is_param(e, name, fn_node, defs) -> bool:
    """`e` is the caller's parameter `name` (possibly through aliases, or wrapped in bool())."""
    if e is None:
        return False
    x = ex(e, fn_node, defs)
    if isinstance(x, ast.Call) and isinstance(x.func, ast.Name) and x.func.id == "bool" and len(x.args) == 1 and not x.keywords:
        x = x.args[0]
    return isinstance(x, ast.Name) and x.id == name and not _replaced(fn_node, name)


CONVERSIONS = {"asarray", "asanyarray", "array", "ascontiguousarray", "atleast_2d", "copy", "bool", "float", "asfarray"}


def _replaced(fn_node, name) -> bool:
    """The function re-binds its parameter `name` to something that is not the same value in another container (a projection,
    a default decided by its values, ...): what it hands on under that name is then not what the caller passed.  Re-binding
    to a plain conversion of itself (np.asarray(extent), bool(inverse), extent.copy()) keeps the value."""
    for n in ast.walk(fn_node):
        vals = []
        if isinstance(n, (ast.Assign, ast.AnnAssign)) and n.value is not None:
            tgs = n.targets if isinstance(n, ast.Assign) else [n.target]
            if any(isinstance(x, ast.Name) and x.id == name for t in tgs for x in ast.walk(t) if isinstance(x.ctx if hasattr(x, "ctx") else None, ast.Store)):
                vals.append(n.value if all(isinstance(t, ast.Name) for t in tgs) else None)
        elif isinstance(n, ast.AugAssign) and isinstance(n.target, ast.Name) and n.target.id == name:
            vals.append(None)
        elif isinstance(n, ast.NamedExpr) and n.target.id == name:
            vals.append(n.value)
        elif isinstance(n, (ast.For, ast.comprehension)) and any(isinstance(x, ast.Name) and x.id == name for x in ast.walk(n.target)):
            vals.append(None)
        for v in vals:
            if v is None:
                return True
            arg = None
            if isinstance(v, ast.Call) and call_name(v) in CONVERSIONS:
                if isinstance(v.func, ast.Attribute) and isinstance(v.func.value, ast.Name) and v.func.value.id == name:
                    arg = v.func.value  # extent.copy()
                elif v.args:
                    arg = v.args[0]
            elif isinstance(v, ast.IfExp):
                return True
            if not (isinstance(arg, ast.Name) and arg.id == name):
                return True
    return False


def _forwards_flag(e, name, pf, at) -> bool:
    """The argument `e` carries the caller's flag `name`: the parameter itself (aliases, bool()), or a literal True / False
    at a place where every path has already established that the flag has that truth value (`if inverse: return ...`
    followed by `f(..., inverse=False)`).  `at` is the call the argument belongs to."""
    if _is_param(e, name, pf.node, pf.defs):
        return True
    if e is None:
        return False
    x = ex(e, pf.node, pf.defs)
    if isinstance(x, ast.Constant) and isinstance(x.value, bool):
        return pf.known_truth(pf.around(at), name) in (x.value, "dead")
    return False


def _self_rooted(e, self_name) -> bool:
    """`self.a.b`, `self.a[i]`, `getattr(self.a, "b", None)`: state of the object, not an argument of the call."""
    if isinstance(e, ast.Call) and isinstance(e.func, ast.Name) and e.func.id == "getattr" and len(e.args) >= 2 and isinstance(e.args[1], ast.Constant):
        return _self_rooted(e.args[0], self_name) and (len(e.args) == 2 or is_none(e.args[2]))
    if not isinstance(e, (ast.Attribute, ast.Subscript)):
        return False
    while isinstance(e, (ast.Attribute, ast.Subscript)):
        e = e.value
    if isinstance(e, ast.Call):
        return _self_rooted(e, self_name)
    return isinstance(e, ast.Name) and e.id == self_name


class _Override:
    """One mask_by_extent override, prepared for path questions."""

    def __init__(self, p, fn, pred):
        self.p, self.fn, self.pred = p, fn, pred
        self.pf = PathFacts(fn.node)
        self.node, self.defs = self.pf.node, self.pf.defs
        self.self_name = fn.self_name or "self"
        self.ext_name = fn.params[1] if len(fn.params) > 1 else "extent"
        self.inv_name = fn.params[2] if len(fn.params) > 2 else "inverse"
        self.bi = p.module("shared/utils.py").functions.get("box_intersect")
        self.pcalls = [n for n in ast.walk(self.node) if _mask_source(p, fn, n, pred) is not None]
        self._pc = {id(c) for c in self.pcalls}
        self.derived = names_from(self.node, lambda x: id(x) in self._pc)

    def from_pred(self, e) -> bool:
        return any(id(x) in self._pc or _mask_source(self.p, self.fn, x, self.pred) is not None
                   or (isinstance(x, ast.Name) and x.id in self.derived) for x in ast.walk(e))

    def _reads_inverse(self, e) -> bool:
        """The condition itself depends on `inverse` (forwarding it to the shared predicate does not count)."""
        slot = _mask_source(self.p, self.fn, e, self.pred)
        if slot is not None:
            return any(self._reads_inverse(a) for a in e.args[:slot])
        if isinstance(e, ast.Name):
            return e.id == self.inv_name
        return any(self._reads_inverse(c) for c in ast.iter_child_nodes(e))

    def _built_from_object(self, e) -> bool:
        """`e` is computed from the state of the object alone (np.c_[[self.collar["x"], ..]].T): it reads self and, besides,
        only names that are neither parameters nor locals of the function (modules, functions)."""
        a = self.node.args
        bound = {x.arg for x in a.posonlyargs + a.args + a.kwonlyargs} - {self.self_name}
        bound |= {x.id for x in ast.walk(self.node) if isinstance(x, ast.Name) and isinstance(x.ctx, ast.Store)}
        names = {x.id for x in ast.walk(e) if isinstance(x, ast.Name)}
        return self.self_name in names and not (names & bound) and not self.from_pred(e)

    def forwards_inverse(self, call) -> bool:
        slot = _mask_source(self.p, self.fn, call, self.pred)
        return _forwards_flag(_argument(call, "inverse", slot, self.node, self.defs), self.inv_name, self.pf, call)

    # ---- accepted reasons for returning nothing
    def _literal_reason(self, node, pol):
        if self._reads_inverse(node):
            return None
        if isinstance(node, ast.Call) and self.bi is not None and _is_call_to(self.p, self.fn.module, node, self.bi):
            if not pol and any(_is_param(a, self.ext_name, self.node, self.defs) for a in node.args + [k.value for k in node.keywords]):
                return "box misses the bounding box"
            return None
        if isinstance(node, ast.Compare) and len(node.ops) == 1 and isinstance(node.ops[0], ast.Is) and is_none(node.comparators[0]):
            x = node.left
            if not pol:
                return None
            if isinstance(x, ast.Name) and x.id == self.ext_name:
                return "no extent"
            if _self_rooted(x, self.self_name) or self._built_from_object(x):
                return "geometry missing"
            if self.from_pred(x):
                return "predicate result"
            return None
        red = is_reducer(node, {"any"}) if isinstance(node, ast.Call) else None
        if red and not pol and self.from_pred(red[1]):
            return "no element qualifies"
        cnt = is_reducer(node, COUNTERS) if isinstance(node, ast.Call) else None
        if cnt and not pol and self.from_pred(cnt[1]):
            return "no element qualifies"
        if isinstance(node, ast.Compare) and len(node.ops) == 1 and isinstance(node.ops[0], ast.Eq) and pol:
            a, b = node.left, node.comparators[0]
            for u, v in ((a, b), (b, a)):
                c = is_reducer(u, COUNTERS) if isinstance(u, ast.Call) else None
                if c and self.from_pred(c[1]) and isinstance(v, ast.Constant) and v.value == 0 and v.value is not False:
                    return "no element qualifies"
        return None

    def _association_members(self, node):
        """Members of the association enumeration that `node` (an `is` / `==` / `in` test on self.association) names."""
        if not (isinstance(node, ast.Compare) and len(node.ops) == 1 and isinstance(node.ops[0], (ast.Is, ast.Eq, ast.In))):
            return set()
        a, b = node.left, node.comparators[0]

        def assoc(e):
            return isinstance(e, ast.Attribute) and e.attr == "association" and _self_rooted(e, self.self_name)

        def members(e):
            es = e.elts if isinstance(e, (ast.Tuple, ast.List, ast.Set)) else (e.keys if isinstance(e, ast.Dict) else [e])
            if all(isinstance(x, ast.Attribute) and x.attr.isupper() for x in es):
                return {x.attr for x in es}
            return set()

        if assoc(a):
            return members(b)
        if assoc(b) and not isinstance(node.ops[0], ast.In):
            return members(a)
        return set()

    def none_reason(self, facts):
        """Why returning None under `facts` (clauses holding on every path to the return) is accepted, or None."""
        if frozenset() in facts:
            return "unreachable"
        for clause in facts:
            rs = [self._literal_reason(*self.pf.literal(lit)) for lit in clause]
            if rs and all(rs):
                return " / ".join(sorted(set(rs)))
        excluded = set()
        for clause in facts:
            if len(clause) == 1:
                node, pol = self.pf.literal(next(iter(clause)))
                if not pol:
                    excluded |= self._association_members(node)
        if GEOMETRY_ASSOCIATIONS <= excluded:
            return "association without geometry"
        return None


def rule_deleg(ctx) -> RuleResult:
    res = RuleResult(
        "C13.DELEG",
        "C13",
        "every mask_by_extent override that returns a mask obtains it from shared.utils.mask_by_extent and forwards "
        "inverse=inverse; None is returned only behind the bounding-box test, when no element qualifies, when the "
        "geometry is missing, or by classes without geometry",
        floor=9,
    )
    p = ctx.p
    pred = _predicate(p)
    if pred is None:
        raise AnalysisError("anchor shared.utils.mask_by_extent not found")
    for ci in p.classes:
        if ci.synthetic or "mask_by_extent" not in ci.methods:
            continue
        fn0 = ci.methods["mask_by_extent"]
        body = [s for s in fn0.node.body if not (isinstance(s, ast.Expr) and isinstance(s.value, ast.Constant))]
        if not body:
            res.inst(f"{ci.name}.mask_by_extent: declaration only (abstract / documented no-op)")
            continue
        # one pass per resolution of the hooks the method calls on the classes that use it (a single one unless a hook is
        # overridden below ci: template method)
        for fn, receivers in _views_by_receiver(ctx, ci, "mask_by_extent", fn0):
            ident = f"{ci.name}.mask_by_extent" + ("" if receivers[0] is ci else f" [on {receivers[0].name}]")
            o = _Override(p, fn, pred)
            for c in o.pcalls:
                if not o.forwards_inverse(c):
                    res.find(ci.name, "mask_by_extent", f"predicate called without inverse={o.inv_name}",
                             f"{fn.module.relpath}:{c.lineno}",
                             "the override drops the `inverse` option on its way to the shared predicate: inverse selections return the non-inverted mask")
            rets = o.pf.returns()
            no_geometry = len(body) == 1 and isinstance(body[0], ast.Return) and (body[0].value is None or is_none(body[0].value))
            for n, r in rets:
                v = r.value
                if v is None or is_none(v):
                    why = "class without geometry" if no_geometry else o.none_reason(o.pf.at(n))
                    ok = why is not None
                    what = "return None" + (f" ({why})" if ok else "")
                    if not ok:
                        res.find(ci.name, "mask_by_extent", "return None outside the accepted contexts",
                                 f"{fn.module.relpath}:{r.lineno}",
                                 "the override returns nothing although the box may contain elements of the object")
                else:
                    ok = o.from_pred(v) or ci.name in WHOLE_OBJECT
                    what = "return <value computed from the shared predicate>" if ok else "return <other value>"
                    if not ok:
                        res.find(ci.name, "mask_by_extent", "returned mask does not come from the shared predicate",
                                 f"{fn.module.relpath}:{r.lineno}",
                                 "the override computes its own selection instead of delegating to shared.utils.mask_by_extent")
                res.inst(f"{ident}:{r.lineno} {what}", nontrivial=True, ok=ok)
            if any(r.value is not None and not is_none(r.value) for _, r in rets):
                for n, facts in o.pf.fall_through():
                    ok = o.none_reason(facts) is not None
                    res.inst(f"{ident}:{n.lineno} falls off the end (implicit None)", nontrivial=True, ok=ok)
                    if not ok:
                        res.find(ci.name, "mask_by_extent", "implicit return None outside the accepted contexts",
                                 f"{fn.module.relpath}:{n.lineno}",
                                 "the override returns nothing although the box may contain elements of the object")
        if ci.name in WHOLE_OBJECT:
            res.notes.append(f"{ci.name}.mask_by_extent: {WHOLE_OBJECT[ci.name]}")
    return res


# ------------------------------------------------------------------------------------------------ CLOSED
class _BoolTests(ast.NodeTransformer):
    """`x is True` / `x == True` -> x ; `x is False` / `x is not True` -> not x (so that path pruning sees the flag itself)."""

    def visit_Compare(self, node):
        self.generic_visit(node)
        if len(node.ops) == 1 and isinstance(node.comparators[0], ast.Constant) and isinstance(node.comparators[0].value, bool) \
                and isinstance(node.ops[0], (ast.Is, ast.IsNot, ast.Eq, ast.NotEq)) and isinstance(node.left, ast.Name):
            positive = node.comparators[0].value == isinstance(node.ops[0], (ast.Is, ast.Eq))
            return node.left if positive else ast.copy_location(ast.UnaryOp(op=ast.Not(), operand=node.left), node)
        return node


def _shape_like(e) -> bool:
    """An operand about the shape of an array, not about its values."""
    return any((isinstance(x, ast.Attribute) and x.attr in ("shape", "ndim", "size", "dtype")) or (isinstance(x, ast.Call) and call_name(x) in ("len", "isinstance"))
               for x in ast.walk(e))


def _ordering_sites(node):
    """[(site node, operator class, operands)] for `a < b` comparisons and np.less(a, b) style calls under `node`."""
    out = []
    for c in ast.walk(node):
        if isinstance(c, ast.Compare):
            operands = [c.left] + c.comparators
            for i, op in enumerate(c.ops):
                if isinstance(op, ORDERING):
                    out.append((c, type(op), operands[i: i + 2]))
        elif isinstance(c, ast.Call) and call_name(c) in NP_ORDERING and len(c.args) >= 2:
            out.append((c, NP_ORDERING[call_name(c)], c.args[:2]))
    return out


def _closed_predicate(res, pred):
    from ..cfg import CFG
    from ..kinds import reach

    node, _defs = prepare(pred.node)
    for n in ast.walk(node):
        if isinstance(n, (ast.If, ast.While)):
            n.test = _BoolTests().visit(n.test)
    if len(pred.params) < 3:
        raise AnalysisError("shared.utils.mask_by_extent: (locations, extent, inverse) signature not found")
    loc_p, ext_p, inv_p = pred.params[:3]
    t = taint(node, [loc_p, ext_p])
    cand = [(c, op, operands) for c, op, operands in _ordering_sites(node)
            if not any(_shape_like(o) for o in operands) and set().union(*[taint_of(o, t) for o in operands]) >= {loc_p, ext_p}]
    ids = {id(c) for c, _, _ in cand}
    masks = names_from(node, lambda x: id(x) in ids)  # the accumulated selection and what is computed from it
    sites = [(c, op) for c, op, operands in cand if not any(mentions(o, masks) for o in operands)]
    if not sites:
        raise AnalysisError("shared.utils.mask_by_extent: no coordinate comparison recognised")
    for c, op in sites:
        strict = op in (ast.Lt, ast.Gt)
        res.inst(f"mask_by_extent:{c.lineno} coordinate/limit comparison {'STRICT' if strict else 'non-strict'}", ok=not strict)
        if strict:
            res.find("utils", "mask_by_extent", "strict comparison between coordinates and limits", f"{pred.module.relpath}:{c.lineno}",
                     "points lying exactly on a face of the box are excluded: the box is not closed")
    # inverse: with the flag set, every returned value went through a complement of the selection
    sel = {id(c) for c, _ in sites}

    def selection(e):
        return any(id(x) in sel or (isinstance(x, ast.Name) and x.id in masks) for x in ast.walk(e))

    def elementwise(e):
        """e is (computed from) the selection itself, not a summary of it such as np.any(selection)"""
        return selection(e) and not any(isinstance(x, ast.Call) and (call_name(x) in COUNTERS | {"any", "len"} or (call_name(x) == "all" and not x.keywords))
                                        for x in ast.walk(e))

    def complements(e):
        for x in ast.walk(e):
            if isinstance(x, ast.UnaryOp) and isinstance(x.op, ast.Invert) and elementwise(x.operand):
                return True
            if isinstance(x, ast.Call) and call_name(x) in COMPLEMENT_CALLS and x.args and elementwise(x.args[0]):
                return True
            # branch-free forms: selection ^ inverse, selection != inverse, np.logical_xor(selection, inverse)
            pair = None
            if isinstance(x, ast.BinOp) and isinstance(x.op, ast.BitXor):
                pair = (x.left, x.right)
            elif isinstance(x, ast.Compare) and len(x.ops) == 1 and isinstance(x.ops[0], ast.NotEq):
                pair = (x.left, x.comparators[0])
            elif isinstance(x, ast.Call) and call_name(x) in ("logical_xor", "bitwise_xor", "not_equal") and len(x.args) == 2:
                pair = tuple(x.args)
            if pair and any(elementwise(a) and isinstance(b, ast.Name) and b.id == inv_p for a, b in (pair, pair[::-1])):
                return True
        return False

    g = CFG(node)

    def comp_node(n):
        src = n.ast if n.kind in ("stmt", "return") else None
        return src is not None and not isinstance(src, list) and complements(src)

    rets = [n for n in g.nodes if n.kind == "return" and n.ast is not None and not is_none(n.ast)]
    if not rets:
        raise AnalysisError("shared.utils.mask_by_extent: no value-returning exit found")
    seen = reach(g, [g.entry], inv_p, {"truthy:" + inv_p: True}, avoid=comp_node)
    bad = [r for r in rets if r in seen]
    res.inst("with `inverse` set every exit returns the complement of the selection", nontrivial=True, ok=not bad)
    if bad:
        res.find("utils", "mask_by_extent", "inverse branch does not return the complement", pred.where,
                 "the inverse option no longer applies the complementary test")


def _closed_box(res, bi):
    """box_intersect: every ordering comparison deciding the result must sit on the right side: a comparison whose truth
    rejects must be strict, one whose truth is needed to accept must be non-strict (touching boxes intersect)."""
    pf = PathFacts(bi.node)
    node = pf.node
    assigned: dict = {}
    for n in ast.walk(node):
        if isinstance(n, (ast.Assign, ast.AugAssign, ast.AnnAssign)) and getattr(n, "value", None) is not None:
            for tg in (n.targets if isinstance(n, ast.Assign) else [n.target]):
                if isinstance(tg, ast.Name):
                    assigned.setdefault(tg.id, []).append(n.value)
    verdicts: dict = {}  # id(site) -> (site, operator, accept side?)
    visiting = set()

    def side(e, accept):
        if isinstance(e, ast.UnaryOp) and isinstance(e.op, (ast.Not, ast.Invert)):
            side(e.operand, not accept)
        elif isinstance(e, ast.BoolOp):
            for v in e.values:
                side(v, accept)
        elif isinstance(e, ast.BinOp) and isinstance(e.op, (ast.BitAnd, ast.BitOr, ast.Mult)):
            side(e.left, accept)
            side(e.right, accept)
        elif isinstance(e, ast.IfExp):
            side(e.body, accept)
            side(e.orelse, accept)
        elif isinstance(e, (ast.GeneratorExp, ast.ListComp, ast.SetComp)):
            side(e.elt, accept)
        elif isinstance(e, (ast.List, ast.Tuple)):
            for v in e.elts:
                side(v, accept)
        elif isinstance(e, ast.Compare):
            for i, op in enumerate(e.ops):
                if isinstance(op, ORDERING):
                    verdicts[(id(e), i)] = (e, type(op), accept)
        elif isinstance(e, ast.Call):
            nm = call_name(e)
            if nm in NP_ORDERING and len(e.args) >= 2:
                verdicts[(id(e), 0)] = (e, NP_ORDERING[nm], accept)
            elif nm in COMPLEMENT_CALLS and e.args:
                side(e.args[0], not accept)
            elif nm in ("any", "all", "bool", "logical_and", "logical_or", "asarray", "array", "alltrue", "sometrue"):
                if isinstance(e.func, ast.Attribute) and not (isinstance(e.func.value, ast.Name) and e.func.value.id in ("np", "numpy")):
                    side(e.func.value, accept)
                for a in e.args:
                    side(a, accept)
        elif isinstance(e, ast.Name) and e.id in assigned and e.id not in visiting:
            visiting.add(e.id)
            for v in assigned[e.id]:
                side(v, accept)
            visiting.discard(e.id)

    rets = [(n, r.value) for n, r in pf.returns() if r.value is not None]
    if not rets:
        raise AnalysisError("shared.utils.box_intersect: no value-returning exit found")
    # input validation (a test that only leads to `raise`, an assert) decides nothing about the result
    checks, validation = set(), set()
    for n in ast.walk(node):
        if (isinstance(n, ast.If) and n.body and isinstance(n.body[-1], ast.Raise)) or isinstance(n, ast.Assert):
            checks |= {id(x) for x in ast.walk(n.test)}
            validation |= {id(c) for c, _, _ in _ordering_sites(n.test)}
    # a verdict stored in a local that is returned later (`overlap = False; break`) is decided where it is stored
    returned = {x.id for _, v in rets for x in ast.walk(v) if isinstance(x, ast.Name)}
    for n in pf.g.nodes:
        a = n.ast
        if n.kind == "stmt" and n in pf.IN and isinstance(a, ast.Assign) and len(a.targets) == 1 and isinstance(a.targets[0], ast.Name) \
                and a.targets[0].id in returned and isinstance(a.value, ast.Constant) and isinstance(a.value.value, bool):
            rets.append((n, a.value))
    common = frozenset.intersection(*[pf.at(n) for n, _ in rets])
    for n, v in rets:
        const = v.value if isinstance(v, ast.Constant) and isinstance(v.value, bool) else None
        if const is None:
            side(v, True)
            continue
        # conditions that single out this exit: true on every path to it, not on every path to every exit
        for clause in pf.at(n) - common:
            for lit in clause:
                a, pol = pf.literal(lit)
                if id(a) not in checks:
                    side(a, pol == const)
    placed = {k[0] for k in verdicts}
    if not verdicts:
        raise AnalysisError("shared.utils.box_intersect: rejecting test not found")
    for c, _op, _ in _ordering_sites(node):
        if id(c) not in placed and id(c) not in validation and not _inside(node, c, placed):
            raise AnalysisError(f"box_intersect:{c.lineno}: comparison not understood as accepting or rejecting")
    for (_cid, _i), (c, op, accept) in sorted(verdicts.items(), key=lambda kv: (kv[1][0].lineno, kv[0][1])):
        strict = op in (ast.Lt, ast.Gt)
        ok = strict != accept
        how = ("accepts on " if accept else "rejects on ") + ("strict" if strict else "non-strict") + " comparison"
        res.inst(f"box_intersect:{c.lineno} {how}", ok=ok)
        if not ok:
            res.find("utils", "box_intersect", "rejects touching boxes" if not accept else "accepts only strictly overlapping boxes",
                     f"{bi.module.relpath}:{c.lineno}",
                     "a box that only touches the object's bounding box is treated as disjoint: elements on the shared face are lost")


def _inside(root, c, placed_ids) -> bool:
    """c is a copy living inside an already placed expression (tests are alias-expanded copies)."""
    for x in ast.walk(root):
        if id(x) in placed_ids and any(y is c for y in ast.walk(x)):
            return True
    return False


def rule_closed(ctx) -> RuleResult:
    res = RuleResult(
        "C13.CLOSED",
        "C13",
        "in shared.utils.mask_by_extent every comparison between coordinates and limits is non-strict and the inverse "
        "branch returns the complement; box_intersect rejects only strictly disjoint boxes",
        floor=4,
    )
    p = ctx.p
    pred = _predicate(p)
    if pred is None:
        raise AnalysisError("anchor shared.utils.mask_by_extent not found")
    _closed_predicate(res, ctx.view(pred))
    bi = p.module("shared/utils.py").functions.get("box_intersect")
    if bi is None:
        raise AnalysisError("anchor shared.utils.box_intersect not found")
    _closed_box(res, ctx.view(bi))
    return res


# ------------------------------------------------------------------------------------------------ FWD
NESTED = ("mask_by_extent", "copy_from_extent")


def _method_slots(p, name) -> dict:
    """Positional slot (after self) of `extent` and `inverse` in the methods called `name`, when all definitions agree."""
    slots: dict = {}
    for fn in p.all_functions():
        if fn.name != name or fn.cls is None:
            continue
        ps = fn.params[1:] if fn.kind != "staticmethod" else fn.params
        for prm in ("extent", "inverse"):
            idx = ps.index(prm) if prm in ps else None
            if prm in slots and slots[prm] != idx:
                slots[prm] = None
            else:
                slots.setdefault(prm, idx)
    return slots


def rule_fwd(ctx) -> RuleResult:
    res = RuleResult(
        "C13.FWD",
        "C13",
        "inside every function that takes `extent` and `inverse`, each call to a mask_by_extent / copy_from_extent "
        "(method or the shared predicate) passes inverse=<the caller's inverse> and the caller's extent; every "
        "copy_from_extent that computes a mask hands exactly that mask to copy(mask=...)",
        floor=12,
    )
    p = ctx.p
    pred = _predicate(p)
    slots = {nm: _method_slots(p, nm) for nm in NESTED}
    for fn0 in p.all_functions():
        params = fn0.params + [a.arg for a in fn0.node.args.kwonlyargs]
        if "inverse" not in params or "extent" not in params:
            continue
        fn = _view(ctx, fn0)
        pf = PathFacts(fn.node)
        node, defs = pf.node, pf.defs
        seen_sites = set()
        for c in ast.walk(node):
            if not isinstance(c, ast.Call):
                continue
            nm = call_name(c)
            if nm not in NESTED:
                continue
            is_pred = pred is not None and not isinstance(c.func, ast.Attribute) and _is_call_to(p, fn.module, c, pred)
            if not is_pred and isinstance(c.func, ast.Attribute) and pred is not None:
                r = p.resolve_expr(fn.module, c.func)
                is_pred = bool(r and r[0] == "func" and r[1] is pred)  # utils.mask_by_extent(...)
            if is_pred or isinstance(c.func, ast.Name):
                ext_i, inv_i = 1, 2
            else:
                ext_i, inv_i = slots[nm].get("extent"), slots[nm].get("inverse")
                recv = c.func.value if isinstance(c.func, ast.Attribute) else None
                rr = p.resolve_name(fn.module, recv.id) if isinstance(recv, ast.Name) and recv.id not in ("self", "cls") else None
                if rr and rr[0] == "class":  # Class.method(self, extent, ...): explicit receiver
                    ext_i = None if ext_i is None else ext_i + 1
                    inv_i = None if inv_i is None else inv_i + 1
            ext_ok = _is_param(_argument(c, "extent", ext_i, node, defs), "extent", node, defs) or any(_is_param(a, "extent", node, defs) for a in c.args)
            inv_ok = _forwards_flag(_argument(c, "inverse", inv_i, node, defs), "inverse", pf, c)
            ok = ext_ok and inv_ok
            site = (unparse(c), ok)
            if site not in seen_sites:  # alias-expanded tests and duplicated exits hold copies of the calls they mention
                seen_sites.add(site)
                res.inst(f"{fn.qualname}:{c.lineno} {unparse(c.func)}(...)", nontrivial=True, ok=ok)
            if not ok:
                what = "inverse" if not inv_ok else "extent"
                callee = nm if is_pred or not isinstance(c.func, ast.Attribute) else f"<receiver>.{nm}"
                res.find(fn.cls.name if fn.cls else fn.module.short, fn.name, f"call to {callee} does not forward `{what}`",
                         f"{fn.module.relpath}:{c.lineno}",
                         f"the caller's `{what}` is dropped on the way to {nm}: the nested selection is made with the default instead of the requested one")
        if fn.name == "copy_from_extent":
            # mask flow: what copy(mask=...) receives is computed from a *.mask_by_extent(...) result
            def selecting(x):
                return isinstance(x, ast.Call) and call_name(x) == "mask_by_extent"

            derived = names_from(node, selecting)
            copies = [c for c in ast.walk(node) if isinstance(c, ast.Call) and isinstance(c.func, ast.Attribute) and c.func.attr == "copy"
                      and _argument(c, "mask", None, node, defs) is not None]
            for c in copies:
                mv = _argument(c, "mask", None, node, defs)
                ok = any(selecting(x) or (isinstance(x, ast.Name) and x.id in derived) for x in ast.walk(mv))
                site = (unparse(c), ok)
                if site in seen_sites and ok:
                    continue
                seen_sites.add(site)
                res.inst(f"{fn.qualname}:{c.lineno} copy(mask=<computed from mask_by_extent>)" if ok else f"{fn.qualname}:{c.lineno} copy(mask=<other>)",
                         nontrivial=True, ok=ok)
                if not ok:
                    res.find(fn.cls.name if fn.cls else fn.module.short, fn.name, "copy(mask=...) is not the computed extent mask",
                             f"{fn.module.relpath}:{c.lineno}", "the copy is not restricted to the elements selected by mask_by_extent")
    return res


# ------------------------------------------------------------------------------------------------ ORPHAN
def rule_orphan(ctx) -> RuleResult:
    res = RuleResult(
        "C13.ORPHAN",
        "C13",
        "CellObject.mask_by_extent: on every path that returns a mask while the object has cells, the vertex mask has "
        "been intersected with the vertices used by fully-selected cells (cells kept only when all their vertices "
        "qualify; vertices kept only when a kept cell uses them) — the intersection is skipped only when cells is None",
        floor=3,
    )
    p = ctx.p
    K = p.cls("CellObject")
    fn0 = K.methods.get("mask_by_extent")
    if fn0 is None:
        raise AnalysisError("anchor CellObject.mask_by_extent not found")
    # per resolution of the hooks the method calls on the classes that use it (one, unless a hook is overridden below)
    for fn, _receivers in _views_by_receiver(ctx, K, "mask_by_extent", fn0):
        _orphan_check(ctx, res, fn)
    return res


def _orphan_check(ctx, res, fn):
    from ..cfg import CFG
    from ..kinds import reach

    p = ctx.p
    pred = _predicate(p)
    node, defs = prepare(fn.node)
    sn = fn.self_name or "self"
    cells_txt = f"{sn}.cells"

    def X(e):
        return ex(e, node, defs)

    def is_cells(e):
        return unparse(X(e)) == cells_txt

    # the vertex mask: what the shared predicate returned (under any local name, aliases included)
    pcalls = {id(c) for c in ast.walk(node) if _mask_source(p, fn, c, pred) is not None}
    if not pcalls:
        raise AnalysisError("CellObject.mask_by_extent: vertex mask from the shared predicate not found")
    def yields_mask(v):
        """v is the call itself, or a conditional expression whose arms are that or None (`None if <no geometry> else <call>`)"""
        if isinstance(v, ast.IfExp):
            arms = [v.body, v.orelse]
            return all(is_none(a) or yields_mask(a) for a in arms) and any(yields_mask(a) for a in arms)
        return id(v) in pcalls

    mask_names = {t.id for n in ast.walk(node) if isinstance(n, (ast.Assign, ast.AnnAssign)) and n.value is not None and yields_mask(n.value)
                  for t in (n.targets if isinstance(n, ast.Assign) else [n.target]) if isinstance(t, ast.Name)}
    grown = True
    while grown:  # handed on under another name (`result = <call>` in an expanded helper, `vert_mask = result` in the caller)
        grown = False
        for n in ast.walk(node):
            if isinstance(n, ast.Assign) and len(n.targets) == 1 and isinstance(n.targets[0], ast.Name) and isinstance(n.value, ast.Name) \
                    and n.value.id in mask_names and n.targets[0].id not in mask_names:
                mask_names.add(n.targets[0].id)
                grown = True

    def is_mask(e):
        x = X(e)
        return (isinstance(x, ast.Name) and x.id in mask_names) or _mask_source(p, fn, x, pred) is not None

    # (1) cell selection: np.all(<mask>[self.cells], axis=1)  /  <mask>[self.cells].all(axis=1)
    def complete_cells(e):
        x = X(e)
        red = is_reducer(x, {"all"}) if isinstance(x, ast.Call) else None
        if not red or not any(k.arg == "axis" and unparse(k.value) in ("1", "-1") for k in x.keywords):
            return False
        a = red[1]
        return isinstance(a, ast.Subscript) and is_mask(a.value) and is_cells(a.slice)

    has_sel = any(complete_cells(n) for n in ast.walk(node) if isinstance(n, ast.Call))
    res.inst("cell mask = np.all(vertex mask[self.cells], axis=1)", ok=has_sel)
    if not has_sel:
        res.find("CellObject", "mask_by_extent", "cells are not selected by np.all(<vertex mask>[self.cells], axis=1)", fn.where,
                 "a cell must be kept exactly when all of its vertices qualify")
        return

    # (2) used-vertex mask: all False, then set at the (flattened) vertex indices of the complete cells
    def kept_cell_vertices(e):
        """e mentions self.cells[<complete cells>]"""
        return any(isinstance(x, ast.Subscript) and is_cells(x.value) and complete_cells(x.slice) for x in ast.walk(X(e)))

    used = set()
    for n in ast.walk(node):
        if isinstance(n, ast.Assign) and len(n.targets) == 1 and isinstance(n.targets[0], ast.Subscript) and isinstance(n.targets[0].value, ast.Name) \
                and kept_cell_vertices(n.targets[0].slice) and isinstance(n.value, ast.Constant) and n.value.value is True:
            used.add(n.targets[0].value.id)
    zeroed = {n.targets[0].id for n in ast.walk(node) if isinstance(n, ast.Assign) and len(n.targets) == 1 and isinstance(n.targets[0], ast.Name)
              and isinstance(n.value, ast.Call) and call_name(n.value) in ("zeros_like", "zeros")}
    used &= zeroed
    # ... or computed in one expression: np.isin(np.arange(n), self.cells[<complete cells>])
    def used_expr(e):
        x = X(e)
        if isinstance(x, ast.Name) and x.id in used:
            return True
        return isinstance(x, ast.Call) and call_name(x) in ("isin", "in1d") and len(x.args) >= 2 and call_name(x.args[0]) == "arange" and kept_cell_vertices(x.args[1])

    has_used = bool(used) or any(used_expr(n) for n in ast.walk(node) if isinstance(n, ast.Call))
    res.inst("used-vertex mask starts all False and is set at the vertices of kept cells", ok=has_used)
    if not has_used:
        res.find("CellObject", "mask_by_extent", "used-vertex mask is not (zeros; [self.cells[cell mask].flatten()] = True)", fn.where,
                 "vertices of partially selected cells would be kept (orphans) or vertices of kept cells dropped")
        return

    # (3) every path returning the mask with cells present passes `mask &= used` (or returns mask & used)
    def meet(e):
        """e is <mask> & <used> in either order / np.logical_and(<mask>, <used>)"""
        pair = None
        if isinstance(e, ast.BinOp) and isinstance(e.op, ast.BitAnd):
            pair = (e.left, e.right)
        elif isinstance(e, ast.Call) and call_name(e) in ("logical_and", "bitwise_and") and len(e.args) == 2:
            pair = tuple(e.args)
        return bool(pair) and any(is_mask(a) and used_expr(b) for a, b in (pair, pair[::-1]))

    def inter(n):
        a = n.ast
        if n.kind == "return":
            return a is not None and meet(X(a))
        if n.kind != "stmt":
            return False
        if isinstance(a, ast.AugAssign) and isinstance(a.op, ast.BitAnd):
            return isinstance(a.target, ast.Name) and a.target.id in mask_names and used_expr(a.value)
        if isinstance(a, ast.Assign) and len(a.targets) == 1 and isinstance(a.targets[0], ast.Name) and meet(a.value):
            mask_names.add(a.targets[0].id)  # the intersected mask under a new name is still the vertex mask
            return True
        return False

    g = CFG(node)
    marks = [n for n in g.nodes if inter(n)]
    if not marks:
        res.inst("vertex mask &= used-vertex mask", ok=False)
        res.find("CellObject", "mask_by_extent", "the vertex mask is never intersected with the used-vertex mask", fn.where,
                 "orphan vertices (of cells cut by the box) stay selected")
        return
    rets = [n for n in g.nodes if n.kind == "return" and n.ast is not None and not is_none(n.ast)]
    if not rets:
        raise AnalysisError("CellObject.mask_by_extent: no exit returning the vertex mask recognised")
    facts = {f"notnone:{cells_txt}": True}
    seen = reach(g, [g.entry], sn, facts, avoid=lambda n: n in marks)
    bad = [r for r in rets if r in seen]
    res.inst(f"{len(rets)} mask-returning exits dominated by the intersection when cells is not None", nontrivial=True, ok=not bad)
    for r in bad:
        res.find("CellObject", "mask_by_extent", "a path returns the vertex mask without the orphan intersection although cells exist",
                 f"{fn.module.relpath}:{r.lineno}",
                 "with cells present, some inputs skip the orphan removal: vertices of cells cut by the box are selected without any cell using them")
    return


# --------------------------------------------------------------------------------------------------------------------------
# C13.BBOX — "nothing is returned only when the box misses the object's bounding box": the box handed to box_intersect by an
# override must be the bounding box of the very coordinates the override then selects on, as they are now.
def _norm_attr(K, a):
    """`_x` is read as `x` when x is a property of K (the field behind the property and the property name one source)."""
    if a.startswith("_") and K is not None:
        m = K.lookup(a[1:])
        if m and m[1] == "prop":
            return a[1:]
    return a


def _selected_sources(p, fn, pred):
    """Attributes of the object that the coordinates handed to the shared predicate are computed from (None: no direct call)."""
    sn = fn.self_name or "self"
    calls = [c for c in ast.walk(fn.node) if _is_call_to(p, fn.module, c, pred)]
    if not calls:
        return None
    out = set()
    for c in calls:
        loc = _argument(c, "locations", 0)
        if loc is not None:
            out |= {_norm_attr(fn.cls, a) for a in provenance(fn.node, [loc], sn)}
    return out


def _base_override(p, fn, call, K):
    """The mask_by_extent override that `super().mask_by_extent(..)` / `Base.mask_by_extent(self, ..)` inside `fn` reaches when
    the object is a K, or None."""
    f = call.func
    if not isinstance(f, ast.Attribute) or fn.cls is None:
        return None
    mro = [c for c in K.mro if not isinstance(c, str)]
    if isinstance(f.value, ast.Call) and call_name(f.value) == "super":
        if fn.cls in mro:
            for c in mro[mro.index(fn.cls) + 1:]:
                o = c.own(f.attr)
                if o is not None:
                    return o[1] if o[0] == "method" else None
        return None
    if isinstance(f.value, ast.Name):
        r = p.resolve_name(fn.module, f.value.id)
        if r and r[0] == "class":
            m = r[1].lookup(f.attr)
            return m[2] if m and m[1] == "method" else None
    return None


def _delegations(ctx, fn, K, pred):
    """The base-class overrides the view `fn` (of an override, for receiver K) obtains its mask from."""
    p = ctx.p
    out = []
    for c in ast.walk(fn.node):
        if _mask_source(p, fn, c, pred) is not None and not _is_call_to(p, fn.module, c, pred):
            t = _base_override(p, fn, c, K)
            if t is not None and t not in out:
                out.append(t)
    return out


def _reaching(ctx, ci, fn0, pred):
    """The classes whose mask_by_extent executes the body of fn0 with the object itself: those on which the name resolves to
    fn0, and those whose own override hands over to it through super() / an explicit base-class call (transitively)."""
    key = ("c13-reach", id(fn0))
    if key in ctx.cache:
        return ctx.cache[key]
    p = ctx.p
    out = list(_users(p, ci, "mask_by_extent", fn0))
    ctx.cache[key] = out
    for c2, fn2, _v in list(_overrides(ctx)):
        if fn2 is fn0 or ci not in c2.mro:
            continue
        for K2 in _reaching(ctx, c2, fn2, pred):
            if K2 not in out and fn0 in _delegations(ctx, _view(ctx, fn2, K2), K2, pred):
                out.append(K2)
    return out


def _selected_for(ctx, fn0, K, pred, _depth=0):
    """Attributes the selected coordinates come from when K uses override fn0: read off the predicate call in the override, or
    in the base-class override it obtains its mask from.  None when neither is found."""
    v = _view(ctx, fn0, K)
    got = _selected_sources(ctx.p, v, pred)
    if got is None and _depth < 4:
        for base in _delegations(ctx, v, K, pred):
            sub = _selected_for(ctx, base, K, pred, _depth + 1)
            if sub is not None:
                got = (got or set()) | sub
    return got


def _overrides(ctx):
    """(class, FuncInfo, normalised view) of every mask_by_extent override that has a body."""
    for ci in ctx.p.classes:
        if ci.synthetic or "mask_by_extent" not in ci.methods:
            continue
        fn0 = ci.methods["mask_by_extent"]
        if [s for s in fn0.node.body if not (isinstance(s, ast.Expr) and isinstance(s.value, ast.Constant))]:
            yield ci, fn0, _view(ctx, fn0)


def rule_bbox(ctx) -> RuleResult:
    res = RuleResult(
        "C13.BBOX",
        "C13",
        "for every mask_by_extent override guarded by box_intersect(self.extent, ..): the `extent` getter reached on each class "
        "using the override computes its value from (at least) all the object attributes the selected coordinates come from — a "
        "wider box only turns `nothing` into an all-False mask, a box that leaves a source out can reject qualifying elements; "
        "where the guard is the only test (no predicate call: all-or-nothing overrides) the box is the selection and must come "
        "from exactly those attributes — and, when the value is kept in a field of the object, every member storing one of its "
        "inputs resets that field",
        floor=3,
    )
    from ..cache import CacheAnalysis, deps, readers_of_cache

    p = ctx.p
    pred = _predicate(p)
    bi = p.module("shared/utils.py").functions.get("box_intersect")
    if pred is None or bi is None:
        raise AnalysisError("anchors shared.utils.mask_by_extent / box_intersect not found")
    for ci, fn0, fn, receivers in ((ci, fn0, v, Ks) for ci, fn0, _v in _overrides(ctx)
                                  for v, Ks in _views_by_receiver(ctx, ci, "mask_by_extent", fn0, _reaching(ctx, ci, fn0, pred))):
        sn = fn.self_name or "self"
        guards = [c for c in ast.walk(fn.node) if _is_call_to(p, fn.module, c, bi)
                  and any("extent" in provenance(fn.node, [a], sn) for a in list(c.args) + [k.value for k in c.keywords])]
        if not guards:
            continue
        selected = _selected_sources(p, fn, pred)
        guard_decides = False
        if selected is None and not any(_mask_source(p, fn, c, pred) is not None for c in ast.walk(fn.node)):
            # all-or-nothing selection without the predicate (image corners): what the returned mask is sized by
            vals = [r.value for r in ast.walk(fn.node) if isinstance(r, ast.Return) and r.value is not None and not is_none(r.value)]
            selected = {_norm_attr(ci, a) for a in provenance(fn.node, vals, sn)} or None
            guard_decides = True  # whatever passes the guard is selected as a whole
        getters = {}
        for K in receivers:  # the classes that use the override with this resolution of its hooks
            e = K.lookup("extent")
            if e and e[1] == "prop" and e[2].getter is not None:
                getters.setdefault(id(e[2].getter), (e[2].getter, []))[1].append(K)
        for g0, users in getters.values():
            g = ctx.view(g0)
            gsn = g.self_name or "self"
            rets = [r.value for r in ast.walk(g.node) if isinstance(r, ast.Return) and r.value is not None and not is_none(r.value)]
            if not rets:
                continue  # declaration only
            K = users[0]
            got = {_norm_attr(K, a) for a in provenance(g.node, rets, gsn)} - {"extent"}
            where = f"{g.module.relpath}:{g.node.lineno}"
            ok = selected is None or (got == selected if guard_decides else selected <= got)
            res.inst(f"{ci.name}.mask_by_extent guard <- {g.qualname}: bounding box of {sorted(got)}, selection on "
                     f"{sorted(selected) if selected is not None else 'a base class'}", nontrivial=True, ok=ok)
            if selected is not None and selected - got:
                res.find(g.cls.name, "extent", f"bounding box does not cover the coordinates {ci.name}.mask_by_extent selects on", where,
                         f"the guard of {ci.name}.mask_by_extent tests a box computed from {sorted(got)} while the elements are selected on "
                         f"{sorted(selected)}: elements inside the requested box can be rejected wholesale")
            if selected is not None and guard_decides and got - selected:
                res.find(g.cls.name, "extent", f"bounding box wider than what {ci.name}.mask_by_extent selects as a whole", where,
                         f"{ci.name}.mask_by_extent applies no per-element test: every box that touches the bounding box selects the whole object, "
                         f"and the box also spans {sorted(got - selected)}")
            # a value kept on the object must be dropped whenever its inputs change
            for F in sorted(self_stores(g.node, gsn)):
                for K in users:
                    d = deps(K, g0, F)
                    if not d:
                        continue
                    ana = CacheAnalysis(K, F, d, readers_of_cache(K, "extent", F))
                    seen = set()
                    for c in K.mro:
                        if isinstance(c, str):
                            continue
                        members = list(c.methods.values())
                        for pr in c.props.values():
                            members += [x for x in (pr.getter, pr.setter, pr.deleter) if x is not None and x.cls is c]
                        for mfn in members:
                            key = (mfn.name, mfn.kind)
                            if key in seen or mfn.name == "__init__" or mfn is g0:
                                continue
                            seen.add(key)
                            bad, _fresh, touched = ana.summary(mfn)
                            if not touched:
                                continue
                            res.inst(f"{K.name}: {mfn.qualname} stores an input of the kept bounding box -> must reset it", nontrivial=True, ok=not bad)
                            for _dep, line in sorted(bad):
                                res.find(mfn.cls.name, mfn.prop or mfn.name, "stores an input of the kept bounding box without resetting it",
                                         f"{mfn.module.relpath}:{line}",
                                         f"{g.qualname} keeps its value on the object; {mfn.qualname} changes what it was computed from and leaves it: "
                                         "the guard of mask_by_extent then tests the box of the old position")
    return res


# --------------------------------------------------------------------------------------------------------------------------
# C13.AGREE — "copying by extent yields exactly that selection": the mask an override computes has one entry per row of the
# coordinates it selected on; copy(mask=...) must sub-sample those same coordinates with it.
def _masked_attributes(ctx, K, cp):
    """Attributes of the object that the `copy` reached on K indexes with its mask (following super().copy(mask=..) upwards)."""
    out = set()
    mro = [c for c in K.mro if not isinstance(c, str)]
    seen = set()
    while cp is not None and id(cp) not in seen:
        seen.add(id(cp))
        v = ctx.view(cp)
        params = v.params + [a.arg for a in v.node.args.kwonlyargs]
        if "mask" not in params:
            break
        sn = v.self_name or "self"
        t = taint(v.node, ["mask"])
        for x in ast.walk(v.node):
            if isinstance(x, ast.Subscript) and "mask" in taint_of(x.slice, t):
                a = self_attr(x.value, sn)
                if a is not None:
                    out.add(_norm_attr(K, a))
        nxt = None
        for c in ast.walk(v.node):
            if isinstance(c, ast.Call) and isinstance(c.func, ast.Attribute) and c.func.attr == "copy" and isinstance(c.func.value, ast.Call) \
                    and call_name(c.func.value) == "super":
                m = _argument(c, "mask", None, v.node, None)
                if m is not None and "mask" in taint_of(m, t) and cp.cls in mro:
                    for base in mro[mro.index(cp.cls) + 1:]:
                        o = base.own("copy")
                        if o is not None and o[0] == "method":
                            nxt = o[1]
                            break
        cp = nxt
    return out


def rule_agree(ctx) -> RuleResult:
    res = RuleResult(
        "C13.AGREE",
        "C13",
        "on every class whose copy_from_extent hands the result of self.mask_by_extent to self.copy(mask=..): the coordinates "
        "that copy sub-samples with the mask are the coordinates the mask was computed on (one mask entry per row)",
        floor=2,
    )
    p = ctx.p
    pred = _predicate(p)
    owners = {id(fn0): ci for ci, fn0, _v in _overrides(ctx)}

    def selected_on(K, mbe):
        return _selected_for(ctx, mbe, K, pred) if id(mbe) in owners else None

    # what the package selects on at all (vertices, centroids, ...)
    locations = set()
    for ci, fn0, _v in _overrides(ctx):
        for K in _users(p, ci, "mask_by_extent", fn0):
            locations |= selected_on(K, fn0) or set()
    done = set()
    for K in p.classes:
        if K.synthetic:
            continue
        got = [K.lookup(n) for n in ("copy_from_extent", "mask_by_extent", "copy")]
        if not all(m and m[1] == "method" for m in got):
            continue
        cfe, mbe, cp = (m[2] for m in got)
        selected = selected_on(K, mbe)
        key = (id(cfe), id(mbe), id(cp), frozenset(selected or ()))
        if key in done or not selected:
            continue
        done.add(key)
        v = _view(ctx, cfe)
        sn = v.self_name or "self"

        def selecting(x, sn=sn):
            return isinstance(x, ast.Call) and isinstance(x.func, ast.Attribute) and x.func.attr == "mask_by_extent" \
                and isinstance(x.func.value, ast.Name) and x.func.value.id == sn

        derived = names_from(v.node, selecting)
        defs = local_defs(v.node)
        handed = False
        for c in ast.walk(v.node):
            if isinstance(c, ast.Call) and isinstance(c.func, ast.Attribute) and c.func.attr == "copy" and isinstance(c.func.value, ast.Name) and c.func.value.id == sn:
                m = _argument(c, "mask", None, v.node, defs)
                if m is not None and any(selecting(x) or (isinstance(x, ast.Name) and x.id in derived) for x in ast.walk(m)):
                    handed = True
        if not handed:
            continue
        masked = _masked_attributes(ctx, K, cp) & locations
        ok = masked <= selected  # every coordinate array indexed with the mask has one row per mask entry
        res.inst(f"{K.name}: mask over {sorted(selected)} ({mbe.qualname}) applied to {sorted(masked) or 'no coordinates'} ({cp.qualname})", nontrivial=True, ok=ok)
        if not ok:
            res.find(mbe.cls.name, "mask_by_extent", "selection mask is computed on other coordinates than copy(mask=...) sub-samples",
                     f"{mbe.module.relpath}:{mbe.node.lineno}",
                     f"{cfe.qualname} hands the mask of {mbe.qualname} (one entry per row of {sorted(selected)}) to {cp.qualname}, which indexes "
                     f"{sorted(masked)} with it: the copy fails or ignores the selection instead of yielding exactly the selected elements")
    return res


# --------------------------------------------------------------------------------------------------------------------------
# C13.SPAN — "for 2-D grids the result is the smallest sub-grid covering the selected cells": the number of columns / rows of
# the sub-grid is the span from the first to the last selected one, not how many of them hold a selected cell.
def _count_entries(fn_node):
    """(key, value expression) of the `<x>_count` entries a function puts in a dict display / passes as keyword arguments."""
    for n in ast.walk(fn_node):
        if isinstance(n, ast.Dict):
            for k, v in zip(n.keys, n.values):
                if isinstance(k, ast.Constant) and isinstance(k.value, str) and k.value.endswith("_count"):
                    yield k.value, v
        elif isinstance(n, ast.Call):
            for k in n.keywords:
                if k.arg and k.arg.endswith("_count"):
                    yield k.arg, k.value
        elif isinstance(n, ast.Assign):  # options["u_count"] = ...
            for t in n.targets:
                if isinstance(t, ast.Subscript) and isinstance(t.slice, ast.Constant) and isinstance(t.slice.value, str) and t.slice.value.endswith("_count"):
                    yield t.slice.value, n.value


def rule_span(ctx) -> RuleResult:
    res = RuleResult(
        "C13.SPAN",
        "C13",
        "in every copy_from_extent that sizes a sub-grid (`<axis>_count` of the copy): a count obtained by counting flags is not "
        "taken over the bare projection np.any(<selection>, axis=..) — columns / rows lying between selected ones belong to the "
        "covering sub-grid although they hold no selected cell",
        floor=2,
    )
    p = ctx.p
    for K in p.classes:
        fn0 = K.methods.get("copy_from_extent") if not K.synthetic else None
        if fn0 is None:
            continue
        fn = _view(ctx, fn0)
        node = fn.node
        defs = local_defs(node)
        binds: dict = {}
        for n in ast.walk(node):
            if isinstance(n, (ast.Assign, ast.AnnAssign, ast.AugAssign)) and getattr(n, "value", None) is not None:
                for t in (n.targets if isinstance(n, ast.Assign) else [n.target]):
                    b = t
                    while isinstance(b, ast.Subscript):
                        b = b.value
                    if isinstance(b, ast.Name):
                        binds.setdefault(b.id, []).append(None if (b is not t or isinstance(n, ast.AugAssign)) else n.value)
                    elif isinstance(t, (ast.Tuple, ast.List)) and all(isinstance(e, ast.Name) for e in t.elts):
                        # a, b = (f(x) for x in (xa, xb)) / a, b = f(xa), f(xb): each name gets its own expression
                        v, parts = n.value, None
                        if isinstance(v, (ast.Tuple, ast.List)) and len(v.elts) == len(t.elts):
                            parts = list(v.elts)
                        elif isinstance(v, (ast.GeneratorExp, ast.ListComp)) and len(v.generators) == 1 and not v.generators[0].ifs \
                                and isinstance(v.generators[0].target, ast.Name) and isinstance(v.generators[0].iter, (ast.Tuple, ast.List)) \
                                and len(v.generators[0].iter.elts) == len(t.elts):
                            var = v.generators[0].target.id

                            def put(item, var=var, elt=v.elt):
                                import copy as _copy

                                class S(ast.NodeTransformer):
                                    def visit_Name(self, x):
                                        return _copy.deepcopy(item) if x.id == var and isinstance(x.ctx, ast.Load) else x

                                return S().visit(_copy.deepcopy(elt))

                            parts = [put(item) for item in v.generators[0].iter.elts]
                        for e, part in zip(t.elts, parts or [None] * len(t.elts)):
                            binds.setdefault(e.id, []).append(part)

        def bare_projection(e, depth=0):
            """e is np.any(<x>, axis=..) / <x>.any(axis=..) itself, possibly through plain local names"""
            if depth > 6:
                return False
            if isinstance(e, ast.Name):
                vals = binds.get(e.id)
                return bool(vals) and all(v is not None and bare_projection(v, depth + 1) for v in vals)
            if isinstance(e, ast.Attribute):
                # a field of a record built in the function: Record(columns=np.any(..), ..).columns
                rec = ex(e.value, node, defs)
                if isinstance(rec, ast.Call):
                    return any(k.arg == e.attr and bare_projection(k.value, depth + 1) for k in rec.keywords)
                return False
            if not isinstance(e, ast.Call):
                return False
            red = is_reducer(e, {"any"})
            positional = len(e.args) - (1 if e.args and red and red[1] is e.args[0] else 0)  # arguments besides the reduced array
            return bool(red) and (any(k.arg == "axis" for k in e.keywords) or positional >= 1)

        def population(e):
            """e counts the flags of a bare projection (how many columns / rows hold a selected cell)"""
            cnt = is_reducer(e, COUNTERS) if isinstance(e, ast.Call) else None
            return bool(cnt) and bare_projection(cnt[1])

        # locals whose value is built from such a count: `run[first : first + count] = True`, `stop = first + count`, ...
        sized: set = set()
        grown = True
        while grown:
            grown = False
            for n in ast.walk(node):
                if not (isinstance(n, (ast.Assign, ast.AugAssign, ast.AnnAssign)) and getattr(n, "value", None) is not None):
                    continue
                for t in (n.targets if isinstance(n, ast.Assign) else [n.target]):
                    b, parts = t, [n.value]
                    while isinstance(b, ast.Subscript):
                        parts.append(b.slice)  # where a store lands is part of what the array becomes
                        b = b.value
                    if isinstance(b, ast.Name) and b.id not in sized and any(
                            population(x) or (isinstance(x, ast.Name) and x.id in sized) for part in parts for x in ast.walk(part)):
                        sized.add(b.id)
                        grown = True

        seen = set()
        for key, v in _count_entries(node):
            x = ex(v, node, defs)
            cnt = is_reducer(x, COUNTERS) if isinstance(x, ast.Call) else None
            if not cnt:
                if population(x) or any(isinstance(y, ast.Name) and y.id in sized for y in ast.walk(x)) or any(population(y) for y in ast.walk(x)):
                    cnt = (None, x)
                else:
                    continue
            bad = bare_projection(cnt[1]) or any(population(y) or (isinstance(y, ast.Name) and y.id in sized) for y in ast.walk(cnt[1]))
            if (key, bad) in seen:
                continue
            seen.add((key, bad))
            res.inst(f"{fn.qualname}: {key} = number of flagged columns / rows" + (" of the bare projection" if bad else " after closing the gaps"),
                     nontrivial=True, ok=not bad)
            if bad:
                res.find(K.name, "copy_from_extent", f"{key} counts the columns / rows that hold a selected cell, not the span that covers them",
                         f"{fn.module.relpath}:{v.lineno}",
                         "when the selected cells leave a column / row between them empty (thin box across a rotated grid) the sub-grid is smaller "
                         "than the covering one and the kept values sit at the coordinates of other cells")
    return res


# --------------------------------------------------------------------------------------------------------------------------
# C13.COORDS — "selected precisely when their coordinates lie inside the closed box": what is handed to the shared predicate is
# the object's coordinates themselves.  Every consumer of a selection (the bounding-box guard, the data masks of the children,
# the clip of a 2-D grid) reads the same attribute; a copy that was rounded, shifted, scaled or re-ordered on the way to the
# predicate decides boundary elements differently from them, and no longer row by row.
VALUE_CHANGING = {"round", "round_", "around", "rint", "floor", "ceil", "trunc", "fix", "astype", "clip", "abs", "absolute", "fabs",
                  "nan_to_num", "float16", "float32", "int32", "int64", "int_", "sign", "mod", "remainder", "floor_divide", "divide",
                  "true_divide", "multiply", "add", "subtract", "power", "sort", "sorted", "unique", "flip", "flipud", "roll", "permutation"}
ASSEMBLING = {"c_", "r_"}  # np.c_[[x, y, z]]: the index expression holds the values
SHAPE_ONLY = {"reshape", "transpose", "swapaxes", "repeat", "tile", "squeeze", "expand_dims"}  # further arguments are shapes / axes


def _value_changes(fn_node, root):
    """Nodes on the value flow into `root` (followed back through local bindings) that change coordinate values: arithmetic,
    rounding / casting / clipping, re-ordering.  Index expressions, shapes and axes are not values."""
    from ._c13_sem import _bindings

    binds: dict = {}
    for names, src in _bindings(fn_node):
        for nm in names:
            binds.setdefault(nm, []).append(src)
    out, seen = [], set()

    def visit(e):
        if isinstance(e, ast.BinOp):
            if isinstance(e.op, (ast.Add, ast.Sub, ast.Mult, ast.Div, ast.FloorDiv, ast.Mod, ast.Pow, ast.MatMult)):
                out.append(e)
            visit(e.left)
            visit(e.right)
        elif isinstance(e, ast.UnaryOp):
            if isinstance(e.op, ast.USub):
                out.append(e)
            visit(e.operand)
        elif isinstance(e, ast.Subscript):
            visit(e.value)
            if isinstance(e.value, ast.Attribute) and e.value.attr in ASSEMBLING:
                visit(e.slice)
        elif isinstance(e, ast.Call):
            nm = call_name(e)
            if nm in VALUE_CHANGING:
                out.append(e)
            if isinstance(e.func, ast.Attribute) and not (isinstance(e.func.value, ast.Name) and e.func.value.id in ("np", "numpy")):
                visit(e.func.value)  # method of the array: <coordinates>.reshape(..)
                if nm in SHAPE_ONLY:
                    return
            for a in (e.args[:1] if nm in SHAPE_ONLY else e.args):
                visit(a)
        elif isinstance(e, (ast.List, ast.Tuple)):
            for x in e.elts:
                visit(x)
        elif isinstance(e, ast.Attribute):
            visit(e.value)
        elif isinstance(e, ast.Starred):
            visit(e.value)
        elif isinstance(e, ast.IfExp):
            visit(e.body)
            visit(e.orelse)
        elif isinstance(e, ast.Name) and e.id in binds and e.id not in seen:
            seen.add(e.id)
            for v in binds[e.id]:
                visit(v)

    visit(root)
    return out


def rule_coords(ctx) -> RuleResult:
    res = RuleResult(
        "C13.COORDS",
        "C13",
        "in every function that takes `extent` and `inverse`, the coordinates handed to the shared predicate reach it unchanged from "
        "where they are read: assembled, transposed or re-shaped, but not rounded, cast, clipped, shifted, scaled or re-ordered",
        floor=5,
    )
    p = ctx.p
    pred = _predicate(p)
    if pred is None:
        raise AnalysisError("anchor shared.utils.mask_by_extent not found")
    for fn0 in p.all_functions():
        params = fn0.params + [a.arg for a in fn0.node.args.kwonlyargs]
        if "inverse" not in params or "extent" not in params:
            continue
        if fn0.cls is not None and fn0.name == "mask_by_extent":
            views = [v for v, _Ks in _views_by_receiver(ctx, fn0.cls, fn0.name, fn0)]  # hooks resolved on the classes that use it
        else:
            views = [_view(ctx, fn0)]
        seen = set()
        for fn in views:
            for c in ast.walk(fn.node):
                if not _is_call_to(p, fn.module, c, pred):
                    continue
                loc = _argument(c, "locations", 0)
                if loc is None:
                    continue
                changes = _value_changes(fn.node, loc)
                site = (unparse(c), bool(changes))
                if site in seen:
                    continue
                seen.add(site)
                res.inst(f"{fn.qualname}:{c.lineno} coordinates handed to the predicate" + (" pass through a value-changing operation" if changes else " are the ones read"),
                         nontrivial=True, ok=not changes)
                if changes:
                    res.find(fn.cls.name if fn.cls else fn.module.short, fn.name, "coordinates handed to the predicate are a transform of the object's coordinates",
                             f"{fn.module.relpath}:{changes[0].lineno}",
                             "the selection is decided on rounded / shifted / re-ordered coordinates while the bounding-box guard, the data masks and the "
                             "2-D clip read the attribute itself: elements on a face of the box are selected by one and rejected by the other")
    return res


# --------------------------------------------------------------------------------------------------------------------------
# C13.ONCE — "copying by extent yields exactly that selection ... with values outside the box blanked": the cells blanked in
# the copy must be decided by the evaluation of the predicate that selected them in the SOURCE.  A second evaluation on the
# copy (whose coordinates are recomputed from a shifted origin) is a different floating-point computation: it may disagree
# on cells lying on a face of the box, so a selected cell comes back blanked.
def _blank_stores(fn_node):
    """(statement, mask expression) for `V[<mask>] = <no-data>` and `V = np.where(<mask>, .., <no-data>)`."""
    def nodata(e):
        return any((isinstance(x, ast.Attribute) and x.attr in ("nan_value", "nan", "ndv", "NaN")) for x in ast.walk(e))

    for st in ast.walk(fn_node):
        if isinstance(st, ast.Assign):
            for t in st.targets:
                if isinstance(t, ast.Subscript) and nodata(st.value) and not isinstance(t.slice, (ast.Constant, ast.Slice)):
                    yield st, t.slice
            v = st.value
            if isinstance(v, ast.Call) and call_name(v) == "where" and len(v.args) == 3 and (nodata(v.args[1]) or nodata(v.args[2])):
                yield st, v.args[0]


def rule_once(ctx) -> RuleResult:
    res = RuleResult(
        "C13.ONCE",
        "C13",
        "in every copy_from_extent override that blanks values of the copy, the blanking mask is computed (flow-sensitively) "
        "from evaluations of the predicate on the source object only: no selection evaluated on the copy or its children decides "
        "which copied values are blanked",
        floor=1,
    )
    from ..cfg import CFG, forward

    p = ctx.p
    pred = _predicate(p)
    for cls in p.classes:
        fn0 = cls.methods.get("copy_from_extent")
        if fn0 is None:
            continue
        fn = _view(ctx, fn0)
        blanks = list(_blank_stores(fn.node))
        if not blanks:
            continue
        self_name = fn.self_name
        sources = {}  # id(call) -> (call, on_source: bool, text)

        def selection(c):
            """None, or True / False: `c` evaluates the predicate on the source object / on something else."""
            if not isinstance(c, ast.Call):
                return None
            if _is_call_to(p, fn.module, c, pred):
                loc = _argument(c, "locations", 0)
                if loc is None:
                    return False
                # the source object's own coordinates, possibly wrapped (np.asarray(self.centroids)): nothing else is read
                names = {x.id for x in ast.walk(loc) if isinstance(x, ast.Name)}
                return _self_rooted(loc, self_name) or (self_name in names and names <= {self_name, "np", "numpy"})
            f = c.func
            if isinstance(f, ast.Attribute) and f.attr == "mask_by_extent":
                if isinstance(f.value, ast.Call) and call_name(f.value) == "super":
                    return True
                if isinstance(f.value, ast.Name) and f.value.id == self_name:
                    return True
                if isinstance(f.value, ast.Name) and c.args and isinstance(c.args[0], ast.Name) and c.args[0].id == self_name:
                    r = p.resolve_name(fn.module, f.value.id)
                    if r and r[0] == "class":
                        return True
                return False
            return None

        def taint_of(e, state):
            out = set()
            for x in ast.walk(e):
                if isinstance(x, ast.Name) and x.id in state:
                    out |= state[x.id]
                s = selection(x)
                if s is not None:
                    sources[id(x)] = (x, s)
                    out.add(id(x))
            return frozenset(out)

        def assign(state, target, t, strong=True):
            state = dict(state)
            base = target
            weak = not strong
            while isinstance(base, (ast.Subscript, ast.Starred, ast.Attribute)):
                weak = weak or isinstance(base, (ast.Subscript, ast.Attribute))
                base = base.value
            names = [base] if isinstance(base, ast.Name) else [x for x in ast.walk(base) if isinstance(x, ast.Name)]
            for nm in names:
                state[nm.id] = (state.get(nm.id, frozenset()) | t) if weak else t
            return state

        def transfer(n, box):
            st = box[0]  # boxed: forward() reads a bare dict as a per-edge table
            a = n.stmt if n.kind == "stmt" else None
            if n.kind == "stmt" and isinstance(a, ast.Assign):
                t = taint_of(a.value, st)
                for tg in a.targets:
                    st = assign(st, tg, t)
            elif n.kind == "stmt" and isinstance(a, ast.AnnAssign) and a.value is not None:
                st = assign(st, a.target, taint_of(a.value, st))
            elif n.kind == "stmt" and isinstance(a, ast.AugAssign):
                st = assign(st, a.target, taint_of(a.value, st), strong=False)
            elif n.kind == "fornext":
                st = assign(st, n.ast, taint_of(n.stmt.iter, st))
            elif n.kind == "with":
                for it in n.ast.items:
                    if it.optional_vars is not None:
                        st = assign(st, it.optional_vars, taint_of(it.context_expr, st))
            return (st,)

        def join(a, b):
            if a == b:
                return a
            a, b = a[0], b[0]
            return ({k: a.get(k, frozenset()) | b.get(k, frozenset()) for k in set(a) | set(b)},)

        g = CFG(fn.node)
        IN = forward(g, ({},), transfer, join)
        at = {id(n.stmt): n for n in g.nodes if n.kind == "stmt"}
        for st, mask in blanks:
            node = at.get(id(st))
            if node is None or node not in IN:
                continue  # unreachable / nested definition
            t = taint_of(mask, IN[node][0])
            evals = [sources[i] for i in t]
            foreign = [c for c, on_src in evals if not on_src]
            ok = bool(evals) and not foreign
            res.inst(f"{cls.name}.copy_from_extent:{st.lineno} values blanked where ~({unparse(mask)[:40]}): decided by "
                     f"{sorted(unparse(c.func)[:40] for c, _ in evals) or 'no evaluation of the predicate'}", nontrivial=True, ok=ok)
            if foreign:
                res.find(cls.name, "copy_from_extent", "copied values blanked by a selection evaluated on the copy", f"{fn.module.relpath}:{st.lineno}",
                         f"the mask comes from {unparse(foreign[0])[:60]}, a second evaluation of the predicate on recomputed coordinates: "
                         "cells the source selection kept (on a face of the box) can be blanked in the copy")
            elif not evals:
                res.find(cls.name, "copy_from_extent", "copied values blanked by a mask that is not a selection of the source", f"{fn.module.relpath}:{st.lineno}",
                         "the blanked cells are not the ones the predicate rejected on the source object")
    return res


RULES = [rule_deleg, rule_closed, rule_fwd, rule_orphan, rule_once, rule_bbox, rule_agree, rule_span, rule_coords]
