"""C13 — spatial selection: delegation to the single predicate, closed comparisons."""

from __future__ import annotations

import ast

from ..model import AnalysisError, unparse
from ..report import RuleResult

# no per-element selection: the four corners are kept or dropped together (not among the object kinds C13 enumerates)
WHOLE_OBJECT = {"GeoImage": "image corners are selected all-or-nothing; `inverse` has no per-element meaning"}


def _predicate(p):
    return p.module("shared/utils.py").functions.get("mask_by_extent")


def rule_deleg(ctx) -> RuleResult:
    res = RuleResult(
        "C13.DELEG",
        "C13",
        "every mask_by_extent override that returns a mask obtains it from shared.utils.mask_by_extent and forwards "
        "inverse=inverse; None is returned only behind the bounding-box test, when no element qualifies, when the "
        "geometry is missing, or by classes without geometry",
        floor=9,
    )
    p = ctx.p
    pred = _predicate(p)
    if pred is None:
        raise AnalysisError("anchor shared.utils.mask_by_extent not found")
    for ci in p.classes:
        if ci.synthetic or "mask_by_extent" not in ci.methods:
            continue
        fn = ci.methods["mask_by_extent"]
        body = [s for s in fn.node.body if not (isinstance(s, ast.Expr) and isinstance(s.value, ast.Constant))]
        ident = f"{ci.name}.mask_by_extent"
        if not body:
            res.inst(f"{ident}: declaration only (abstract / documented no-op)")
            continue
        inv_name = fn.params[2] if len(fn.params) > 2 else "inverse"
        # names bound (transitively) from predicate calls
        good_calls, bad_calls = [], []
        for n in ast.walk(fn.node):
            if isinstance(n, ast.Call) and isinstance(n.func, ast.Name) and n.func.id == "mask_by_extent":
                r = p.resolve_name(fn.module, "mask_by_extent")
                if not (r and r[0] == "func" and r[1] is pred):
                    continue
                kw = {k.arg: unparse(k.value) for k in n.keywords}
                passed = kw.get("inverse") == inv_name or (len(n.args) >= 3 and unparse(n.args[2]) == inv_name)
                (good_calls if passed else bad_calls).append(n)
        for c in bad_calls:
            res.find(ci.name, "mask_by_extent", f"predicate called without inverse={inv_name}: {unparse(c)[:60]}",
                     f"{fn.module.relpath}:{c.lineno}",
                     "the override drops the `inverse` option on its way to the shared predicate: inverse selections return the non-inverted mask")
        derived = set()
        changed = True
        while changed:
            changed = False
            for n in ast.walk(fn.node):
                if isinstance(n, (ast.Assign, ast.AugAssign)):
                    tg = n.targets if isinstance(n, ast.Assign) else [n.target]
                    src_ok = any(c in list(ast.walk(n.value)) for c in good_calls + bad_calls) or any(
                        isinstance(x, ast.Name) and x.id in derived for x in ast.walk(n.value)
                    )
                    for t in tg:
                        b = t
                        while isinstance(b, ast.Subscript):
                            b = b.value
                        if isinstance(b, ast.Name) and src_ok and b.id not in derived:
                            derived.add(b.id)
                            changed = True
        rets = [n for n in ast.walk(fn.node) if isinstance(n, ast.Return)]
        ok_all = True
        for r in rets:
            v = r.value
            if v is None or (isinstance(v, ast.Constant) and v.value is None):
                ok = _none_allowed(fn, r)
                what = "return None"
                if not ok:
                    res.find(ci.name, "mask_by_extent", f"return None outside the accepted contexts (line context: {_ctx_test(fn, r)})",
                             f"{fn.module.relpath}:{r.lineno}",
                             "the override returns nothing although the box may contain elements of the object")
            else:
                from_pred = any(c in list(ast.walk(v)) for c in good_calls + bad_calls) or any(
                    isinstance(x, ast.Name) and x.id in derived for x in ast.walk(v)
                )
                ok = from_pred or ci.name in WHOLE_OBJECT
                what = f"return {unparse(v)[:40]}"
                if not ok:
                    res.find(ci.name, "mask_by_extent", f"returned mask does not come from the shared predicate: {unparse(v)[:50]}",
                             f"{fn.module.relpath}:{r.lineno}",
                             "the override computes its own selection instead of delegating to shared.utils.mask_by_extent")
            ok_all = ok_all and ok
            res.inst(f"{ident}:{r.lineno} {what}", nontrivial=True, ok=ok)
        if ci.name in WHOLE_OBJECT:
            res.notes.append(f"{ident}: {WHOLE_OBJECT[ci.name]}")
    return res


def _enclosing_ifs(fn, node):
    out = []

    def rec(stmts, stack):
        for s in stmts:
            if s is node:
                out.extend(stack)
                return True
            for fld, lab in (("body", True), ("orelse", False)):
                blk = getattr(s, fld, None)
                if isinstance(blk, list) and blk and isinstance(s, (ast.If, ast.For, ast.While, ast.With, ast.Try)):
                    if rec(blk, stack + ([(s, lab)] if isinstance(s, ast.If) else [])):
                        return True
            if isinstance(s, ast.Try):
                for h in s.handlers:
                    if rec(h.body, stack):
                        return True
        return False

    rec(fn.node.body, [])
    return out


def _ctx_test(fn, r):
    ifs = _enclosing_ifs(fn, r)
    return unparse(ifs[-1][0].test)[:50] if ifs else "top level"


def _none_allowed(fn, r) -> bool:
    ifs = _enclosing_ifs(fn, r)
    if ifs:
        test, branch = ifs[-1]
        t = unparse(test.test)
        if not branch:
            return False
        if "box_intersect" in t or "extent is None" in t:
            return True
        if ("np.any(" in t or ".any()" in t) and (t.startswith("~") or t.startswith("not ")):
            return True
        return False
    # top level: whole-function `return None` (no geometry), or fall-through after `if <geometry> is not None: return ...`
    body = [s for s in fn.node.body if not (isinstance(s, ast.Expr) and isinstance(s.value, ast.Constant))]
    if body == [r]:
        return True
    idx = body.index(r) if r in body else -1
    if idx > 0 and isinstance(body[idx - 1], ast.If):
        prev = body[idx - 1]
        t = unparse(prev.test)
        ends_return = isinstance(prev.body[-1], ast.Return)
        if ends_return and ("is not None" in t or "is DataAssociationEnum" in t or "association" in t):
            return True
    return False


def rule_closed(ctx) -> RuleResult:
    res = RuleResult(
        "C13.CLOSED",
        "C13",
        "in shared.utils.mask_by_extent every comparison between coordinates and limits is non-strict and the inverse "
        "branch returns the complement; box_intersect rejects only strictly disjoint boxes",
        floor=4,
    )
    p = ctx.p
    pred = _predicate(p)
    loops = [n for n in ast.walk(pred.node) if isinstance(n, ast.For)]
    if not loops:
        raise AnalysisError("shared.utils.mask_by_extent: per-axis loop not found")
    cmps = [c for lp in loops for c in ast.walk(lp) if isinstance(c, ast.Compare)]
    calls = [c for lp in loops for c in ast.walk(lp) if isinstance(c, ast.Call) and isinstance(c.func, ast.Attribute)
             and c.func.attr in ("less", "greater", "less_equal", "greater_equal")]
    if not cmps and not calls:
        raise AnalysisError("shared.utils.mask_by_extent: no coordinate comparison recognised")
    for c in cmps:
        for op in c.ops:
            if isinstance(op, (ast.LtE, ast.GtE)):
                res.inst(f"mask_by_extent:{c.lineno} {unparse(c)[:40]} non-strict", ok=True)
            elif isinstance(op, (ast.Lt, ast.Gt)):
                res.inst(f"mask_by_extent:{c.lineno} {unparse(c)[:40]} STRICT", ok=False)
                res.find("utils", "mask_by_extent", f"strict comparison {unparse(c)[:40]}", f"{pred.module.relpath}:{c.lineno}",
                         "points lying exactly on a face of the box are excluded: the box is not closed")
            else:
                raise AnalysisError(f"mask_by_extent:{c.lineno}: unrecognised comparison {unparse(c)}")
    for c in calls:
        ok = c.func.attr in ("less_equal", "greater_equal")
        res.inst(f"mask_by_extent:{c.lineno} np.{c.func.attr}", ok=ok)
        if not ok:
            res.find("utils", "mask_by_extent", f"strict comparison np.{c.func.attr}", f"{pred.module.relpath}:{c.lineno}",
                     "points lying exactly on a face of the box are excluded")
    # inverse
    inv = pred.params[2] if len(pred.params) > 2 else "inverse"
    inv_ifs = [n for n in ast.walk(pred.node) if isinstance(n, ast.If) and unparse(n.test) == inv]
    ok = any(isinstance(s, ast.Return) and isinstance(s.value, ast.UnaryOp) and isinstance(s.value.op, ast.Invert) for i in inv_ifs for s in i.body)
    where_np = any(isinstance(n, ast.Call) and unparse(n.func) in ("np.logical_not", "np.invert") for n in ast.walk(pred.node))
    res.inst("mask_by_extent: `if inverse: return ~indices`", ok=ok or where_np)
    if not (ok or where_np):
        res.find("utils", "mask_by_extent", "inverse branch does not return the complement", pred.where,
                 "the inverse option no longer applies the complementary test")
    # box_intersect
    bi = p.module("shared/utils.py").functions.get("box_intersect")
    if bi is None:
        raise AnalysisError("anchor shared.utils.box_intersect not found")
    rej = [n for n in ast.walk(bi.node) if isinstance(n, ast.If) and any(isinstance(s, ast.Return) and unparse(s.value) == "False" for s in n.body)]
    if not rej:
        raise AnalysisError("shared.utils.box_intersect: rejecting test not found")
    for r in rej:
        t = r.test
        if isinstance(t, ast.Compare) and len(t.ops) == 1 and isinstance(t.ops[0], (ast.Gt, ast.Lt)):
            res.inst(f"box_intersect:{r.lineno} rejects on strict {unparse(t)}", ok=True)
        elif isinstance(t, ast.Compare) and len(t.ops) == 1 and isinstance(t.ops[0], (ast.GtE, ast.LtE)):
            res.inst(f"box_intersect:{r.lineno} rejects on non-strict {unparse(t)}", ok=False)
            res.find("utils", "box_intersect", f"rejects touching boxes: {unparse(t)}", f"{bi.module.relpath}:{r.lineno}",
                     "a box that only touches the object's bounding box is treated as disjoint: elements on the shared face are lost")
        else:
            raise AnalysisError(f"box_intersect:{r.lineno}: unrecognised rejecting test {unparse(t)}")
    return res


def rule_fwd(ctx) -> RuleResult:
    res = RuleResult(
        "C13.FWD",
        "C13",
        "inside every function that takes `extent` and `inverse`, each call to a mask_by_extent / copy_from_extent "
        "(method or the shared predicate) passes inverse=<the caller's inverse> and the caller's extent; every "
        "copy_from_extent that computes a mask hands exactly that mask to copy(mask=...)",
        floor=12,
    )
    p = ctx.p
    for fn in p.all_functions():
        params = fn.params + [a.arg for a in fn.node.args.kwonlyargs]
        if "inverse" not in params or "extent" not in params:
            continue
        for c in ast.walk(fn.node):
            if not isinstance(c, ast.Call):
                continue
            nm = c.func.attr if isinstance(c.func, ast.Attribute) else getattr(c.func, "id", None)
            if nm not in ("mask_by_extent", "copy_from_extent"):
                continue
            kw = {k.arg: unparse(k.value) for k in c.keywords}
            # positional layout: function form (locations, extent, inverse); method forms (extent, ..., inverse=...)
            pos = [unparse(a) for a in c.args]
            is_pred = isinstance(c.func, ast.Name)
            explicit_self = isinstance(c.func, ast.Attribute) and isinstance(c.func.value, ast.Name) and c.func.value.id[:1].isupper()
            ext_ok = kw.get("extent") == "extent" or "extent" in pos
            inv_ok = kw.get("inverse") == "inverse" or (is_pred and len(pos) >= 3 and pos[2] == "inverse")
            ok = ext_ok and inv_ok
            res.inst(f"{fn.qualname}:{c.lineno} {unparse(c.func)}(...)", nontrivial=True, ok=ok)
            if not ok:
                what = "inverse" if not inv_ok else "extent"
                res.find(fn.cls.name if fn.cls else fn.module.short, fn.name, f"call to {unparse(c.func)} does not forward `{what}`",
                         f"{fn.module.relpath}:{c.lineno}",
                         f"the caller's `{what}` is dropped on the way to {nm}: the nested selection is made with the default instead of the requested one")
        if fn.name == "copy_from_extent":
            # mask flow: name bound from a *.mask_by_extent(...) call must be the value of copy(mask=...)
            masks = {}
            for n in ast.walk(fn.node):
                if isinstance(n, ast.Assign) and len(n.targets) == 1 and isinstance(n.targets[0], ast.Name):
                    if any(isinstance(x, ast.Call) and (getattr(x.func, "attr", None) or getattr(x.func, "id", None)) == "mask_by_extent" for x in ast.walk(n.value)):
                        masks.setdefault(n.targets[0].id, n.lineno)
            copies = [c for c in ast.walk(fn.node) if isinstance(c, ast.Call) and isinstance(c.func, ast.Attribute) and c.func.attr == "copy"
                      and any(k.arg == "mask" for k in c.keywords)]
            for c in copies:
                mv = next(unparse(k.value) for k in c.keywords if k.arg == "mask")
                ok = mv in masks
                # Grid2D derives the sub-grid mask from the predicate's result through np.any / np.kron
                if not ok:
                    derived = set(masks)
                    changed = True
                    while changed:
                        changed = False
                        for n in ast.walk(fn.node):
                            if isinstance(n, ast.Assign) and len(n.targets) == 1 and isinstance(n.targets[0], ast.Name) and n.targets[0].id not in derived \
                                    and any(isinstance(x, ast.Name) and x.id in derived for x in ast.walk(n.value)):
                                derived.add(n.targets[0].id)
                                changed = True
                    ok = mv in derived
                res.inst(f"{fn.qualname}:{c.lineno} copy(mask={mv})", nontrivial=True, ok=ok)
                if not ok:
                    res.find(fn.cls.name if fn.cls else fn.module.short, fn.name, f"copy(mask={mv}) is not the computed extent mask",
                             f"{fn.module.relpath}:{c.lineno}", "the copy is not restricted to the elements selected by mask_by_extent")
    return res


def rule_orphan(ctx) -> RuleResult:
    res = RuleResult(
        "C13.ORPHAN",
        "C13",
        "CellObject.mask_by_extent: on every path that returns a mask while the object has cells, the vertex mask has "
        "been intersected with the vertices used by fully-selected cells (cells kept only when all their vertices "
        "qualify; vertices kept only when a kept cell uses them) — the intersection is skipped only when cells is None",
        floor=3,
    )
    p = ctx.p
    from ..cfg import CFG
    from ..kinds import reach

    K = p.cls("CellObject")
    fn = K.methods.get("mask_by_extent")
    if fn is None:
        raise AnalysisError("anchor CellObject.mask_by_extent not found")
    g = CFG(fn.node)
    sn = fn.self_name or "self"
    # the mask variable: bound from the predicate
    mask_vars = [n.targets[0].id for n in ast.walk(fn.node) if isinstance(n, ast.Assign) and isinstance(n.targets[0], ast.Name)
                 and isinstance(n.value, ast.Call) and getattr(n.value.func, "id", None) == "mask_by_extent"]
    if not mask_vars:
        raise AnalysisError("CellObject.mask_by_extent: vertex mask from the shared predicate not found")
    mv = mask_vars[0]

    def all_axis1(node):
        return isinstance(node, ast.Call) and unparse(node.func) in ("np.all", "numpy.all") and any(k.arg == "axis" and unparse(k.value) == "1" for k in node.keywords)

    # (1) cell selection: np.all(mask[self.cells], axis=1)
    cell_sel = [n for n in ast.walk(fn.node) if isinstance(n, ast.Assign) and all_axis1(n.value) and n.value.args
                and unparse(n.value.args[0]) == f"{mv}[{sn}.cells]"]
    res.inst("cell mask = np.all(vertex mask[self.cells], axis=1)", ok=bool(cell_sel))
    if not cell_sel:
        res.find("CellObject", "mask_by_extent", "cells are not selected by np.all(<vertex mask>[self.cells], axis=1)", fn.where,
                 "a cell must be kept exactly when all of its vertices qualify")
        return res
    cm = cell_sel[0].targets[0].id
    # (2) used-vertex mask: zeros, then [self.cells[cell_mask].flatten()] = True
    used = [n for n in ast.walk(fn.node) if isinstance(n, ast.Assign) and isinstance(n.targets[0], ast.Subscript) and isinstance(n.targets[0].value, ast.Name)
            and f"{sn}.cells[{cm}]" in unparse(n.targets[0].slice) and unparse(n.value) == "True"]
    zero_ok = False
    if used:
        um = used[0].targets[0].value.id
        zero_ok = any(isinstance(n, ast.Assign) and unparse(n.targets[0]) == um and isinstance(n.value, ast.Call)
                      and unparse(n.value.func) in ("np.zeros_like", "np.zeros") for n in ast.walk(fn.node))
    res.inst("used-vertex mask starts all False and is set at the vertices of kept cells", ok=bool(used) and zero_ok)
    if not (used and zero_ok):
        res.find("CellObject", "mask_by_extent", "used-vertex mask is not (zeros; [self.cells[cell mask].flatten()] = True)", fn.where,
                 "vertices of partially selected cells would be kept (orphans) or vertices of kept cells dropped")
        return res
    um = used[0].targets[0].value.id
    # (3) every path returning the mask with cells present passes `mask &= used`
    def inter(n):
        a = n.ast
        return isinstance(a, ast.AugAssign) and isinstance(a.op, ast.BitAnd) and unparse(a.target) == mv and unparse(a.value) == um \
            or isinstance(a, ast.Assign) and unparse(a.targets[0]) == mv and unparse(a.value) in (f"{mv} & {um}", f"{um} & {mv}", f"np.logical_and({mv}, {um})", f"np.logical_and({um}, {mv})")

    if not any(inter(n) for n in g.nodes):
        res.inst("vertex mask &= used-vertex mask", ok=False)
        res.find("CellObject", "mask_by_extent", "the vertex mask is never intersected with the used-vertex mask", fn.where,
                 "orphan vertices (of cells cut by the box) stay selected")
        return res
    rets = [n for n in g.nodes if n.kind == "return" and n.ast is not None
            and any(isinstance(x, ast.Name) and x.id == mv for x in ast.walk(n.ast.value if isinstance(n.ast, ast.Return) else n.ast))]
    if not rets:
        raise AnalysisError("CellObject.mask_by_extent: no exit returning the vertex mask recognised")
    facts = {f"notnone:{sn}.cells": True}
    seen = reach(g, [g.entry], sn, facts, avoid=inter)
    bad = [r for r in rets if r in seen]
    res.inst(f"{len(rets)} mask-returning exits dominated by the intersection when cells is not None", nontrivial=True, ok=not bad)
    for r in bad:
        res.find("CellObject", "mask_by_extent", "a path returns the vertex mask without the orphan intersection although cells exist",
                 f"{fn.module.relpath}:{r.lineno}",
                 "with cells present, some inputs skip the orphan removal: vertices of cells cut by the box are selected without any cell using them")
    return res


RULES = [rule_deleg, rule_closed, rule_fwd, rule_orphan]
