"""C13 — spatial selection: delegation to the single predicate, closed comparisons."""

from __future__ import annotations

import ast

from ..model import AnalysisError, unparse
from ..report import RuleResult

# no per-element selection: the four corners are kept or dropped together (not among the object kinds C13 enumerates)
WHOLE_OBJECT = {"GeoImage": "image corners are selected all-or-nothing; `inverse` has no per-element meaning"}


def _predicate(p):
    return p.module("shared/utils.py").functions.get("mask_by_extent")


def rule_deleg(ctx) -> RuleResult:
    res = RuleResult(
        "C13.DELEG",
        "C13",
        "every mask_by_extent override that returns a mask obtains it from shared.utils.mask_by_extent and forwards "
        "inverse=inverse; None is returned only behind the bounding-box test, when no element qualifies, when the "
        "geometry is missing, or by classes without geometry",
        floor=9,
    )
    p = ctx.p
    pred = _predicate(p)
    if pred is None:
        raise AnalysisError("anchor shared.utils.mask_by_extent not found")
    for ci in p.classes:
        if ci.synthetic or "mask_by_extent" not in ci.methods:
            continue
        fn = ci.methods["mask_by_extent"]
        body = [s for s in fn.node.body if not (isinstance(s, ast.Expr) and isinstance(s.value, ast.Constant))]
        ident = f"{ci.name}.mask_by_extent"
        if not body:
            res.inst(f"{ident}: declaration only (abstract / documented no-op)")
            continue
        inv_name = fn.params[2] if len(fn.params) > 2 else "inverse"
        # names bound (transitively) from predicate calls
        good_calls, bad_calls = [], []
        for n in ast.walk(fn.node):
            if isinstance(n, ast.Call) and isinstance(n.func, ast.Name) and n.func.id == "mask_by_extent":
                r = p.resolve_name(fn.module, "mask_by_extent")
                if not (r and r[0] == "func" and r[1] is pred):
                    continue
                kw = {k.arg: unparse(k.value) for k in n.keywords}
                passed = kw.get("inverse") == inv_name or (len(n.args) >= 3 and unparse(n.args[2]) == inv_name)
                (good_calls if passed else bad_calls).append(n)
        for c in bad_calls:
            res.find(ci.name, "mask_by_extent", f"predicate called without inverse={inv_name}: {unparse(c)[:60]}",
                     f"{fn.module.relpath}:{c.lineno}",
                     "the override drops the `inverse` option on its way to the shared predicate: inverse selections return the non-inverted mask")
        derived = set()
        changed = True
        while changed:
            changed = False
            for n in ast.walk(fn.node):
                if isinstance(n, (ast.Assign, ast.AugAssign)):
                    tg = n.targets if isinstance(n, ast.Assign) else [n.target]
                    src_ok = any(c in list(ast.walk(n.value)) for c in good_calls + bad_calls) or any(
                        isinstance(x, ast.Name) and x.id in derived for x in ast.walk(n.value)
                    )
                    for t in tg:
                        b = t
                        while isinstance(b, ast.Subscript):
                            b = b.value
                        if isinstance(b, ast.Name) and src_ok and b.id not in derived:
                            derived.add(b.id)
                            changed = True
        rets = [n for n in ast.walk(fn.node) if isinstance(n, ast.Return)]
        ok_all = True
        for r in rets:
            v = r.value
            if v is None or (isinstance(v, ast.Constant) and v.value is None):
                ok = _none_allowed(fn, r)
                what = "return None"
                if not ok:
                    res.find(ci.name, "mask_by_extent", f"return None outside the accepted contexts (line context: {_ctx_test(fn, r)})",
                             f"{fn.module.relpath}:{r.lineno}",
                             "the override returns nothing although the box may contain elements of the object")
            else:
                from_pred = any(c in list(ast.walk(v)) for c in good_calls + bad_calls) or any(
                    isinstance(x, ast.Name) and x.id in derived for x in ast.walk(v)
                )
                ok = from_pred or ci.name in WHOLE_OBJECT
                what = f"return {unparse(v)[:40]}"
                if not ok:
                    res.find(ci.name, "mask_by_extent", f"returned mask does not come from the shared predicate: {unparse(v)[:50]}",
                             f"{fn.module.relpath}:{r.lineno}",
                             "the override computes its own selection instead of delegating to shared.utils.mask_by_extent")
            ok_all = ok_all and ok
            res.inst(f"{ident}:{r.lineno} {what}", nontrivial=True, ok=ok)
        if ci.name in WHOLE_OBJECT:
            res.notes.append(f"{ident}: {WHOLE_OBJECT[ci.name]}")
    return res


def _enclosing_ifs(fn, node):
    out = []

    def rec(stmts, stack):
        for s in stmts:
            if s is node:
                out.extend(stack)
                return True
            for fld, lab in (("body", True), ("orelse", False)):
                blk = getattr(s, fld, None)
                if isinstance(blk, list) and blk and isinstance(s, (ast.If, ast.For, ast.While, ast.With, ast.Try)):
                    if rec(blk, stack + ([(s, lab)] if isinstance(s, ast.If) else [])):
                        return True
            if isinstance(s, ast.Try):
                for h in s.handlers:
                    if rec(h.body, stack):
                        return True
        return False

    rec(fn.node.body, [])
    return out


def _ctx_test(fn, r):
    ifs = _enclosing_ifs(fn, r)
    return unparse(ifs[-1][0].test)[:50] if ifs else "top level"


def _none_allowed(fn, r) -> bool:
    ifs = _enclosing_ifs(fn, r)
    if ifs:
        test, branch = ifs[-1]
        t = unparse(test.test)
        if not branch:
            return False
        if "box_intersect" in t or "extent is None" in t:
            return True
        if ("np.any(" in t or ".any()" in t) and (t.startswith("~") or t.startswith("not ")):
            return True
        return False
    # top level: whole-function `return None` (no geometry), or fall-through after `if <geometry> is not None: return ...`
    body = [s for s in fn.node.body if not (isinstance(s, ast.Expr) and isinstance(s.value, ast.Constant))]
    if body == [r]:
        return True
    idx = body.index(r) if r in body else -1
    if idx > 0 and isinstance(body[idx - 1], ast.If):
        prev = body[idx - 1]
        t = unparse(prev.test)
        ends_return = isinstance(prev.body[-1], ast.Return)
        if ends_return and ("is not None" in t or "is DataAssociationEnum" in t or "association" in t):
            return True
    return False


def rule_closed(ctx) -> RuleResult:
    res = RuleResult(
        "C13.CLOSED",
        "C13",
        "in shared.utils.mask_by_extent every comparison between coordinates and limits is non-strict and the inverse "
        "branch returns the complement; box_intersect rejects only strictly disjoint boxes",
        floor=4,
    )
    p = ctx.p
    pred = _predicate(p)
    loops = [n for n in ast.walk(pred.node) if isinstance(n, ast.For)]
    if not loops:
        raise AnalysisError("shared.utils.mask_by_extent: per-axis loop not found")
    cmps = [c for lp in loops for c in ast.walk(lp) if isinstance(c, ast.Compare)]
    calls = [c for lp in loops for c in ast.walk(lp) if isinstance(c, ast.Call) and isinstance(c.func, ast.Attribute)
             and c.func.attr in ("less", "greater", "less_equal", "greater_equal")]
    if not cmps and not calls:
        raise AnalysisError("shared.utils.mask_by_extent: no coordinate comparison recognised")
    for c in cmps:
        for op in c.ops:
            if isinstance(op, (ast.LtE, ast.GtE)):
                res.inst(f"mask_by_extent:{c.lineno} {unparse(c)[:40]} non-strict", ok=True)
            elif isinstance(op, (ast.Lt, ast.Gt)):
                res.inst(f"mask_by_extent:{c.lineno} {unparse(c)[:40]} STRICT", ok=False)
                res.find("utils", "mask_by_extent", f"strict comparison {unparse(c)[:40]}", f"{pred.module.relpath}:{c.lineno}",
                         "points lying exactly on a face of the box are excluded: the box is not closed")
            else:
                raise AnalysisError(f"mask_by_extent:{c.lineno}: unrecognised comparison {unparse(c)}")
    for c in calls:
        ok = c.func.attr in ("less_equal", "greater_equal")
        res.inst(f"mask_by_extent:{c.lineno} np.{c.func.attr}", ok=ok)
        if not ok:
            res.find("utils", "mask_by_extent", f"strict comparison np.{c.func.attr}", f"{pred.module.relpath}:{c.lineno}",
                     "points lying exactly on a face of the box are excluded")
    # inverse
    inv = pred.params[2] if len(pred.params) > 2 else "inverse"
    inv_ifs = [n for n in ast.walk(pred.node) if isinstance(n, ast.If) and unparse(n.test) == inv]
    ok = any(isinstance(s, ast.Return) and isinstance(s.value, ast.UnaryOp) and isinstance(s.value.op, ast.Invert) for i in inv_ifs for s in i.body)
    where_np = any(isinstance(n, ast.Call) and unparse(n.func) in ("np.logical_not", "np.invert") for n in ast.walk(pred.node))
    res.inst("mask_by_extent: `if inverse: return ~indices`", ok=ok or where_np)
    if not (ok or where_np):
        res.find("utils", "mask_by_extent", "inverse branch does not return the complement", pred.where,
                 "the inverse option no longer applies the complementary test")
    # box_intersect
    bi = p.module("shared/utils.py").functions.get("box_intersect")
    if bi is None:
        raise AnalysisError("anchor shared.utils.box_intersect not found")
    rej = [n for n in ast.walk(bi.node) if isinstance(n, ast.If) and any(isinstance(s, ast.Return) and unparse(s.value) == "False" for s in n.body)]
    if not rej:
        raise AnalysisError("shared.utils.box_intersect: rejecting test not found")
    for r in rej:
        t = r.test
        if isinstance(t, ast.Compare) and len(t.ops) == 1 and isinstance(t.ops[0], (ast.Gt, ast.Lt)):
            res.inst(f"box_intersect:{r.lineno} rejects on strict {unparse(t)}", ok=True)
        elif isinstance(t, ast.Compare) and len(t.ops) == 1 and isinstance(t.ops[0], (ast.GtE, ast.LtE)):
            res.inst(f"box_intersect:{r.lineno} rejects on non-strict {unparse(t)}", ok=False)
            res.find("utils", "box_intersect", f"rejects touching boxes: {unparse(t)}", f"{bi.module.relpath}:{r.lineno}",
                     "a box that only touches the object's bounding box is treated as disjoint: elements on the shared face are lost")
        else:
            raise AnalysisError(f"box_intersect:{r.lineno}: unrecognised rejecting test {unparse(t)}")
    return res


RULES = [rule_deleg, rule_closed]
