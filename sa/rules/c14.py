"""C14 — ui.json round trip: mapper tables of the write and read pipelines are inverse; sentinel collisions."""

from __future__ import annotations

import ast

from ..model import AnalysisError, unparse
from ..report import RuleResult

EXTRA_PAIRS = {"as_str_if_uuid": "str2uuid"}  # pairs not following the a2b / b2a naming
ONE_WAY = {
    "nan2str": "documented exception: NaN is not a ui.json value (written as '', read back as None)",
    "container_group2name": "shadowed by entity2uuid, which runs first: a ContainerGroup has a uid and is demoted to it",
}


def _inverse_name(name: str) -> str | None:
    if name in EXTRA_PAIRS:
        return EXTRA_PAIRS[name]
    for k, v in EXTRA_PAIRS.items():
        if v == name:
            return k
    if "2" in name:
        a, b = name.split("2", 1)
        return f"{b}2{a}"
    return None


def mapper_list(p, fn):
    """Names in the `mappers = [...]` list literal of a function (List/Tuple of names, or a module constant)."""
    for n in ast.walk(fn.node):
        if isinstance(n, ast.Assign) and any(isinstance(t, ast.Name) and t.id == "mappers" for t in n.targets):
            v = n.value
            if isinstance(v, ast.Name):
                r = p.resolve_name(fn.module, v.id)
                if r and r[0] == "assign":
                    v = r[1][1]
            if isinstance(v, (ast.List, ast.Tuple)) and all(isinstance(e, ast.Name) for e in v.elts):
                return [e.id for e in v.elts], n
            raise AnalysisError(f"{fn.where}: unrecognised `mappers` initialiser {unparse(v)[:60]}")
    raise AnalysisError(f"{fn.where}: no `mappers = [...]` found in {fn.qualname}")


def pipelines(ctx):
    p = ctx.p
    IF = p.cls("InputFile")
    demote = IF.methods.get("demote")
    numify = IF.methods.get("numify")
    strfy = p.module("shared/utils.py").functions.get("stringify")
    if not (demote and numify and strfy):
        raise AnalysisError("C14: anchors InputFile.demote / numify / shared.utils.stringify not found")
    d, dn = mapper_list(p, demote)
    s, sn = mapper_list(p, strfy)
    r, rn = mapper_list(p, numify)
    promo = IF.methods.get("_uid_promotion")
    pr = [c.func.id for c in ast.walk(promo.node) if isinstance(c, ast.Call) and isinstance(c.func, ast.Name) and c.func.id.startswith("uuid2")] if promo else []
    return {"demote": (d, demote, dn), "stringify": (s, strfy, sn), "numify": (r, numify, rn), "promote": (pr, promo, None)}


def _func(p, fn_ctx, name):
    r = p.resolve_name(fn_ctx.module, name)
    return r[1] if r and r[0] == "func" else None


def rule_inv(ctx) -> RuleResult:
    res = RuleResult(
        "C14.INV",
        "C14",
        "the write pipeline (demote then stringify) and the read pipeline (numify, promote) are inverse as tables: "
        "every write mapper has its inverse on the read side and vice versa, ordering constraints hold, literal tokens agree",
        floor=10,
    )
    p = ctx.p
    pl = pipelines(ctx)
    W = pl["demote"][0] + pl["stringify"][0]
    Rd = pl["numify"][0] + pl["promote"][0]
    for side, names, other, what in (("write", W, Rd, "read"), ("read", Rd, W, "write")):
        for nm in dict.fromkeys(names):
            if nm in ONE_WAY:
                res.inst(f"{side} mapper {nm}: one-way by design")
                if f"{nm}: {ONE_WAY[nm]}" not in res.notes:
                    res.notes.append(f"{nm}: {ONE_WAY[nm]}")
                continue
            inv = _inverse_name(nm)
            ok = inv is not None and inv in other
            res.inst(f"{side} mapper {nm} <-> {inv} on the {what} side", ok=ok)
            if not ok:
                owner = next(k for k, v in pl.items() if nm in v[0])
                fn = pl[owner][1]
                res.find(fn.cls.name if fn.cls else "utils", fn.name, f"{side} mapper {nm} has no inverse {inv} in the {what} pipeline", fn.where,
                         f"values converted by {nm} when {'writing' if side == 'write' else 'reading'} a ui.json are not converted back "
                         f"when {'reading' if side == 'write' else 'writing'} it")
    # ordering in demote
    d = pl["demote"][0]
    fn = pl["demote"][1]
    if "entity2uuid" in d and "as_str_if_uuid" in d:
        ok = d.index("entity2uuid") < d.index("as_str_if_uuid")
        res.inst("demote: entity2uuid before as_str_if_uuid", ok=ok)
        if not ok:
            res.find("InputFile", "demote", "as_str_if_uuid runs before entity2uuid", fn.where,
                     "entities are demoted to raw UUID objects that json cannot serialise / are not wrapped in braces")
    if "container_group2name" in d and "entity2uuid" in d:
        ok = d.index("entity2uuid") < d.index("container_group2name")
        res.inst("demote: container_group2name after entity2uuid (shadowed)", ok=ok)
        if not ok:
            res.find("InputFile", "demote", "container_group2name runs before entity2uuid", fn.where,
                     "container groups are written by name and cannot be promoted back to the same entity")
    # nesting order in write_ui_json: stringify(demote(x))
    w = p.cls("InputFile").methods.get("write_ui_json")
    nest = [c for c in ast.walk(w.node) if isinstance(c, ast.Call) and isinstance(c.func, ast.Attribute) and c.func.attr == "stringify"
            and c.args and isinstance(c.args[0], ast.Call) and isinstance(c.args[0].func, ast.Attribute) and c.args[0].func.attr == "demote"]
    ok = bool(nest)
    res.inst("write_ui_json: json.dump(stringify(demote(ui_json)))", ok=ok)
    if not ok:
        res.find("InputFile", "write_ui_json", "write pipeline is not stringify(demote(...))", w.where,
                 "entities / workspaces reach json.dump undemoted or None/inf unstringified")
    # read: the ui_json setter numifies every assignment
    st = p.cls("InputFile").props["ui_json"].setter
    ok = any(isinstance(c, ast.Call) and isinstance(c.func, ast.Attribute) and c.func.attr == "numify" for c in ast.walk(st.node))
    res.inst("InputFile.ui_json setter applies numify", ok=ok)
    if not ok:
        res.find("InputFile", "ui_json", "setter does not numify", st.where, "strings written for None / inf / uuids are not converted back on load")
    # tokens
    um = p.module("shared/utils.py")
    uj = p.module("ui_json/utils.py")
    n2s, s2n = um.functions.get("none2str"), um.functions.get("str2none")
    if n2s and s2n:
        wtok = {r.value.value for r in ast.walk(n2s.node) if isinstance(r, ast.Return) and isinstance(r.value, ast.Constant) and isinstance(r.value.value, str)}
        rtok = {c.comparators[0].value for c in ast.walk(s2n.node) if isinstance(c, ast.Compare) and isinstance(c.comparators[0], ast.Constant)}
        ok = wtok == rtok and len(wtok) == 1
        res.inst(f"none2str writes {sorted(wtok)}, str2none reads {sorted(rtok)}", ok=ok)
        if not ok:
            res.find("utils", "none2str", f"token mismatch {sorted(wtok)} vs {sorted(rtok)}", n2s.where, "None is written as a token the reader does not map back")
    s2i = uj.functions.get("str2inf")
    if s2i:
        toks = {e.value for n in ast.walk(s2i.node) if isinstance(n, (ast.List, ast.Tuple, ast.Set)) for e in n.elts if isinstance(e, ast.Constant)}
        ok = {"inf", "-inf"} <= toks
        res.inst(f"str2inf accepts {sorted(toks)} (str(float('inf')), str(float('-inf')))", ok=ok)
        if not ok:
            res.find("utils", "str2inf", f"tokens {sorted(toks)} miss 'inf'/'-inf'", s2i.where, "an infinity written by inf2str stays a string after reading")
    return res


def rule_collide(ctx) -> RuleResult:
    res = RuleResult(
        "C14.COLLIDE",
        "C14",
        "a write mapper that turns a non-string into a string while strings pass through unescaped, paired with a read "
        "mapper that recognises that string unconditionally, makes the encoding non-injective (reported per pair)",
        floor=4,
    )
    p = ctx.p
    pl = pipelines(ctx)
    um = p.module("shared/utils.py")
    for rname in dict.fromkeys(pl["numify"][0]):
        owner = pl["numify"][1]
        rfn = _func(p, owner, rname)
        if rfn is None:
            continue
        prm = rfn.params[0]
        # the reader recognises strings by value: == "tok" / in ["tok", ...] / is_uuid(value) / suffix test
        recog = []
        for n in ast.walk(rfn.node):
            if isinstance(n, ast.Compare) and unparse(n.left) == prm and isinstance(n.ops[0], (ast.Eq, ast.In)):
                recog.append(unparse(n))
            if isinstance(n, ast.Call) and isinstance(n.func, ast.Name) and n.func.id == "is_uuid":
                recog.append(unparse(n))
            if isinstance(n, ast.Compare) and "suffix" in unparse(n.left):
                recog.append(unparse(n))
        wname = _inverse_name(rname)
        wfn = _func(p, pl["demote"][1], wname) or _func(p, pl["stringify"][1], wname) if wname else None
        if not recog or wfn is None:
            res.inst(f"{rname}: no value-based recognition of strings")
            continue
        # does the writer escape genuine strings?  (it must transform str inputs to be injective)
        wprm = wfn.params[0]
        passes_through = any(isinstance(r, ast.Return) and unparse(r.value) == wprm for r in ast.walk(wfn.node))
        escapes = any(isinstance(n, ast.Call) and isinstance(n.func, ast.Name) and n.func.id == "isinstance" and unparse(n.args[0]) == wprm
                      and "str" in unparse(n.args[1]) for n in ast.walk(wfn.node))
        collide = passes_through and not escapes
        res.inst(f"{wname} / {rname}: reader recognises {recog[0]}; writer escapes strings: {escapes}", nontrivial=True, ok=not collide)
        if collide:
            res.find("ui_json", f"{wname}/{rname}", f"sentinel collision: {rname} recognises {recog[0]}", rfn.where,
                     f"{wname} maps a non-string to a string and lets genuine strings through unchanged, {rname} maps every string "
                     f"satisfying `{recog[0]}` back: a string parameter with such a value does not round-trip")
    return res


RULES = [rule_inv, rule_collide]
