"""C14 — ui.json round trip: mapper tables of the write and read pipelines are inverse; sentinel collisions.

The rules decide by what the anchored functions DO (see _c14_sem.py): the mapper tables are whatever ordered lists of
functions reach `dict_mapper(value, <list>)` from the pipeline function or a private helper of it (literal, local,
module / class constant); tokens are the constants a mapper returns / compares its argument with; conditions are
compared as truth tables over the form members they consult; locals are followed through their reaching definitions.
"""

from __future__ import annotations

import ast

from ..model import AnalysisError, unparse
from ..report import RuleResult
from ._c14_sem import (
    Flow,
    NotBoolean,
    applied_lists,
    assignments,
    bool_table,
    call_name,
    closure,
    compared_tokens,
    flow_of,
    mentions,
    raw_closure,
    result_leaves,
    str_constants,
)

EXTRA_PAIRS = {"as_str_if_uuid": "str2uuid"}  # pairs not following the a2b / b2a naming
ONE_WAY = {
    "nan2str": "documented exception: NaN is not a ui.json value (written as '', read back as None)",
    "container_group2name": "shadowed by entity2uuid, which runs first: a ContainerGroup has a uid and is demoted to it",
}


def _inverse_name(name: str) -> str | None:
    if name in EXTRA_PAIRS:
        return EXTRA_PAIRS[name]
    for k, v in EXTRA_PAIRS.items():
        if v == name:
            return k
    if "2" in name:
        a, b = name.split("2", 1)
        return f"{b}2{a}"
    return None


class Site:
    """Where a mapper table is written down: `.value` is the list / tuple literal, `.module` the module holding it."""

    def __init__(self, value, module):
        self.value = value
        self.module = module


class Pipe(tuple):
    """(names, function, site) — names: every mapper some call applies, in order; `.every`: those EVERY call applies;
    `.lists`: the table of each `dict_mapper` call reached from the function."""

    def __new__(cls, names, fn, site, lists=None, tabular=True):
        self = super().__new__(cls, (names, fn, site))
        self.lists = lists if lists is not None else [names]
        self.every = {n for n in names if all(n in l for l in self.lists)}
        self.tabular = tabular  # False: the function converts by an explicit dispatch, names are the converters it calls
        # can the side be paired with the other by the a2b / b2a names of its mappers?  (not when it dispatches itself, nor when
        # a table holds a converter of another name, e.g. one function composed of several steps)
        self.pairable = tabular and all(_inverse_name(n) is not None for n in names)
        return self


def mapper_lists(p, fn):
    """The mapper tables of a pipeline function: the function lists handed to dict_mapper(...) by the function or by a
    private helper extracted from it, wherever the list is written down."""
    got = applied_lists(p, fn)
    if not got:
        raise AnalysisError(f"{fn.where}: no mapper list handed to dict_mapper(...) found in {fn.qualname}")
    return got


def mapper_list(p, fn):
    """(names, site) of the mapper table of a function (the first one when several calls carry their own)."""
    got = mapper_lists(p, fn)
    return got[0][0], Site(got[0][1], got[0][2])


def _pipe(p, fn):
    got = applied_lists(p, fn)
    if not got:
        # no table: the function dispatches on the value itself (`if isinstance(value, X): return x2y(value)`); what can be
        # named are the converters it calls — whether every kind is covered is decided on kinds (C14.COVER), not on names
        names = []
        for f in raw_closure(p, fn):
            for c in ast.walk(f.node):
                nm = call_name(c) if isinstance(c, ast.Call) else None
                if nm and nm not in names and _inverse_name(nm) and _func(p, f, nm) is not None:
                    names.append(nm)
        return Pipe(names, fn, None, [], tabular=False)
    names = list(dict.fromkeys(n for g in got for n in g[0]))
    if all(g[0] == got[0][0] for g in got):
        names = list(got[0][0])  # keeps repetitions of the one table
    return Pipe(names, fn, Site(got[0][1], got[0][2]), [g[0] for g in got])


def pipelines(ctx):
    if "c14.pipelines" in ctx.cache:
        return ctx.cache["c14.pipelines"]
    p = ctx.p
    IF = p.cls("InputFile")
    demote = IF.methods.get("demote")
    numify = IF.methods.get("numify")
    strfy = p.module("shared/utils.py").functions.get("stringify")
    if strfy is None and IF.methods.get("stringify") is not None:
        r = p.resolve_name(IF.module, "stringify")
        strfy = r[1] if r and r[0] == "func" else IF.methods.get("stringify")
    if not (demote and numify and strfy):
        raise AnalysisError("C14: anchors InputFile.demote / numify / shared.utils.stringify not found")
    # promotion: the uuid2* conversions reached from InputFile.promote (or its per-value helper)
    promo = IF.methods.get("promote") or IF.methods.get("_uid_promotion")
    pr = []
    if promo is not None:
        fns = raw_closure(p, promo)
        if IF.methods.get("_uid_promotion") is not None and all(f.node is not IF.methods["_uid_promotion"].node for f in fns):
            fns.append(IF.methods["_uid_promotion"])
        for f in fns:
            for c in ast.walk(f.node):
                if isinstance(c, ast.Call) and (call_name(c) or "").startswith("uuid2") and call_name(c) not in pr:
                    pr.append(call_name(c))
    out = {"demote": _pipe(p, demote), "stringify": _pipe(p, strfy), "numify": _pipe(p, numify),
           "promote": Pipe(pr, IF.methods.get("_uid_promotion") or promo, None)}
    ctx.cache["c14.pipelines"] = out
    return out


def _func(p, fn_ctx, name):
    r = p.resolve_name(fn_ctx.module, name)
    return r[1] if r and r[0] == "func" else None


def _mapper(ctx, pl, name):
    """FuncInfo of a mapper named in one of the tables (resolved from the module that uses it)."""
    for owner in ("demote", "stringify", "numify"):
        f = _func(ctx.p, pl[owner][1], name)
        if f is not None:
            return f
    for short in ("shared/utils.py", "ui_json/utils.py"):
        f = ctx.p.module(short).functions.get(name)
        if f is not None:
            return f
    return None


def _view(ctx, fn):
    return ctx.view(fn) if hasattr(ctx, "view") else fn


def _returned_tokens(ctx, fn):
    """String constants a mapper can return as such (through locals and conditional expressions)."""
    v = _view(ctx, fn)
    return {l.value for l in result_leaves(v.node, flow_of(ctx, v)) if isinstance(l, ast.Constant) and isinstance(l.value, str)}


def _recognised_tokens(ctx, fn):
    v = _view(ctx, fn)
    return compared_tokens(v.node, v.params[0], flow_of(ctx, v))


def _dumped_is_stringify_of_demote(ctx, w):
    """(found a site, ok): what write_ui_json hands to json.dump is stringify(demote(...)), through any locals / helper."""
    v = _view(ctx, w)
    flow = flow_of(ctx, v)

    def is_nest(e):
        r = flow.resolve(e)
        return isinstance(r, ast.Call) and call_name(r) == "stringify" and bool(r.args) and isinstance(r.args[0], ast.Call) and call_name(r.args[0]) == "demote"

    dumps = [c for c in ast.walk(v.node) if isinstance(c, ast.Call) and call_name(c) in ("dump", "dumps") and c.args
             and (isinstance(c.func, ast.Name) or unparse(c.func.value) == "json")]
    if dumps:
        return all(is_nest(c.args[0]) for c in dumps)
    return any(isinstance(c, ast.Call) and call_name(c) == "stringify" and is_nest(c) for c in ast.walk(v.node))


def rule_inv(ctx) -> RuleResult:
    res = RuleResult(
        "C14.INV",
        "C14",
        "the write pipeline (demote then stringify) and the read pipeline (numify, promote) are inverse as tables: "
        "every write mapper has its inverse on the read side and vice versa, ordering constraints hold, literal tokens agree",
        floor=10,
    )
    p = ctx.p
    pl = pipelines(ctx)
    W = pl["demote"][0] + pl["stringify"][0]
    Rd = pl["numify"][0] + pl["promote"][0]
    W_every = pl["demote"].every | pl["stringify"].every
    R_every = pl["numify"].every | pl["promote"].every
    for side, names, other, what in (("write", W, R_every, "read"), ("read", Rd, W_every, "write")):
        for nm in dict.fromkeys(names):
            if nm in ONE_WAY:
                res.inst(f"{side} mapper {nm}: one-way by design")
                if f"{nm}: {ONE_WAY[nm]}" not in res.notes:
                    res.notes.append(f"{nm}: {ONE_WAY[nm]}")
                continue
            inv = _inverse_name(nm)
            ok = inv is not None and inv in other
            other_fns = ("numify",) if side == "write" else ("demote", "stringify")
            if not ok and (inv is None or any(not pl[k].pairable for k in other_fns)):
                res.inst(f"{side} mapper {nm}: not paired by name (explicit dispatch / composed converter), coverage decided on kinds (C14.COVER)")
                continue
            res.inst(f"{side} mapper {nm} <-> {inv} on the {what} side", ok=ok)
            if not ok:
                owner = next(k for k, v in pl.items() if nm in v[0])
                fn = pl[owner][1]
                res.find(fn.cls.name if fn.cls else "utils", fn.name, f"{side} mapper {nm} has no inverse {inv} in the {what} pipeline", fn.where,
                         f"values converted by {nm} when {'writing' if side == 'write' else 'reading'} a ui.json are not converted back "
                         f"when {'reading' if side == 'write' else 'writing'} it")
    # ordering in demote (in every table demote applies)
    fn = pl["demote"][1]
    tables = pl["demote"].lists
    if any("entity2uuid" in d and "as_str_if_uuid" in d for d in tables):
        ok = all(d.index("entity2uuid") < d.index("as_str_if_uuid") for d in tables if "entity2uuid" in d and "as_str_if_uuid" in d)
        res.inst("demote: entity2uuid before as_str_if_uuid", ok=ok)
        if not ok:
            res.find("InputFile", "demote", "as_str_if_uuid runs before entity2uuid", fn.where,
                     "entities are demoted to raw UUID objects that json cannot serialise / are not wrapped in braces")
    if any("container_group2name" in d and "entity2uuid" in d for d in tables):
        ok = all(d.index("entity2uuid") < d.index("container_group2name") for d in tables if "container_group2name" in d and "entity2uuid" in d)
        res.inst("demote: container_group2name after entity2uuid (shadowed)", ok=ok)
        if not ok:
            res.find("InputFile", "demote", "container_group2name runs before entity2uuid", fn.where,
                     "container groups are written by name and cannot be promoted back to the same entity")
    # nesting order in write_ui_json: what is dumped is stringify(demote(x))
    w = p.cls("InputFile").methods.get("write_ui_json")
    if w is None:
        raise AnalysisError("C14: anchor InputFile.write_ui_json not found")
    ok = _dumped_is_stringify_of_demote(ctx, w)
    res.inst("write_ui_json: json.dump(stringify(demote(ui_json)))", ok=ok)
    if not ok:
        res.find("InputFile", "write_ui_json", "write pipeline is not stringify(demote(...))", w.where,
                 "entities / workspaces reach json.dump undemoted or None/inf unstringified")
    # read: the ui_json setter numifies every assignment
    st = p.cls("InputFile").props["ui_json"].setter
    ok = any(isinstance(c, ast.Call) and call_name(c) == "numify" for f in closure(ctx, st) for c in ast.walk(f.node))
    res.inst("InputFile.ui_json setter applies numify", ok=ok)
    if not ok:
        res.find("InputFile", "ui_json", "setter does not numify", st.where, "strings written for None / inf / uuids are not converted back on load")
    # tokens
    n2s, s2n = _mapper(ctx, pl, "none2str"), _mapper(ctx, pl, "str2none")
    if n2s and s2n:
        wtok = _returned_tokens(ctx, n2s)
        rtok = set(_recognised_tokens(ctx, s2n))
        ok = wtok == rtok and len(wtok) == 1
        res.inst(f"none2str writes {sorted(wtok)}, str2none reads {sorted(map(str, rtok))}", ok=ok)
        if not ok:
            res.find("utils", "none2str", f"token mismatch {sorted(wtok)} vs {sorted(map(str, rtok))}", n2s.where, "None is written as a token the reader does not map back")
    s2i = _mapper(ctx, pl, "str2inf")
    if s2i:
        toks = {t for t in _recognised_tokens(ctx, s2i) if isinstance(t, str)}
        ok = {"inf", "-inf"} <= toks
        res.inst(f"str2inf accepts {sorted(toks)} (str(float('inf')), str(float('-inf')))", ok=ok)
        if not ok:
            res.find("utils", "str2inf", f"tokens {sorted(toks)} miss 'inf'/'-inf'", s2i.where, "an infinity written by inf2str stays a string after reading")
    return res


def _canon_param(node, prm):
    """Text of an expression with the mapper's parameter spelled `value`."""
    import copy

    class R(ast.NodeTransformer):
        def visit_Name(self, n):
            return ast.copy_location(ast.Name(id="value", ctx=n.ctx), n) if n.id == prm else n

    return unparse(R().visit(copy.deepcopy(node)))


def recognitions(ctx, rfn) -> list:
    """How a read mapper recognises a string by VALUE, in a canonical spelling that does not depend on the parameter's
    name, on the polarity of the test (guard clause / De Morgan), on hoisted constants or on temporaries:
    `value == 'tok'` / `value in ['t1', 't2']` / `is_uuid(value)` / `Path(value).suffix == '.ext'`."""
    v = _view(ctx, rfn)
    flow = flow_of(ctx, v)
    prm = v.params[0]
    out = []

    def from_param(e):
        return mentions(e, prm) or mentions(flow.resolve(e), prm)

    toks = compared_tokens(v.node, prm, flow)
    if len(toks) == 1:
        out.append(f"value == {toks[0]!r}")
    elif toks:
        out.append("value in [" + ", ".join(sorted((repr(t) for t in toks), key=lambda s: (len(s), s))) + "]")
    # comparisons of the parameter with something that is not a literal
    for n in ast.walk(v.node):
        if isinstance(n, ast.Compare) and len(n.ops) == 1 and isinstance(n.ops[0], (ast.Eq, ast.NotEq, ast.In, ast.NotIn)) \
                and isinstance(n.left, ast.Name) and (n.left.id == prm or unparse(flow.resolve(n.left)) == prm):
            r = flow.resolve(n.comparators[0])
            lit = isinstance(r, ast.Constant) or (isinstance(r, (ast.List, ast.Tuple, ast.Set)) and all(isinstance(e, ast.Constant) for e in r.elts)) \
                or (isinstance(r, ast.Dict) and all(isinstance(k, ast.Constant) for k in r.keys))
            if not lit:
                op = "==" if isinstance(n.ops[0], (ast.Eq, ast.NotEq)) else "in"
                out.append(f"value {op} {_canon_param(r, prm)}")
    for n in ast.walk(v.node):
        # is_uuid(value), or the same test spelled as an attempted conversion: try: UUID(value) except ValueError
        attempt = isinstance(n, ast.Try) and any(isinstance(c, ast.Call) and call_name(c) == "UUID" and c.args and from_param(c.args[0])
                                                 for st in n.body for c in ast.walk(st))
        if (isinstance(n, ast.Call) and call_name(n) == "is_uuid") or attempt:
            s = "is_uuid(value)"
            if s not in out:
                out.append(s)
    for n in ast.walk(v.node):
        if isinstance(n, ast.Compare) and len(n.ops) == 1:
            sides = [flow.resolve(n.left), flow.resolve(n.comparators[0])]
            for i, s in enumerate(sides):
                if any(isinstance(x, ast.Attribute) and x.attr in ("suffix", "suffixes") for x in ast.walk(s)):
                    o = sides[1 - i]
                    txt = f"Path(value).suffix == {o.value!r}" if isinstance(o, ast.Constant) else f"Path(value).suffix ~ {_canon_param(o, prm)}"
                    if txt not in out:
                        out.append(txt)
                    break
        elif isinstance(n, ast.Call) and call_name(n) == "endswith" and isinstance(n.func, ast.Attribute) and from_param(n.func.value) and n.args:
            o = flow.resolve(n.args[0])
            txt = f"Path(value).suffix == {o.value!r}" if isinstance(o, ast.Constant) else f"Path(value).suffix ~ {_canon_param(o, prm)}"
            if txt not in out:
                out.append(txt)
    return out


def rule_collide(ctx) -> RuleResult:
    res = RuleResult(
        "C14.COLLIDE",
        "C14",
        "a write mapper that turns a non-string into a string while strings pass through unescaped, paired with a read "
        "mapper that recognises that string unconditionally, makes the encoding non-injective (reported per pair)",
        floor=4,
    )
    p = ctx.p
    pl = pipelines(ctx)
    for rname in dict.fromkeys(pl["numify"][0]):
        owner = pl["numify"][1]
        rfn = _func(p, owner, rname)
        if rfn is None or not rfn.params:
            continue
        # the reader recognises strings by value: == "tok" / in ["tok", ...] / is_uuid(value) / suffix test
        recog = recognitions(ctx, rfn)
        wname = _inverse_name(rname)
        wfn = _func(p, pl["demote"][1], wname) or _func(p, pl["stringify"][1], wname) if wname else None
        if not recog or wfn is None or not wfn.params:
            res.inst(f"{rname}: no value-based recognition of strings")
            continue
        # does the writer escape genuine strings?  (it must transform str inputs to be injective)
        wv = _view(ctx, wfn)
        wflow = flow_of(ctx, wv)
        wprm = wv.params[0]
        passes_through = any(isinstance(l, ast.Name) and l.id == wprm for l in result_leaves(wv.node, wflow))
        escapes = any(isinstance(n, ast.Call) and isinstance(n.func, ast.Name) and n.func.id == "isinstance" and len(n.args) == 2
                      and (unparse(n.args[0]) == wprm or unparse(wflow.resolve(n.args[0])) == wprm)
                      and "str" in unparse(n.args[1]) for n in ast.walk(wv.node))
        collide = passes_through and not escapes
        res.inst(f"{wname} / {rname}: reader recognises {recog[0]}; writer escapes strings: {escapes}", nontrivial=True, ok=not collide)
        if collide:
            res.find("ui_json", f"{wname}/{rname}", f"sentinel collision: {rname} recognises {recog[0]}", rfn.where,
                     f"{wname} maps a non-string to a string and lets genuine strings through unchanged, {rname} maps every string "
                     f"satisfying `{recog[0]}` back: a string parameter with such a value does not round-trip")
    return res


# ---------------------------------------------------------------------------------------------------------------- FLAT
def _truth_defaults(ctx, uj):
    """member -> default of ui_json.utils.truth (the dict literal of constant keys it consults)."""
    t = uj.functions.get("truth")
    out = {}
    if t is not None:
        for n in ast.walk(_view(ctx, t).node):
            if isinstance(n, ast.Dict) and n.keys and all(isinstance(k, ast.Constant) and isinstance(v, ast.Constant) for k, v in zip(n.keys, n.values)):
                out.update({k.value: v.value for k, v in zip(n.keys, n.values)})
    return out


def _none_sites(fn_node):
    """Places of a function where None is produced under a condition:
    [(conditions [(test, polarity)] outermost first, line, strong)] — strong: `x[k] = None` directly in a branch."""
    sites = []

    def is_none(e):
        return isinstance(e, ast.Constant) and e.value is None

    def exprs_of(st):
        """expressions evaluated by the statement itself (not by nested statements)"""
        for fld, val in ast.iter_fields(st):
            if fld in ("body", "orelse", "finalbody", "handlers"):
                continue
            for x in (val if isinstance(val, list) else [val]):
                if isinstance(x, ast.AST):
                    yield x

    def ifexps(e, stack, line):
        if isinstance(e, ast.IfExp):
            for br, pol in ((e.body, True), (e.orelse, False)):
                if is_none(br):
                    sites.append((stack + [(e.test, pol)], line, False))
            ifexps(e.test, stack, line)
            ifexps(e.body, stack + [(e.test, True)], line)
            ifexps(e.orelse, stack + [(e.test, False)], line)
            return
        for ch in ast.iter_child_nodes(e):
            ifexps(ch, stack, line)

    def overrides(target, later):
        """conditions under which a later `if` of the same block does NOT store the target again"""
        out = []
        txt = unparse(target)
        for g in later:
            if isinstance(g, ast.If):
                hit = [any(isinstance(s, ast.Assign) and any(unparse(t) == txt for t in s.targets) for s in br) for br in (g.body, g.orelse)]
                if hit[0] != hit[1]:
                    out.append((g.test, not hit[0]))
                elif hit[0] and hit[1]:
                    return None  # always stored again: the None never survives
        return out

    def block(stmts, stack, own=False):
        """own: the block is a branch of the `if` whose (test, polarity) ends the stack"""
        for i, st in enumerate(stmts):
            if isinstance(st, (ast.FunctionDef, ast.AsyncFunctionDef, ast.ClassDef)):
                continue
            for e in exprs_of(st):
                if not (isinstance(st, ast.If) and e is st.test):
                    ifexps(e, stack, st.lineno)
            if isinstance(st, ast.Assign) and is_none(st.value) and isinstance(st.targets[0], (ast.Subscript, ast.Name)):
                strong = isinstance(st.targets[0], ast.Subscript)
                ov = overrides(st.targets[0], stmts[i + 1:])
                if ov:  # `x = None` then `if T: x = live`  ==  `if T: x = live  else: x = None`
                    sites.append((stack + ov, st.lineno, strong))
                elif ov is not None and own:
                    sites.append((stack, st.lineno, strong))
            elif isinstance(st, ast.Return) and (st.value is None or is_none(st.value)) and own:
                sites.append((stack, st.lineno, False))
            if isinstance(st, ast.If):
                for br, pol in ((st.body, True), (st.orelse, False)):
                    block(br, stack + [(st.test, pol)], True)
                continue
            for fld in ("body", "orelse", "finalbody"):
                blk = getattr(st, fld, None)
                if isinstance(blk, list) and blk and isinstance(blk[0], ast.stmt):
                    block(blk, stack)
            for h in getattr(st, "handlers", []) or []:
                block(h.body, stack)

    block(fn_node.body, [])
    return sites


def _check_flatten(ctx, res, uj, fl):
    defaults = _truth_defaults(ctx, uj)
    ngates = 0
    for v in closure(ctx, fl):
        flow = flow_of(ctx, v)

        def atom_of(e):
            """`m:<member>` for truth(ui_json, name, "<member>") (or the equivalent form.get("<member>", <truth's default>))"""
            if isinstance(e, ast.Call) and call_name(e) == "truth":
                m = e.args[2] if len(e.args) == 3 else next((k.value for k in e.keywords if k.arg == "member"), None)
                if isinstance(m, ast.Constant) and isinstance(m.value, str):
                    return "m:" + m.value
                return None
            if isinstance(e, ast.Call) and call_name(e) == "get" and isinstance(e.func, ast.Attribute) and len(e.args) == 2 \
                    and isinstance(e.args[0], ast.Constant) and isinstance(e.args[1], ast.Constant) \
                    and e.args[0].value in defaults and defaults[e.args[0].value] == e.args[1].value:
                return "m:" + e.args[0].value
            return None

        def ctx_atom(e):
            return atom_of(e) or "?" + unparse(e)

        for conds, line, strong in _none_sites(v.node):
            where = f"{v.module.relpath}:{line}"
            own = flow.resolve(conds[-1][0], flow.node_of(conds[-1][0]))
            try:
                own_atoms, _ = bool_table(own, ctx_atom)
            except NotBoolean:  # pragma: no cover - ctx_atom accepts every leaf
                own_atoms = []
            if not any(a.startswith("m:") for a in own_atoms):
                if strong:
                    raise AnalysisError(f"{v.qualname}:{line}: None gate `{unparse(conds[-1][0])[:60]}` not recognised")
                continue  # some other conditional None, not the enabled gate
            # the condition under which None is produced: the gate's own test and the enclosing tests that consult form members
            parts = []
            for test, pol in conds:
                r = flow.resolve(test, flow.node_of(test))
                atoms, f = bool_table(r, ctx_atom)
                if test is conds[-1][0] or any(a.startswith("m:") for a in atoms):
                    parts.append((atoms, f, pol))
            atoms = list(dict.fromkeys(a for at, _, _ in parts for a in at))

            def none_when(env, parts=parts):
                return all(bool(f(env)) == pol for _, f, pol in parts)

            envs = list(assignments(atoms))
            members = [a[2:] for a in atoms if a.startswith("m:")]
            depends = [m for m in members if any(none_when(e) != none_when({**e, "m:" + m: not e["m:" + m]}) for e in envs)]
            others = [m for m in depends if m != "enabled"]
            ngates += 1
            if others or any(m != "enabled" for m in members):
                listed = [m for m in members]
                res.inst(f"flatten:{line} None gate depends on {listed}", nontrivial=True, ok=not others)
                if others:
                    res.find("utils", "flatten", f"the None gate also depends on the form member(s) {others}", where,
                             f"a disabled form flattens to None only when {others} also has a given state: disabled members of an optional group or "
                             "dependency-disabled forms come back with live values and are re-enabled on the next write")
                    continue
            ok = "enabled" in depends and not any(none_when(e) and e["m:enabled"] for e in envs)
            res.inst(f"flatten:{line} None stored iff not truth(.., 'enabled')", nontrivial=True, ok=ok)
            if not ok:
                res.find("utils", "flatten", f"None is stored under `{unparse(conds[-1][0])[:60]}`", where,
                         "the flattened value is None for enabled forms / live for disabled ones")
    if not ngates:
        raise AnalysisError("ui_json.utils.flatten: the branch storing None for disabled forms was not recognised")


def _key_is(sub, key) -> bool:
    return isinstance(sub, ast.Subscript) and isinstance(sub.slice, ast.Constant) and sub.slice.value == key


def rule_flat(ctx) -> RuleResult:
    res = RuleResult(
        "C14.FLAT",
        "C14",
        "(a) inf2str can emit every token str2inf reads back (both signs of infinity); (b) in flatten a form's value is "
        "None exactly when the form's own `enabled` state is false — the test depends on no other member of the form; "
        "(c) every validation_options.get(key, default) agrees with the default declared by the validation_options "
        "getter (the option InputFile.data saves and restores around flatten must be restored to what it was)",
        floor=5,
    )
    p = ctx.p
    pl = pipelines(ctx)
    uj = p.module("ui_json/utils.py")
    # (a) tokens
    i2s, s2i = _mapper(ctx, pl, "inf2str"), _mapper(ctx, pl, "str2inf")
    if i2s is None or s2i is None:
        raise AnalysisError("anchors shared.utils.inf2str / ui_json.utils.str2inf not found")
    iv = _view(ctx, i2s)
    prm = iv.params[0]
    rtok = {t for t in _recognised_tokens(ctx, s2i) if isinstance(t, str)}
    leaves = result_leaves(iv.node, flow_of(ctx, iv))

    def is_generic(leaf):
        """str(value) / repr(value) / format(value) / f"{value}": the token is whatever python prints for the float"""
        for c in ast.walk(leaf):
            if isinstance(c, ast.Call) and isinstance(c.func, ast.Name) and c.func.id in ("str", "repr", "format") and len(c.args) == 1 and mentions(c.args[0], prm):
                return True
            if isinstance(c, ast.FormattedValue) and c.format_spec is None and mentions(c.value, prm):
                return True
        return False

    generic = any(is_generic(l) for l in leaves)
    consts = set().union(*[str_constants(l) for l in leaves if not is_generic(l)]) if leaves else set()
    ok = generic or (rtok and rtok <= consts)
    res.inst(f"inf2str emits {'str(value)' if generic else sorted(consts)}; str2inf reads {sorted(rtok)}", nontrivial=True, ok=bool(ok))
    if not ok:
        res.find("utils", "inf2str", f"writer tokens {sorted(consts)} do not cover the reader's {sorted(rtok)}", i2s.where,
                 "one sign of infinity is written with the other's token (or not at all): -inf does not survive write -> read")
    # (b) flatten
    fl = uj.functions.get("flatten")
    if fl is None:
        raise AnalysisError("anchor ui_json.utils.flatten not found")
    _check_flatten(ctx, res, uj, fl)
    # (c) option defaults
    IF = p.cls("InputFile")
    vg = IF.props["validation_options"].getter
    defaults = {}
    for f in closure(ctx, vg):
        for n in ast.walk(f.node):
            if isinstance(n, ast.Dict) and n.keys and all(isinstance(k, ast.Constant) for k in n.keys):
                for k, v in zip(n.keys, n.values):
                    defaults[k.value] = unparse(v)
            elif isinstance(n, ast.Call) and isinstance(n.func, ast.Name) and n.func.id == "dict" and n.keywords and not n.args:
                for k in n.keywords:
                    if k.arg:
                        defaults[k.arg] = unparse(k.value)
    if "update_enabled" not in defaults:
        raise AnalysisError("InputFile.validation_options: default dictionary not found")
    nsite = 0
    for fn in p.all_functions():
        if not fn.module.relpath.startswith("geoh5py/ui_json"):
            continue
        if "validation_options" not in fn.module.source:
            continue
        v = ctx.view(fn, inline=False) if hasattr(ctx, "view") else fn
        flow = None
        for c in ast.walk(v.node):
            if isinstance(c, ast.Call) and isinstance(c.func, ast.Attribute) and c.func.attr == "get" \
                    and c.args and isinstance(c.args[0], ast.Constant) and c.args[0].value in defaults:
                recv = unparse(c.func.value)
                if not recv.endswith("validation_options") and isinstance(c.func.value, ast.Name):
                    flow = flow or flow_of(ctx, v)
                    recv = flow.text(c.func.value)  # a local alias of the options dictionary
                if not recv.endswith("validation_options"):
                    continue
                k = c.args[0].value
                d = unparse(c.args[1]) if len(c.args) > 1 else "None"
                ok = d == defaults[k]
                nsite += 1
                res.inst(f"{fn.qualname}:{c.lineno} validation_options.get({k!r}, {d}) vs declared default {defaults[k]}", nontrivial=True, ok=ok)
                if not ok:
                    res.find(fn.cls.name if fn.cls else "ui_json", fn.name, f"validation_options.get({k!r}, {d}) disagrees with the declared default {defaults[k]}",
                             f"{fn.module.relpath}:{c.lineno}",
                             f"when the caller's options omit {k!r}, this site assumes {d} while the option's documented default is {defaults[k]}: "
                             "after the first read of .data the enabled states stop following the values on write")
    if nsite < 1:
        raise AnalysisError("validation_options.get(...) sites not found")
    # save / restore around flatten in the data getter (or in a private helper / context manager extracted from it)
    dg = IF.props["data"].getter
    from ..cfg import CFG
    from ..kinds import reach

    def reads_option(e):
        """e reads the current update_enabled option: <options>.get("update_enabled", ..) / <options>["update_enabled"]"""
        for x in ast.walk(e):
            if isinstance(x, ast.Call) and call_name(x) == "get" and x.args and isinstance(x.args[0], ast.Constant) and x.args[0].value == "update_enabled":
                return True
            if _key_is(x, "update_enabled") and isinstance(x.ctx, ast.Load):
                return True
        return False

    any_saves = False
    checked = False
    for f in closure(ctx, dg):
        saved = {n.targets[0].id for n in ast.walk(f.node) if isinstance(n, ast.Assign) and isinstance(n.targets[0], ast.Name) and reads_option(n.value)}
        saved |= {n.target.id for n in ast.walk(f.node) if isinstance(n, ast.AnnAssign) and isinstance(n.target, ast.Name) and n.value is not None and reads_option(n.value)}
        any_saves = any_saves or bool(saved)
        g = CFG(f.node)

        def stores(n, pred):
            return isinstance(n.ast, ast.Assign) and any(_key_is(t, "update_enabled") for t in n.ast.targets) and pred(n.ast.value)

        offs = [n for n in g.nodes if stores(n, lambda v: isinstance(v, ast.Constant) and v.value is False)]
        if not offs:
            continue
        checked = True
        rest = lambda n: stores(n, lambda v: isinstance(v, ast.Name) and v.id in saved)  # noqa: E731
        ok = bool(saved) and all(g.exit not in reach(g, [m for m, _ in o.succ], avoid=rest) for o in offs)
        res.inst("InputFile.data: update_enabled switched off is restored to the saved value on every normal path", nontrivial=True, ok=ok)
        if not ok:
            res.find("InputFile", "data", "update_enabled is switched off and not restored", dg.where,
                     "after the first read of .data, writes no longer update the enabled states from the values")
            continue
        # ... and on the exceptional exits: whatever runs while the option is off (the flatten + data assignment of the getter,
        # the `yield` of a context manager wrapping them) can raise — then the restore must still be passed (try / finally,
        # except + re-raise); a call or yield outside any protecting block leaves the function with the option off
        def can_raise(n):
            if n.kind == "raise":
                return True
            return any(isinstance(x, (ast.Call, ast.Yield, ast.YieldFrom, ast.Await)) for part in Flow._parts(n) for x in ast.walk(part))

        leaks = []
        for o in offs:
            for n in reach(g, [m for m, _ in o.succ], avoid=rest):
                if n in (g.exit, g.rexit) or not can_raise(n):
                    continue
                exc = [m for m, lab in n.succ if lab in ("exc", "raise")]
                if not exc or g.rexit in exc or g.rexit in reach(g, exc, avoid=rest):
                    leaks.append(n)
        ok = not leaks
        res.inst("InputFile.data: update_enabled is also restored when the work done while it is off raises", nontrivial=True, ok=ok)
        if not ok:
            res.find("InputFile", "data", "update_enabled stays switched off when the work between switch-off and restore raises",
                     f"{f.module.relpath}:{min(n.lineno for n in leaks)}",
                     "an exception raised while the option is off (promotion / validation of the flattened data) leaves update_enabled False "
                     "on the input file: later writes no longer update the enabled states from the values")
    if any_saves and not checked:
        res.inst("InputFile.data: update_enabled switched off is restored to the saved value on every normal path", nontrivial=True, ok=False)
        res.find("InputFile", "data", "update_enabled is switched off and not restored", dg.where,
                 "after the first read of .data, writes no longer update the enabled states from the values")
    return res


# -------------------------------------------------------------------------------------------------------------- UPDATE
def _is_enabled_read(e) -> bool:
    """e reads a form's `enabled` member: form.get("enabled", ..) / form["enabled"] / truth(ui_json, name, "enabled")"""
    if isinstance(e, ast.Call) and call_name(e) == "get" and isinstance(e.func, ast.Attribute) and e.args \
            and isinstance(e.args[0], ast.Constant) and e.args[0].value == "enabled":
        return True
    if _key_is(e, "enabled") and isinstance(e.ctx, ast.Load):
        return True
    if isinstance(e, ast.Call) and call_name(e) == "truth":
        m = e.args[2] if len(e.args) == 3 else next((k.value for k in e.keywords if k.arg == "member"), None)
        return isinstance(m, ast.Constant) and m.value == "enabled"
    return False


def rule_update(ctx) -> RuleResult:
    res = RuleResult(
        "C14.UPDATE",
        "C14",
        "in InputFile.update_ui_values every normal path of one iteration either stores the given value (into the form / the "
        "ui_json entry) or has established that the form's `enabled` member, read AFTER set_enabled updated it, is false: a value "
        "(None included) may only be left unwritten for a form that ends up disabled",
        floor=2,
    )
    from ..kinds import reach

    p = ctx.p
    u = p.cls("InputFile").methods.get("update_ui_values")
    if u is None:
        raise AnalysisError("C14: anchor InputFile.update_ui_values not found")
    v = _view(ctx, u)
    flow = flow_of(ctx, v)
    g = flow.g
    dprm = next((x for x in v.params if x not in ("self", v.self_name)), None)
    if dprm is None:
        raise AnalysisError(f"{u.where}: update_ui_values takes no data argument")

    def keys_of(r, depth=0):
        """r enumerates the keys of the data argument (each once, in any order): data / data.keys() / list(..) / sorted(..) /
        a comprehension `[k for k in <keys> if ..]` / a concatenation of complementary selections of them"""
        if depth > 6:
            return False
        if unparse(r) == dprm:
            return True
        if isinstance(r, ast.Call):
            if isinstance(r.func, ast.Attribute) and r.func.attr == "keys" and not r.args and unparse(r.func.value) == dprm:
                return True
            if isinstance(r.func, ast.Name) and r.func.id in ("list", "tuple", "sorted", "reversed", "iter") and r.args:
                return keys_of(r.args[0], depth + 1)
        if isinstance(r, (ast.ListComp, ast.GeneratorExp)) and len(r.generators) == 1 and isinstance(r.elt, ast.Name) \
                and isinstance(r.generators[0].target, ast.Name) and r.generators[0].target.id == r.elt.id:
            return keys_of(r.generators[0].iter, depth + 1)
        if isinstance(r, ast.BinOp) and isinstance(r.op, ast.Add):
            return keys_of(r.left, depth + 1) and keys_of(r.right, depth + 1)
        return False

    def over_data(e, at):
        """'items' / 'keys' when the expression iterates the data argument"""
        r = flow.resolve(e, at)
        inner = r
        while isinstance(inner, ast.Call) and isinstance(inner.func, ast.Name) and inner.func.id in ("list", "tuple", "sorted", "iter") and len(inner.args) >= 1:
            inner = inner.args[0]
        if isinstance(inner, ast.Call) and isinstance(inner.func, ast.Attribute) and inner.func.attr == "items" and unparse(inner.func.value) == dprm:
            return "items"
        return "keys" if keys_of(r) else None

    loops = []  # (header node, key variable, value variable | None)
    for n in g.nodes:
        if n.kind != "fornext":
            continue
        st = n.stmt
        how = over_data(st.iter, next((h for h, _ in n.pred if h.kind == "foriter"), None))
        if how == "items" and isinstance(st.target, ast.Tuple) and len(st.target.elts) == 2 and all(isinstance(x, ast.Name) for x in st.target.elts):
            loops.append((n, st.target.elts[0].id, st.target.elts[1].id))
        elif how == "keys" and isinstance(st.target, ast.Name):
            loops.append((n, st.target.id, None))
    if not loops:
        raise AnalysisError(f"{u.where}: the loop over the given data was not recognised in update_ui_values")

    for header, keyvar, valvar in loops:
        def is_value(e, at):
            r = flow.resolve(e, at)
            if isinstance(r, ast.Name):
                return r.id == valvar
            return unparse(r) in (f"{dprm}[{keyvar}]", f"{dprm}.get({keyvar})")

        def stores(n):
            if n.kind != "stmt":
                return False
            a = n.ast
            if isinstance(a, (ast.Assign, ast.AnnAssign)) and a.value is not None:
                tgs = a.targets if isinstance(a, ast.Assign) else [a.target]
                return any(isinstance(t, ast.Subscript) for t in tgs) and is_value(a.value, n)
            if isinstance(a, ast.Expr) and isinstance(a.value, ast.Call) and call_name(a.value) in ("update", "__setitem__", "setdefault"):
                c = a.value
                cands = list(c.args) + [k.value for k in c.keywords] + [x for d in c.args if isinstance(d, ast.Dict) for x in d.values]
                return any(is_value(x, n) for x in cands)
            return False

        def kills(n):
            """the form's enabled state may change here: set_enabled(..) or a store into <form>["enabled"]"""
            parts = Flow._parts(n)
            if any(isinstance(c, ast.Call) and call_name(c) == "set_enabled" for part in parts for c in ast.walk(part)):
                return True
            return n.kind == "stmt" and isinstance(n.ast, ast.Assign) and any(_key_is(t, "enabled") for t in n.ast.targets)

        kill_nodes = [n for n in g.nodes if kills(n)]
        in_iter = {}

        def after(n):
            if n not in in_iter:
                in_iter[n] = reach(g, [m for m, _ in n.succ], avoid=lambda x: x is header)
            return in_iter[n]

        def stale(dn, t):
            return any(k is not dn and k in after(dn) and t in after(k) for k in kill_nodes)

        def fresh_test(t):
            """the test with locals replaced by their definitions, except enabled states read BEFORE the last set_enabled"""
            import copy

            def sub(e, at, depth=0):
                class R(ast.NodeTransformer):
                    def visit_Name(self, nm):
                        if isinstance(nm.ctx, ast.Load) and depth < 8:
                            d = flow.definition(nm, at)
                            if d is not None:
                                r = sub(copy.deepcopy(d[0]), d[1], depth + 1)
                                if any(_is_enabled_read(x) for x in ast.walk(r)) and stale(d[1], t):
                                    return nm
                                return r
                        return nm

                return R().visit(copy.deepcopy(e))

            return sub(t.ast, t)

        def disabled_on(t, label):
            """taking this edge of the test implies that a fresh read of the form's enabled member was false"""
            atoms, f = bool_table(fresh_test(t), lambda e: "E" if _is_enabled_read(e) else "?" + unparse(e))
            if "E" not in atoms:
                return False
            rows = [env for env in assignments(atoms) if bool(f(env)) == (label == "true")]
            return bool(rows) and all(not env["E"] for env in rows)

        seen, ends = set(), {}
        todo = [(m, False, False) for m, lab in header.succ if lab == "loop"]
        while todo:
            n, S, F = todo.pop()
            if (n, S, F) in seen:
                continue
            seen.add((n, S, F))
            if kills(n):
                F = False
            if stores(n):
                S = True
            if n in (g.exit,):
                ends.setdefault((n.lineno, S, F), n)
                continue
            if n is g.rexit:
                continue
            for m, lab in n.succ:
                if lab in ("exc", "raise"):
                    continue
                F2 = F or (n.kind == "test" and lab in ("true", "false") and disabled_on(n, lab))
                if m is header:
                    ends.setdefault((n.lineno, S, F2), n)
                else:
                    todo.append((m, S, F2))
        if not ends:
            raise AnalysisError(f"{u.where}: no iteration of the data loop reaches its end in update_ui_values")
        for (line, S, F), n in sorted(ends.items(), key=lambda kv: kv[0]):
            ok = S or F
            res.inst(f"update_ui_values: iteration ending at line {line}: value stored={S}, form known disabled={F}", nontrivial=True, ok=ok)
            if not ok:
                res.find("InputFile", "update_ui_values", "a value can be left unwritten while the form stays enabled", f"{v.module.relpath}:{line}",
                         "an iteration can end without storing the given value and without a test of the form's `enabled` member (read after "
                         "set_enabled) being false: None given to a parameter that stays enabled is not written, the file keeps the previous "
                         "value with enabled=true and reading it back yields that stale value instead of None")
    return res


# ------------------------------------------------------------------------------------------------------- kinds of values
def _annotation_classes(p, ann) -> list:
    out = []
    if ann is None:
        return out
    if isinstance(ann, ast.Constant) and isinstance(ann.value, str):
        try:
            ann = ast.parse(ann.value, mode="eval").body
        except SyntaxError:
            return out
    for x in ast.walk(ann):
        nm = x.id if isinstance(x, ast.Name) else (x.attr if isinstance(x, ast.Attribute) else None)
        cands = p.by_name.get(nm, []) if nm else []
        if len(cands) == 1 and cands[0] not in out:
            out.append(cands[0])
    return out


def _maximal(classes) -> list:
    return [c for c in classes if not any(o is not c and c.is_subclass_of(o) for o in classes)]


def produced_kinds(ctx, fn, _depth=0) -> list:
    """Kinds of values a read-side converter can return instead of its argument: None, UUID, the infinities (float(<token>)),
    an instance of a class it constructs, or — for values fetched from the workspace — the classes named by the return
    annotations of the accessors the returned expression goes through (get_entity -> Entity | PropertyGroup, ...)."""
    p = ctx.p
    v = _view(ctx, fn)
    flow = flow_of(ctx, v)
    prm = v.params[0] if v.params else None
    kinds, classes = [], []
    toks = [t for t in compared_tokens(v.node, prm, flow) if isinstance(t, str)] if prm else []
    for leaf in result_leaves(v.node, flow):
        if isinstance(leaf, ast.Name) and leaf.id == prm:
            continue
        if isinstance(leaf, ast.Constant):
            if leaf.value is None and "None" not in kinds:
                kinds.append("None")
            continue
        if isinstance(leaf, ast.Call):
            nm = call_name(leaf)
            r = p.resolve_expr(v.module, leaf.func) if isinstance(leaf.func, (ast.Name, ast.Attribute)) else None
            if r and r[0] == "class":
                classes.append(r[1])
                continue
            if nm == "UUID":
                if "UUID" not in kinds:
                    kinds.append("UUID")
                continue
            if nm == "float":
                for t, k in (("inf", "+inf"), ("-inf", "-inf")):
                    if t in toks and k not in kinds:
                        kinds.append(k)
                continue
            cands = p.by_name.get(nm, []) if nm else []
            if len(cands) == 1 and isinstance(leaf.func, ast.Name):
                classes.append(cands[0])
                continue
            # a helper of the package that builds the value (a call the normaliser leaves in place because it is evaluated
            # conditionally): what the helper can return is what the converter can return
            from ._c14_sem import _callee

            tgt = _callee(p, v, leaf)
            if tgt is None and r and r[0] == "func":
                tgt = r[1]
            if tgt is not None and tgt.node is not fn.node and _depth < 3:
                for k in produced_kinds(ctx, tgt, _depth + 1):
                    if isinstance(k, str):
                        if k not in kinds:
                            kinds.append(k)
                    else:
                        classes.append(k)
                continue
        for x in ast.walk(leaf):
            if isinstance(x, ast.Attribute):
                for ci in p.classes:
                    m = ci.own(x.attr)
                    if m and m[0] == "method":
                        classes += _annotation_classes(p, m[1].node.returns)
                    elif m and m[0] == "prop" and m[1].getter is not None:
                        classes += _annotation_classes(p, m[1].getter.node.returns)
    return kinds + _maximal(list(dict.fromkeys(classes)))


def _kind_eval(ctx):
    from ._c14_kinds import KindEval

    if "c14.kinds" not in ctx.cache:
        ctx.cache["c14.kinds"] = KindEval(ctx)
    return ctx.cache["c14.kinds"]


def _read_side_kinds(ctx, pl) -> list:
    """[(kind, reader name)] for every kind the read side (numify's mappers, promote's converters) produces"""
    out = []
    for owner in ("numify", "promote"):
        fn_ctx = pl[owner][1] or pl["numify"][1]
        for nm in dict.fromkeys(pl[owner][0]):
            rfn = _func(ctx.p, fn_ctx, nm) or _mapper(ctx, pl, nm)
            if rfn is None:
                continue
            got = produced_kinds(ctx, rfn)
            if owner == "promote" and not [k for k in got if not isinstance(k, str)]:
                raise AnalysisError(f"{rfn.where}: the kinds of entities {nm} returns could not be derived (no annotated accessor in what it returns)")
            for k in got:
                if all(k is not o and k != o for o, _ in out):
                    out.append((k, nm))
    return out


def rule_cover(ctx) -> RuleResult:
    from ._c14_kinds import PASS, kind_name

    res = RuleResult(
        "C14.COVER",
        "C14",
        "every kind of value the read side produces (None, infinities, UUID, Workspace, the entity classes promote fetches from the "
        "workspace) is converted again by the write side: followed through demote and then stringify — mapper tables or an explicit "
        "isinstance dispatch alike — a value of that kind is not handed to json.dump unchanged",
        floor=4,
    )
    pl = pipelines(ctx)
    ke = _kind_eval(ctx)
    demote, strfy = pl["demote"][1], pl["stringify"][1]
    for kind, reader in _read_side_kinds(ctx, pl):
        d = ke.sink(demote, kind)
        s = ke.sink(strfy, kind) if d == {PASS} else None
        ok = not (d == {PASS} and s == {PASS})
        res.inst(f"{kind_name(kind)} (from {reader}): demote {sorted(d)}" + (f", stringify {sorted(s)}" if s is not None else ""), nontrivial=True, ok=ok)
        if not ok:
            res.find("InputFile", "demote", f"values of kind {kind_name(kind)} produced by {reader} are written unchanged", demote.where,
                     f"{reader} turns an identifier / token read from the file into a {kind_name(kind)}; neither demote nor stringify converts a "
                     f"{kind_name(kind)} back: demote(promote(x)) != x for it and json.dump receives the object itself")
    return res


def rule_shadow(ctx) -> RuleResult:
    from ._c14_kinds import CHANGED, kind_name

    res = RuleResult(
        "C14.SHADOW",
        "C14",
        "in a write table the mappers run first to last on the same value: a value kind of the domain that one mapper converts "
        "(the infinities for inf2str, None for none2str, UUID for as_str_if_uuid, Workspace for workspace2path) must reach it — no "
        "earlier mapper of the table converts that kind (documented one-way mappers are not protected)",
        floor=6,
    )
    p = ctx.p
    pl = pipelines(ctx)
    ke = _kind_eval(ctx)
    base = ["None", "bool", "int", "float", "+inf", "-inf", "str", "UUID"]
    classes = [k for k, _ in _read_side_kinds(ctx, pl) if not isinstance(k, str)]
    for owner in ("demote", "stringify"):
        fn = pl[owner][1]
        for table in pl[owner].lists:
            fns = [(nm, _func(p, fn, nm) or _mapper(ctx, pl, nm)) for nm in table]
            # classes the mappers of this table test for are kinds too
            kinds = list(base) + classes
            for _nm, f in fns:
                if f is None:
                    continue
                for c in ast.walk(_view(ctx, f).node):
                    if isinstance(c, ast.Call) and call_name(c) == "isinstance" and len(c.args) == 2:
                        for t in (c.args[1].elts if isinstance(c.args[1], ast.Tuple) else [c.args[1]]):
                            r = p.resolve_expr(f.module, t) if isinstance(t, (ast.Name, ast.Attribute)) else None
                            if r and r[0] == "class" and all(r[1] is not k for k in kinds):
                                kinds.append(r[1])
            for j, (nm, f) in enumerate(fns):
                if f is None or nm in ONE_WAY:
                    continue
                mine = [k for k in kinds if ke.apply(f, k) == {CHANGED}]
                for i in range(j):
                    enm, ef = fns[i]
                    if ef is None or enm == nm:
                        continue
                    taken = [k for k in mine if ke.apply(ef, k) == {CHANGED}]
                    res.inst(f"{fn.qualname}: {enm} before {nm}: converts none of {[kind_name(k) for k in mine]}", nontrivial=True, ok=not taken)
                    if taken:
                        names = [kind_name(k) for k in taken]
                        res.find(fn.cls.name if fn.cls else "utils", fn.name, f"{enm} converts {names} before {nm} sees it", ef.where,
                                 f"{enm} runs before {nm} in the table of {fn.qualname} and converts values of kind {names} itself: they never reach "
                                 f"{nm}, are written with {enm}'s token and are not read back as the same value")
    return res


# -------------------------------------------------------------------------------------------------------------- ENABLE
def _member_read(e, member, own=None) -> bool:
    """e reads `member` of a form: form.get(member, ..) / form[member] / truth(ui_json, name, member); own(expr): the form wanted"""
    if isinstance(e, ast.Call) and call_name(e) == "get" and isinstance(e.func, ast.Attribute) and e.args \
            and isinstance(e.args[0], ast.Constant) and e.args[0].value == member:
        return own is None or own(e.func.value)
    if _key_is(e, member) and isinstance(e.ctx, ast.Load):
        return own is None or own(e.value)
    if isinstance(e, ast.Call) and call_name(e) == "truth":
        m = e.args[2] if len(e.args) == 3 else next((k.value for k in e.keywords if k.arg == "member"), None)
        return isinstance(m, ast.Constant) and m.value == member
    return False


def rule_enable(ctx) -> RuleResult:
    res = RuleResult(
        "C14.ENABLE",
        "C14",
        "set_enabled(ui_json, parameter, value) writes `value` into the parameter's own `enabled` member on every normal path on "
        "which the form is optional — whatever group or dependency the form also has: the enabled state written to the file "
        "follows the value given to an optional parameter",
        floor=1,
    )
    p = ctx.p
    u = p.cls("InputFile").methods.get("update_ui_values")
    se = (_func(p, u, "set_enabled") if u is not None else None) or p.module("ui_json/utils.py").functions.get("set_enabled")
    if se is None:
        raise AnalysisError("C14: anchor ui_json.utils.set_enabled not found")
    v = _view(ctx, se)
    if len(v.params) < 3:
        raise AnalysisError(f"{se.where}: set_enabled does not take (ui_json, parameter, value)")
    flow = flow_of(ctx, v)
    g = flow.g
    ui, prm, val = v.params[:3]

    def own(e):
        at = flow.node_of(e)
        return unparse(flow.resolve(e, at) if at is not None else e) == f"{ui}[{prm}]"

    def stores(n):
        if n.kind != "stmt":
            return False
        a = n.ast
        if isinstance(a, ast.Assign):
            return any(_key_is(t, "enabled") and own(t.value) for t in a.targets) and mentions(flow.resolve(a.value, n), val)
        if isinstance(a, ast.Expr) and isinstance(a.value, ast.Call) and call_name(a.value) == "update" and isinstance(a.value.func, ast.Attribute) \
                and own(a.value.func.value):
            c = a.value
            pairs = [(k.arg, k.value) for k in c.keywords] + [(kk.value, vv) for d in c.args if isinstance(d, ast.Dict)
                                                             for kk, vv in zip(d.keys, d.values) if isinstance(kk, ast.Constant)]
            return any(k == "enabled" and mentions(flow.resolve(x, n), val) for k, x in pairs)
        return False

    def feasible(n, label):
        """can the test take this edge when the form's `optional` member is true?"""
        if n.kind != "test" or label not in ("true", "false"):
            return True
        try:
            atoms, f = bool_table(flow.resolve(n.ast, n), lambda e: "O" if _member_read(e, "optional", own_resolved) else "?" + unparse(e))
        except NotBoolean:  # pragma: no cover
            return True
        if "O" not in atoms:
            return True
        return any(bool(f(env)) == (label == "true") for env in assignments(atoms) if env["O"])

    def own_resolved(e):
        return unparse(e) == f"{ui}[{prm}]"

    store_nodes = [n for n in g.nodes if stores(n)]
    seen, todo, escapes = set(), [g.entry], False
    while todo:
        n = todo.pop()
        if n in seen or n in store_nodes:
            continue
        seen.add(n)
        if n is g.exit:
            escapes = True
            continue
        for m, lab in n.succ:
            if lab in ("exc", "raise") or m is g.rexit:
                continue
            if feasible(n, lab):
                todo.append(m)
    ok = bool(store_nodes) and not escapes
    res.inst(f"set_enabled: {len(store_nodes)} store(s) of the value into the form's own enabled member; an optional form can return without one: {escapes}",
             nontrivial=True, ok=ok)
    if not ok:
        res.find("utils", "set_enabled", "an optional form can leave set_enabled without its own enabled member written", se.where,
                 "for a form that is optional (and also has a group / a dependency) a path through set_enabled does not store the given state into "
                 "ui_json[parameter]['enabled']: the parameter receives a value but is written with its stale enabled flag, and reads back as None "
                 "(or stays enabled with an empty value)")
    return res


def rule_total(ctx) -> RuleResult:
    res = RuleResult(
        "C14.TOTAL",
        "C14",
        "the write mappers are total on integers: followed with a Python int as the value, no mapper of a write table hands it "
        "to a floating-point finiteness predicate (np.isfinite / isnan / isinf, math.*) — numpy cannot coerce an int beyond 64 "
        "bits and math overflows beyond the floats, so write_ui_json would raise instead of writing the integer",
        floor=4,
    )
    p = ctx.p
    pl = pipelines(ctx)
    ke = _kind_eval(ctx)
    for owner in ("demote", "stringify"):
        fn = pl[owner][1]
        for nm in dict.fromkeys(n for table in pl[owner].lists for n in table):
            f = _func(p, fn, nm) or _mapper(ctx, pl, nm)
            if f is None and fn.cls is not None and fn.cls.lookup(nm) and fn.cls.lookup(nm)[1] == "method":
                f = fn.cls.lookup(nm)[2]
            if f is None:
                continue
            ke.apply(f, "int")
            hits = [(line, pred) for (view, line, pred) in ke.partial.values() if view.node is _view(ctx, f).node]
            res.inst(f"{fn.qualname}: {nm} applied to an int: finiteness predicates reached: {sorted(set(x[1] for x in hits))}", nontrivial=True, ok=not hits)
            if hits:
                line, preds = min(x[0] for x in hits), sorted(set(x[1] for x in hits))
                res.find("utils" if f.cls is None else f.cls.name, f.name, "a floating-point finiteness predicate is applied to a Python int",
                         f"{f.module.relpath}:{line}",
                         f"{nm} passes every int to {'/'.join(preds)}: for an integer parameter that does not fit 64 bits the predicate raises "
                         "(TypeError from numpy, OverflowError from math) and write_ui_json fails instead of writing the value")
    return res


def rule_valid(ctx) -> RuleResult:
    res = RuleResult(
        "C14.VALID",
        "C14",
        "InputFile.numify validates a form AFTER its members went through the read mappers: what the form validators see is the "
        "numified form (None, not the '' None is written as), so that every form that could be written can be read back",
        floor=1,
    )
    from ..cfg import dominators

    p = ctx.p
    nf = p.cls("InputFile").methods.get("numify")
    if nf is None:
        raise AnalysisError("C14: anchor InputFile.numify not found")
    v = _view(ctx, nf)
    flow = flow_of(ctx, v)
    g = flow.g
    dom = None
    nsite = 0
    for n in g.nodes:
        for part in Flow._parts(n):
            for c in ast.walk(part):
                if not (isinstance(c, ast.Call) and call_name(c) in ("ui_validation", "_ui_validators") and c.args):
                    continue
                nsite += 1
                arg = c.args[0]
                r = flow.resolve(arg, n)
                ok = isinstance(r, ast.Call) and call_name(r) == "numify"
                if not ok and isinstance(arg, ast.Name):
                    # numified in place by an earlier statement on every path: numify(<the same local>) dominates the validation
                    dom = dom or dominators(g)
                    ok = any(d is not n and any(isinstance(x, ast.Call) and call_name(x) == "numify" and x.args and unparse(x.args[0]) == arg.id
                                                for prt in Flow._parts(d) for x in ast.walk(prt)) for d in dom.get(n, ()))
                res.inst(f"numify:{c.lineno} form validated after it was numified", nontrivial=True, ok=ok)
                if not ok:
                    res.find("InputFile", "numify", "a form is validated before its members are numified", f"{v.module.relpath}:{c.lineno}",
                             "the form validators run on the raw strings of the file: a bool-or-None member (optional / enabled / main) that was None "
                             "is written as '' and rejected as a str when the file is read (templates.drillhole_group_data writes \"optional\": None)")
    if not nsite:
        res.inst("numify: no form validation call (validation happens elsewhere)")
    return res


# ------------------------------------------------------------------------------------------------ SETVALUE / FRESH / ORDER
def rule_setvalue(ctx) -> RuleResult:
    res = RuleResult(
        "C14.SETVALUE",
        "C14",
        "InputFile.set_data_value(key, value) puts the value into BOTH views of the input file on every normal path: the flat data "
        "cache (self.data[key] = value) and the form (update_ui_values / a store into the form) — write_ui_json re-synchronises "
        "every form from the cache, so a value that reached only the form is overwritten by the stale cache entry at the next write",
        floor=2,
    )
    from ..kinds import reach

    p = ctx.p
    fn = p.cls("InputFile").methods.get("set_data_value")
    if fn is None:
        raise AnalysisError("C14: anchor InputFile.set_data_value not found")
    v = _view(ctx, fn)
    flow = flow_of(ctx, v)
    g = flow.g
    sn = v.self_name
    ps = [x for x in v.params if x != sn]
    if len(ps) < 2:
        raise AnalysisError(f"{fn.where}: set_data_value does not take (key, value)")
    keyp, valp = ps[0], ps[1]

    def is_val(e, at):
        return unparse(flow.resolve(e, at)) == valp

    def is_key(e, at):
        return unparse(flow.resolve(e, at)) == keyp

    def is_cache(e, at):
        return unparse(flow.resolve(e, at)) in (f"{sn}.data", f"{sn}._data")

    def cache_store(n):
        if n.kind != "stmt":
            return False
        a = n.ast
        if isinstance(a, ast.Assign):
            return any(isinstance(t, ast.Subscript) and is_cache(t.value, n) and is_key(t.slice, n) for t in a.targets) and is_val(a.value, n)
        if isinstance(a, ast.Expr) and isinstance(a.value, ast.Call) and isinstance(a.value.func, ast.Attribute) and is_cache(a.value.func.value, n):
            c = a.value
            if c.func.attr == "__setitem__" and len(c.args) == 2:
                return is_key(c.args[0], n) and is_val(c.args[1], n)
            if c.func.attr == "update":
                return any(isinstance(d, ast.Dict) and any(kk is not None and is_key(kk, n) and is_val(vv, n) for kk, vv in zip(d.keys, d.values))
                           for d in [flow.resolve(x, n) for x in c.args])
        return False

    def form_store(n):
        for part in Flow._parts(n):
            for c in ast.walk(part):
                if isinstance(c, ast.Call) and call_name(c) == "update_ui_values" and c.args:
                    d = flow.resolve(c.args[0], n)
                    if isinstance(d, ast.Dict) and any(kk is not None and unparse(kk) == keyp and unparse(vv) == valp for kk, vv in zip(d.keys, d.values)):
                        return True
        if n.kind == "stmt" and isinstance(n.ast, ast.Assign) and is_val(n.ast.value, n):
            for t in n.ast.targets:  # self.ui_json[key][member] = value
                if isinstance(t, ast.Subscript) and isinstance(t.value, ast.Subscript) and "ui_json" in unparse(flow.resolve(t.value.value, n)) \
                        and is_key(t.value.slice, n):
                    return True
        return False

    for what, pred, construct, msg in (
        ("the data cache", cache_store, "the value does not reach the data cache on every normal path",
         "set_data_value updates the form but leaves self.data[key] stale: write_ui_json starts by re-synchronising the forms from the cache and "
         "writes the OLD value and enabled state"),
        ("the form", form_store, "the value does not reach the form on every normal path",
         "set_data_value updates the cache but not the form (no update_ui_values for the key): enabled / isValue / value of the form lag behind the data"),
    ):
        nodes = [n for n in g.nodes if pred(n)]
        seen = reach(g, [m for m, lab in g.entry.succ], avoid=lambda n, nodes=nodes: n in nodes)
        ok = bool(nodes) and g.exit not in seen
        res.inst(f"set_data_value: {len(nodes)} store(s) of the value into {what}; a normal path avoids them: {g.exit in seen}", nontrivial=True, ok=ok)
        if not ok:
            res.find("InputFile", "set_data_value", construct, fn.where, msg)
    return res


_MUTABLE_CALLS = {"dict", "list", "set", "defaultdict", "OrderedDict"}
_COPIERS = {"dict", "list", "set", "copy", "deepcopy", "tuple", "frozenset"}


def _shared_container(p, fn, e):
    """Name of the module- / class-level mutable container the expression denotes BY REFERENCE (not a copy of it), else None."""
    def mutable(v):
        return isinstance(v, (ast.Dict, ast.List, ast.Set, ast.DictComp, ast.ListComp, ast.SetComp)) or \
            (isinstance(v, ast.Call) and isinstance(v.func, ast.Name) and v.func.id in _MUTABLE_CALLS)

    if isinstance(e, ast.Name) and e.id not in fn.params:
        r = p.resolve_name(fn.module, e.id)
        if r and r[0] == "assign" and mutable(r[1][1]):
            return e.id
    if isinstance(e, ast.Attribute) and isinstance(e.value, ast.Name):
        owner = None
        if fn.cls is not None and e.value.id in ("self", "cls", fn.self_name):
            owner = fn.cls
        else:
            r = p.resolve_name(fn.module, e.value.id)
            owner = r[1] if r and r[0] == "class" else None
        if owner is not None:
            m = owner.lookup(e.attr)
            if m and m[1] == "assign" and m[2] is not None and mutable(m[2]):
                return f"{m[0].name}.{e.attr}"
    if isinstance(e, ast.Call) and isinstance(e.func, ast.Attribute) and e.func.attr in ("get", "setdefault", "pop") and len(e.args) == 2:
        return _shared_container(p, fn, e.args[1])  # d.get(k, <shared default>)
    if isinstance(e, ast.IfExp):
        return _shared_container(p, fn, e.body) or _shared_container(p, fn, e.orelse)
    if isinstance(e, ast.BoolOp):
        for x in e.values:
            nm = _shared_container(p, fn, x)
            if nm:
                return nm
    return None


def rule_fresh(ctx) -> RuleResult:
    res = RuleResult(
        "C14.FRESH",
        "C14",
        "what a property getter of InputFile installs on the instance or hands out is never a module-level or class-level mutable "
        "container by reference: the options / rules dictionaries are updated in place (the data getter switches "
        "validation_options['update_enabled'] off and on), a default shared by reference would carry one input file's state into "
        "how every other input file writes its enabled flags",
        floor=2,
    )
    p = ctx.p
    IF = p.cls("InputFile")
    if "validation_options" not in IF.props or IF.props["validation_options"].getter is None:
        raise AnalysisError("C14: anchor InputFile.validation_options getter not found")
    for name, pr in sorted(IF.props.items()):
        if pr.getter is None or pr.getter.cls is not IF:
            continue
        # hoisted constants are NOT substituted here: whether the object is the hoisted one or a copy of it is the question
        for f0 in raw_closure(p, pr.getter):
            f = ctx.view(f0, inline=False, consts=False) if hasattr(ctx, "view") else f0
            flow = flow_of(ctx, f)
            sn = f.self_name
            for n in flow.g.nodes:
                vals = []
                if n.kind == "stmt" and isinstance(n.ast, (ast.Assign, ast.AnnAssign)) and n.ast.value is not None:
                    tgs = n.ast.targets if isinstance(n.ast, ast.Assign) else [n.ast.target]
                    if any(isinstance(t, ast.Attribute) and isinstance(t.value, ast.Name) and t.value.id == sn for t in tgs):
                        vals.append(n.ast.value)
                elif n.kind == "return" and n.ast is not None:
                    vals.append(n.ast)
                for val in vals:
                    nm = _shared_container(p, f, flow.resolve(val, n))
                    res.inst(f"InputFile.{name} ({f.qualname}:{n.lineno}): `{unparse(val)[:40]}` is not a shared mutable default", nontrivial=True, ok=nm is None)
                    if nm:
                        res.find("InputFile", name, f"the shared container `{nm}` is handed out by reference", f"{f.module.relpath}:{n.lineno}",
                                 f"`{nm}` is created once (module / class level) and becomes the instance's {name} without a copy: an in-place update on one "
                                 "InputFile (validation_options['update_enabled'] = False) changes how every other InputFile writes its enabled states")
    return res


def rule_order(ctx) -> RuleResult:
    res = RuleResult(
        "C14.ORDER",
        "C14",
        "write_ui_json writes the parameters in the order of ui_json: json.dump is not asked to sort the keys and what it is given is "
        "not re-ordered (sorted / reversed) — update_ui_values and set_enabled act in dictionary order (a group switch overwrites the "
        "flags of its members), so a file written in another order yields other enabled states at the next write",
        floor=1,
    )
    p = ctx.p
    w = p.cls("InputFile").methods.get("write_ui_json")
    if w is None:
        raise AnalysisError("C14: anchor InputFile.write_ui_json not found")
    n = 0
    for f in closure(ctx, w):
        flow = flow_of(ctx, f)
        for c in ast.walk(f.node):
            if not (isinstance(c, ast.Call) and call_name(c) in ("dump", "dumps") and c.args and (isinstance(c.func, ast.Name) or unparse(c.func.value) == "json")):
                continue
            n += 1
            at = flow.node_of(c)
            sk = next((k.value for k in c.keywords if k.arg == "sort_keys"), None)
            skr = flow.resolve(sk, at) if sk is not None and at is not None else sk
            sorts = sk is not None and not (isinstance(skr, ast.Constant) and not skr.value)
            arg = flow.resolve(c.args[0], at) if at is not None else c.args[0]
            reorders = any(isinstance(x, ast.Call) and isinstance(x.func, ast.Name) and x.func.id in ("sorted", "reversed") for x in ast.walk(arg))
            ok = not (sorts or reorders)
            res.inst(f"{f.qualname}:{c.lineno} json.{call_name(c)} keeps the order of the parameters", nontrivial=True, ok=ok)
            if not ok:
                res.find("InputFile", "write_ui_json", "the parameters are written in another order than they have in ui_json", f"{f.module.relpath}:{c.lineno}",
                         "the file lists the parameters sorted / re-ordered: the input file read from it iterates in that order, and because a group switch "
                         "handled after an optional member overwrites the member's enabled flag, the next write gives other enabled states and values")
    if not n:
        raise AnalysisError(f"{w.where}: no json.dump call found in write_ui_json")
    return res


RULES = [rule_inv, rule_collide, rule_flat, rule_update, rule_cover, rule_shadow, rule_enable, rule_total, rule_valid,
         rule_setvalue, rule_fresh, rule_order]
