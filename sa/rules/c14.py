"""C14 — ui.json round trip: mapper tables of the write and read pipelines are inverse; sentinel collisions."""

from __future__ import annotations

import ast

from ..model import AnalysisError, unparse
from ..report import RuleResult

EXTRA_PAIRS = {"as_str_if_uuid": "str2uuid"}  # pairs not following the a2b / b2a naming
ONE_WAY = {
    "nan2str": "documented exception: NaN is not a ui.json value (written as '', read back as None)",
    "container_group2name": "shadowed by entity2uuid, which runs first: a ContainerGroup has a uid and is demoted to it",
}


def _inverse_name(name: str) -> str | None:
    if name in EXTRA_PAIRS:
        return EXTRA_PAIRS[name]
    for k, v in EXTRA_PAIRS.items():
        if v == name:
            return k
    if "2" in name:
        a, b = name.split("2", 1)
        return f"{b}2{a}"
    return None


def mapper_list(p, fn):
    """Names in the `mappers = [...]` list literal of a function (List/Tuple of names, or a module constant)."""
    # the mapper list: the local that is handed to dict_mapper(...) (or iterated), whatever it is called
    used = set()
    for c in ast.walk(fn.node):
        if isinstance(c, ast.Call) and (getattr(c.func, "id", None) == "dict_mapper" or getattr(c.func, "attr", None) == "dict_mapper"):
            used |= {a.id for a in c.args if isinstance(a, ast.Name)} | {k.value.id for k in c.keywords if isinstance(k.value, ast.Name)}
    for n in ast.walk(fn.node):
        if isinstance(n, ast.Assign) and any(isinstance(t, ast.Name) and (t.id == "mappers" or t.id in used) for t in n.targets) \
                and (isinstance(n.value, (ast.List, ast.Tuple)) or (isinstance(n.value, ast.Name) and n.value.id.isupper())):
            v = n.value
            if isinstance(v, ast.Name):
                r = p.resolve_name(fn.module, v.id)
                if r and r[0] == "assign":
                    v = r[1][1]
            if isinstance(v, (ast.List, ast.Tuple)) and all(isinstance(e, ast.Name) for e in v.elts):
                return [e.id for e in v.elts], n
            raise AnalysisError(f"{fn.where}: unrecognised `mappers` initialiser {unparse(v)[:60]}")
    raise AnalysisError(f"{fn.where}: no `mappers = [...]` found in {fn.qualname}")


def pipelines(ctx):
    p = ctx.p
    IF = p.cls("InputFile")
    demote = IF.methods.get("demote")
    numify = IF.methods.get("numify")
    strfy = p.module("shared/utils.py").functions.get("stringify")
    if not (demote and numify and strfy):
        raise AnalysisError("C14: anchors InputFile.demote / numify / shared.utils.stringify not found")
    d, dn = mapper_list(p, demote)
    s, sn = mapper_list(p, strfy)
    r, rn = mapper_list(p, numify)
    promo = IF.methods.get("_uid_promotion")
    pr = [c.func.id for c in ast.walk(promo.node) if isinstance(c, ast.Call) and isinstance(c.func, ast.Name) and c.func.id.startswith("uuid2")] if promo else []
    return {"demote": (d, demote, dn), "stringify": (s, strfy, sn), "numify": (r, numify, rn), "promote": (pr, promo, None)}


def _func(p, fn_ctx, name):
    r = p.resolve_name(fn_ctx.module, name)
    return r[1] if r and r[0] == "func" else None


def rule_inv(ctx) -> RuleResult:
    res = RuleResult(
        "C14.INV",
        "C14",
        "the write pipeline (demote then stringify) and the read pipeline (numify, promote) are inverse as tables: "
        "every write mapper has its inverse on the read side and vice versa, ordering constraints hold, literal tokens agree",
        floor=10,
    )
    p = ctx.p
    pl = pipelines(ctx)
    W = pl["demote"][0] + pl["stringify"][0]
    Rd = pl["numify"][0] + pl["promote"][0]
    for side, names, other, what in (("write", W, Rd, "read"), ("read", Rd, W, "write")):
        for nm in dict.fromkeys(names):
            if nm in ONE_WAY:
                res.inst(f"{side} mapper {nm}: one-way by design")
                if f"{nm}: {ONE_WAY[nm]}" not in res.notes:
                    res.notes.append(f"{nm}: {ONE_WAY[nm]}")
                continue
            inv = _inverse_name(nm)
            ok = inv is not None and inv in other
            res.inst(f"{side} mapper {nm} <-> {inv} on the {what} side", ok=ok)
            if not ok:
                owner = next(k for k, v in pl.items() if nm in v[0])
                fn = pl[owner][1]
                res.find(fn.cls.name if fn.cls else "utils", fn.name, f"{side} mapper {nm} has no inverse {inv} in the {what} pipeline", fn.where,
                         f"values converted by {nm} when {'writing' if side == 'write' else 'reading'} a ui.json are not converted back "
                         f"when {'reading' if side == 'write' else 'writing'} it")
    # ordering in demote
    d = pl["demote"][0]
    fn = pl["demote"][1]
    if "entity2uuid" in d and "as_str_if_uuid" in d:
        ok = d.index("entity2uuid") < d.index("as_str_if_uuid")
        res.inst("demote: entity2uuid before as_str_if_uuid", ok=ok)
        if not ok:
            res.find("InputFile", "demote", "as_str_if_uuid runs before entity2uuid", fn.where,
                     "entities are demoted to raw UUID objects that json cannot serialise / are not wrapped in braces")
    if "container_group2name" in d and "entity2uuid" in d:
        ok = d.index("entity2uuid") < d.index("container_group2name")
        res.inst("demote: container_group2name after entity2uuid (shadowed)", ok=ok)
        if not ok:
            res.find("InputFile", "demote", "container_group2name runs before entity2uuid", fn.where,
                     "container groups are written by name and cannot be promoted back to the same entity")
    # nesting order in write_ui_json: stringify(demote(x))
    w = p.cls("InputFile").methods.get("write_ui_json")
    nest = [c for c in ast.walk(w.node) if isinstance(c, ast.Call) and isinstance(c.func, ast.Attribute) and c.func.attr == "stringify"
            and c.args and isinstance(c.args[0], ast.Call) and isinstance(c.args[0].func, ast.Attribute) and c.args[0].func.attr == "demote"]
    ok = bool(nest)
    res.inst("write_ui_json: json.dump(stringify(demote(ui_json)))", ok=ok)
    if not ok:
        res.find("InputFile", "write_ui_json", "write pipeline is not stringify(demote(...))", w.where,
                 "entities / workspaces reach json.dump undemoted or None/inf unstringified")
    # read: the ui_json setter numifies every assignment
    st = p.cls("InputFile").props["ui_json"].setter
    ok = any(isinstance(c, ast.Call) and isinstance(c.func, ast.Attribute) and c.func.attr == "numify" for c in ast.walk(st.node))
    res.inst("InputFile.ui_json setter applies numify", ok=ok)
    if not ok:
        res.find("InputFile", "ui_json", "setter does not numify", st.where, "strings written for None / inf / uuids are not converted back on load")
    # tokens
    um = p.module("shared/utils.py")
    uj = p.module("ui_json/utils.py")
    n2s, s2n = um.functions.get("none2str"), um.functions.get("str2none")
    if n2s and s2n:
        wtok = {r.value.value for r in ast.walk(n2s.node) if isinstance(r, ast.Return) and isinstance(r.value, ast.Constant) and isinstance(r.value.value, str)}
        rtok = {c.comparators[0].value for c in ast.walk(s2n.node) if isinstance(c, ast.Compare) and isinstance(c.comparators[0], ast.Constant)}
        ok = wtok == rtok and len(wtok) == 1
        res.inst(f"none2str writes {sorted(wtok)}, str2none reads {sorted(rtok)}", ok=ok)
        if not ok:
            res.find("utils", "none2str", f"token mismatch {sorted(wtok)} vs {sorted(rtok)}", n2s.where, "None is written as a token the reader does not map back")
    s2i = uj.functions.get("str2inf")
    if s2i:
        toks = {e.value for n in ast.walk(s2i.node) if isinstance(n, (ast.List, ast.Tuple, ast.Set)) for e in n.elts if isinstance(e, ast.Constant)}
        ok = {"inf", "-inf"} <= toks
        res.inst(f"str2inf accepts {sorted(toks)} (str(float('inf')), str(float('-inf')))", ok=ok)
        if not ok:
            res.find("utils", "str2inf", f"tokens {sorted(toks)} miss 'inf'/'-inf'", s2i.where, "an infinity written by inf2str stays a string after reading")
    return res


def rule_collide(ctx) -> RuleResult:
    res = RuleResult(
        "C14.COLLIDE",
        "C14",
        "a write mapper that turns a non-string into a string while strings pass through unescaped, paired with a read "
        "mapper that recognises that string unconditionally, makes the encoding non-injective (reported per pair)",
        floor=4,
    )
    p = ctx.p
    pl = pipelines(ctx)
    um = p.module("shared/utils.py")
    for rname in dict.fromkeys(pl["numify"][0]):
        owner = pl["numify"][1]
        rfn = _func(p, owner, rname)
        if rfn is None:
            continue
        prm = rfn.params[0]
        # the reader recognises strings by value: == "tok" / in ["tok", ...] / is_uuid(value) / suffix test
        recog = []
        for n in ast.walk(rfn.node):
            if isinstance(n, ast.Compare) and unparse(n.left) == prm and isinstance(n.ops[0], (ast.Eq, ast.In)):
                recog.append(unparse(n))
            if isinstance(n, ast.Call) and isinstance(n.func, ast.Name) and n.func.id == "is_uuid":
                recog.append(unparse(n))
            if isinstance(n, ast.Compare) and "suffix" in unparse(n.left):
                recog.append(unparse(n))
        wname = _inverse_name(rname)
        wfn = _func(p, pl["demote"][1], wname) or _func(p, pl["stringify"][1], wname) if wname else None
        if not recog or wfn is None:
            res.inst(f"{rname}: no value-based recognition of strings")
            continue
        # does the writer escape genuine strings?  (it must transform str inputs to be injective)
        wprm = wfn.params[0]
        passes_through = any(isinstance(r, ast.Return) and unparse(r.value) == wprm for r in ast.walk(wfn.node))
        escapes = any(isinstance(n, ast.Call) and isinstance(n.func, ast.Name) and n.func.id == "isinstance" and unparse(n.args[0]) == wprm
                      and "str" in unparse(n.args[1]) for n in ast.walk(wfn.node))
        collide = passes_through and not escapes
        res.inst(f"{wname} / {rname}: reader recognises {recog[0]}; writer escapes strings: {escapes}", nontrivial=True, ok=not collide)
        if collide:
            res.find("ui_json", f"{wname}/{rname}", f"sentinel collision: {rname} recognises {recog[0]}", rfn.where,
                     f"{wname} maps a non-string to a string and lets genuine strings through unchanged, {rname} maps every string "
                     f"satisfying `{recog[0]}` back: a string parameter with such a value does not round-trip")
    return res


def rule_flat(ctx) -> RuleResult:
    res = RuleResult(
        "C14.FLAT",
        "C14",
        "(a) inf2str can emit every token str2inf reads back (both signs of infinity); (b) in flatten a form's value is "
        "None exactly when the form's own `enabled` state is false — the test depends on no other member of the form; "
        "(c) every validation_options.get(key, default) agrees with the default declared by the validation_options "
        "getter (the option InputFile.data saves and restores around flatten must be restored to what it was)",
        floor=5,
    )
    p = ctx.p
    um = p.module("shared/utils.py")
    uj = p.module("ui_json/utils.py")
    # (a) tokens
    i2s, s2i = um.functions.get("inf2str"), uj.functions.get("str2inf")
    if i2s is None or s2i is None:
        raise AnalysisError("anchors shared.utils.inf2str / ui_json.utils.str2inf not found")
    prm = i2s.params[0]
    rtok = {e.value for n in ast.walk(s2i.node) if isinstance(n, (ast.List, ast.Tuple, ast.Set)) for e in n.elts if isinstance(e, ast.Constant)}
    generic = any(isinstance(c, ast.Call) and isinstance(c.func, ast.Name) and c.func.id in ("str", "repr") and c.args and unparse(c.args[0]) == prm
                  for r in ast.walk(i2s.node) if isinstance(r, ast.Return) and r.value is not None for c in ast.walk(r.value))
    consts = {c.value for r in ast.walk(i2s.node) if isinstance(r, ast.Return) and r.value is not None for c in ast.walk(r.value)
              if isinstance(c, ast.Constant) and isinstance(c.value, str)}
    ok = generic or (rtok and rtok <= consts)
    res.inst(f"inf2str emits {'str(value)' if generic else sorted(consts)}; str2inf reads {sorted(rtok)}", nontrivial=True, ok=bool(ok))
    if not ok:
        res.find("utils", "inf2str", f"writer tokens {sorted(consts)} do not cover the reader's {sorted(rtok)}", i2s.where,
                 "one sign of infinity is written with the other's token (or not at all): -inf does not survive write -> read")
    # (b) flatten
    fl = uj.functions.get("flatten")
    if fl is None:
        raise AnalysisError("anchor ui_json.utils.flatten not found")

    def is_none_store(st):
        return isinstance(st, ast.Assign) and isinstance(st.targets[0], ast.Subscript) and isinstance(st.value, ast.Constant) and st.value.value is None

    def truth_member(e, aliases):
        """member name if e is truth(ui_json, name, "<member>") or a local bound to it"""
        if isinstance(e, ast.Name) and e.id in aliases:
            e = aliases[e.id]
        if isinstance(e, ast.Call) and getattr(e.func, "id", None) == "truth" and len(e.args) == 3 and isinstance(e.args[2], ast.Constant):
            return e.args[2].value
        return None

    aliases = {}
    for n in ast.walk(fl.node):
        if isinstance(n, ast.Assign) and len(n.targets) == 1 and isinstance(n.targets[0], ast.Name) and isinstance(n.value, ast.Call) and getattr(n.value.func, "id", None) == "truth":
            aliases[n.targets[0].id] = n.value
    gates = [n for n in ast.walk(fl.node) if isinstance(n, ast.If) and (any(is_none_store(s) for s in n.body) or any(is_none_store(s) for s in n.orelse))]
    if not gates:
        raise AnalysisError("ui_json.utils.flatten: the branch storing None for disabled forms was not recognised")
    for gt in gates:
        none_in_body = any(is_none_store(s) for s in gt.body)
        t = gt.test
        neg = False
        while isinstance(t, ast.UnaryOp) and isinstance(t.op, ast.Not):
            neg = not neg
            t = t.operand
        m = truth_member(t, aliases)
        if m is not None:
            ok = m == "enabled" and (neg == none_in_body)
            res.inst(f"flatten:{gt.lineno} None stored iff not truth(.., 'enabled')", nontrivial=True, ok=ok)
            if not ok:
                res.find("utils", "flatten", f"None is stored under `{unparse(gt.test)[:60]}`", f"{uj.relpath}:{gt.lineno}",
                         "the flattened value is None for enabled forms / live for disabled ones")
        elif isinstance(t, ast.BoolOp):
            ms = [truth_member(v.operand if isinstance(v, ast.UnaryOp) else v, aliases) for v in t.values]
            if all(x is not None for x in ms):
                others = [x for x in ms if x != "enabled"]
                res.inst(f"flatten:{gt.lineno} None gate depends on {ms}", nontrivial=True, ok=not others)
                if others:
                    res.find("utils", "flatten", f"the None gate also depends on the form member(s) {others}", f"{uj.relpath}:{gt.lineno}",
                             f"a disabled form flattens to None only when {others} also has a given state: disabled members of an optional group or "
                             "dependency-disabled forms come back with live values and are re-enabled on the next write")
            else:
                raise AnalysisError(f"ui_json.utils.flatten:{gt.lineno}: None gate `{unparse(gt.test)[:60]}` not recognised")
        else:
            raise AnalysisError(f"ui_json.utils.flatten:{gt.lineno}: None gate `{unparse(gt.test)[:60]}` not recognised")
    # (c) option defaults
    IF = p.cls("InputFile")
    vg = IF.props["validation_options"].getter
    defaults = {}
    for n in ast.walk(vg.node):
        if isinstance(n, ast.Dict) and n.keys and all(isinstance(k, ast.Constant) for k in n.keys):
            for k, v in zip(n.keys, n.values):
                defaults[k.value] = unparse(v)
    if "update_enabled" not in defaults:
        raise AnalysisError("InputFile.validation_options: default dictionary not found")
    nsite = 0
    for fn in p.all_functions():
        if not fn.module.relpath.startswith("geoh5py/ui_json"):
            continue
        for c in ast.walk(fn.node):
            if isinstance(c, ast.Call) and isinstance(c.func, ast.Attribute) and c.func.attr == "get" and unparse(c.func.value).endswith("validation_options") \
                    and c.args and isinstance(c.args[0], ast.Constant) and c.args[0].value in defaults:
                k = c.args[0].value
                d = unparse(c.args[1]) if len(c.args) > 1 else "None"
                ok = d == defaults[k]
                nsite += 1
                res.inst(f"{fn.qualname}:{c.lineno} validation_options.get({k!r}, {d}) vs declared default {defaults[k]}", nontrivial=True, ok=ok)
                if not ok:
                    res.find(fn.cls.name if fn.cls else "ui_json", fn.name, f"validation_options.get({k!r}, {d}) disagrees with the declared default {defaults[k]}",
                             f"{fn.module.relpath}:{c.lineno}",
                             f"when the caller's options omit {k!r}, this site assumes {d} while the option's documented default is {defaults[k]}: "
                             "after the first read of .data the enabled states stop following the values on write")
    if nsite < 2:
        raise AnalysisError("validation_options.get(...) sites not found")
    # save / restore around flatten in the data getter
    dg = IF.props["data"].getter
    saves = [n for n in ast.walk(dg.node) if isinstance(n, ast.Assign) and isinstance(n.targets[0], ast.Name) and "validation_options" in unparse(n.value) and "update_enabled" in unparse(n.value)]
    if saves:
        nm = saves[0].targets[0].id
        from ..cfg import CFG
        from ..kinds import reach
        g = CFG(dg.node)
        offs = [n for n in g.nodes if isinstance(n.ast, ast.Assign) and "update_enabled" in unparse(n.ast.targets[0]) and unparse(n.ast.value) == "False"]
        rest = lambda n: isinstance(n.ast, ast.Assign) and "update_enabled" in unparse(n.ast.targets[0]) and unparse(n.ast.value) == nm
        ok = bool(offs) and all(g.exit not in reach(g, [m for m, _ in o.succ], avoid=rest) for o in offs)
        res.inst("InputFile.data: update_enabled switched off is restored to the saved value on every normal path", nontrivial=True, ok=ok)
        if not ok:
            res.find("InputFile", "data", "update_enabled is switched off and not restored", dg.where,
                     "after the first read of .data, writes no longer update the enabled states from the values")
    return res


RULES = [rule_inv, rule_collide, rule_flat]
