"""C15 — ui.json validation is stateless; setters validate before they commit."""

from __future__ import annotations

import ast

from ..cfg import CFG, forward, ordered
from ..effects import EffectAnalysis
from ..model import AnalysisError, unparse
from ..report import RuleResult


def scope_modules(p):
    mods = {m for m in p.scope_modules if m.relpath.startswith("geoh5py/ui_json/")}
    mods.add(p.module("shared/validators.py"))
    return mods


def entry_points(p):
    out = []

    def add(K, name):
        m = K.lookup(name)
        if m and m[1] == "method" and (m[2], K) not in out:
            out.append((m[2], K))

    IV = p.cls("InputValidation")
    for n in ("validate", "validate_data", "__call__"):
        add(IV, n)
    for S in p.subclasses(p.cls("BaseValidator")):
        for n in ("validate", "__call__"):
            add(S, n)
    for S in p.subclasses(p.cls("Enforcer")):
        for n in ("enforce", "rule", "collection"):
            add(S, n)
    add(p.cls("EnforcerPool"), "enforce")
    for S in p.subclasses(p.cls("Parameter")):
        add(S, "validate")
    for S in p.subclasses(p.cls("FormParameter")):
        add(S, "validate")
    add(p.cls("UIJson"), "validate")
    return out


def make_analysis(ctx):
    p = ctx.p
    mods = scope_modules(p)
    BV = p.cls("BaseValidator")
    subs = [S for S in p.subclasses(BV, strict=True)]

    def dynamic(fn, call):
        # self.validators[val](name, value, validations[val]) in InputValidation.validate
        f = call.func
        if isinstance(f, ast.Subscript) and unparse(f.value) == "self.validators":
            out = []
            for S in subs:
                m = S.lookup("validate")
                if m and m[1] == "method":
                    out.append((m[2], {("field", "validators", 1)}))
            return out
        return None

    return EffectAnalysis(p, scope=mods, cha_scope=mods, max_depth=6 if ctx.tier == "quick" else 14, dynamic_calls=dynamic)


def _reset_on_every_exit(ctx, fn, K, fld, ana) -> bool:
    """Accumulator idiom: every exit (normal and exceptional) of the entry point
    is reached with self.<fld> reset (re-bound, .clear()ed, or known empty by a
    falsy test) after the last mutation.  Interprocedural through self-calls:
    each callee is summarised as a transformer of the 'dirty' bit."""
    memo: dict = {}
    mutated = [False]

    def run(f, init, depth):
        """(dirty at normal exit, dirty at exceptional exit) starting from `init`."""
        key = (f, init)
        if key in memo:
            return memo[key]
        if depth > 6:
            return (init, init)
        memo[key] = (init, init)
        sn = f.self_name
        g = CFG(f.node)

        def is_fld(e):
            return isinstance(e, ast.Attribute) and e.attr == fld and isinstance(e.value, ast.Name) and e.value.id == sn

        exc_from_calls = [False]

        def transfer(node, dirty):
            src = node.ast
            if src is None:
                return dirty
            for n in ordered(src):
                if isinstance(n, ast.Attribute) and is_fld(n) and isinstance(n.ctx, ast.Store):
                    dirty = False
                elif isinstance(n, ast.Call) and isinstance(n.func, ast.Attribute):
                    if is_fld(n.func.value):
                        if n.func.attr == "clear":
                            dirty = False
                        elif n.func.attr in ("append", "extend", "insert", "add", "update", "__setitem__"):
                            dirty = True
                            mutated[0] = True
                    elif isinstance(n.func.value, ast.Name) and n.func.value.id == sn and K is not None:
                        m = K.lookup(n.func.attr)
                        if m and m[1] == "method":
                            nd, xd = run(m[2], dirty, depth + 1)
                            # an exception escaping the callee escapes this function too unless caught here
                            if xd and not _in_try(f, n):
                                exc_from_calls[0] = True
                            dirty = nd
                elif isinstance(n, ast.Subscript) and is_fld(n.value) and isinstance(n.ctx, ast.Store):
                    dirty = True
                    mutated[0] = True
            if node.kind == "test":
                t = node.ast
                if is_fld(t):
                    return {"true": dirty, "false": False, None: dirty}
                if isinstance(t, ast.UnaryOp) and isinstance(t.op, ast.Not) and is_fld(t.operand):
                    return {"true": False, "false": dirty, None: dirty}
            return dirty

        IN = forward(g, init, transfer, lambda a, b: a or b)
        # exceptional exit: explicit raise / assert edges only (implicit exceptions of calls inside try
        # bodies are not assumed to escape, DESIGN §2.4)
        xdirty = False
        for pnode, lab in g.rexit.pred:
            if lab == "exc" or pnode not in IN:
                continue
            out = transfer(pnode, IN[pnode])
            if isinstance(out, dict):
                out = out.get(lab, out.get(None))
            xdirty = xdirty or bool(out)
        res = (bool(IN.get(g.exit, False)), xdirty or exc_from_calls[0])
        memo[key] = res
        return res

    nd, xd = run(fn, False, 0)
    return (not nd) and (not xd) and mutated[0]


def _is_reset_store(text: str, fld: str) -> bool:
    """`self.f = []` / `x, self.f = self.f, []` — re-binding the accumulator to a fresh empty container."""
    try:
        st = ast.parse(text).body[0]
    except SyntaxError:
        return False
    if not isinstance(st, ast.Assign):
        return False
    pairs = []
    for t in st.targets:
        if isinstance(t, ast.Tuple) and isinstance(st.value, ast.Tuple) and len(t.elts) == len(st.value.elts):
            pairs += list(zip(t.elts, st.value.elts))
        else:
            pairs.append((t, st.value))
    for t, v in pairs:
        if isinstance(t, ast.Attribute) and t.attr == fld:
            empty = (isinstance(v, (ast.List, ast.Dict, ast.Set, ast.Tuple)) and not (getattr(v, "elts", None) or getattr(v, "keys", None))) or (
                isinstance(v, ast.Call) and isinstance(v.func, ast.Name) and v.func.id in ("list", "dict", "set") and not v.args
            )
            return bool(empty)
    return False


def _in_try(f, node) -> bool:
    for t in ast.walk(f.node):
        if isinstance(t, ast.Try) and t.handlers:
            for s in t.body:
                if node in list(ast.walk(s)):
                    return True
    return False


def rule_pure(ctx) -> RuleResult:
    res = RuleResult(
        "C15.PURE",
        "C15",
        "no validation entry point (InputValidation, validators, enforcers, EnforcerPool, Parameter/FormParameter/"
        "UIJson.validate) stores or mutates state that outlives the call — fields of self, class attributes, globals, "
        "or (elements of) its arguments, with shallow-copy aliasing; an accumulator on self is accepted only if it is "
        "reset on every exit",
        floor=40,
    )
    p = ctx.p
    ana = make_analysis(ctx)
    eps = entry_points(p)
    if len(eps) < 40:
        raise AnalysisError(f"C15.PURE: only {len(eps)} validation entry points found")
    accepted = set()
    for fn, K in eps:
        effs = ana.summary(fn, K)
        bad = []
        for e in sorted(effs, key=lambda e: (e.where, str(e.target))):
            ofn, otarget, otext = e.origin
            # accumulator idiom, judged at the outermost function of the owning class on the call chain
            if otarget[0] == "field" and otarget[2] == 0 and ofn.cls is not None and (e.kind == "mutate" or _is_reset_store(otext, otarget[1])):
                owner = next((f for f in e.chain if f.cls is not None and (f.cls is ofn.cls or ofn.cls in f.cls.mro)), ofn)
                Ko = owner.cls
                ok = _reset_on_every_exit(ctx, owner, Ko, otarget[1], ana)
                if ok:
                    accepted.add(f"{Ko.name}.{owner.name}: accumulator self.{otarget[1]} reset on every exit (accepted)")
                    continue
                bad.append((e, Ko.name, owner.name, f"accumulator self.{otarget[1]} not reset on every exit", owner.where))
                continue
            tgt = f"self.{otarget[1]}" if otarget[0] == "field" else f"argument {otarget[1]}" if otarget[0] == "param" else str(otarget[1])
            bad.append((e, ofn.cls.name if ofn.cls else ofn.module.short, ofn.prop or ofn.name,
                        f"{e.kind} {tgt}{' (element)' if len(otarget) > 2 and otarget[2] else ''}: {otext}", e.where))
        res.inst(f"{K.name}.{fn.name} ({fn.where}): {len(effs)} effects", nontrivial=bool(effs), ok=not bad)
        for e, cname, member, construct, where in bad:
            res.find(
                cname, member, construct, where,
                f"validation entry point {K.name}.{fn.name} reaches a persistent side effect: {e.describe()} — "
                "a later call on the same object can give a different verdict for the same form and value",
                entry_point=f"{K.name}.{fn.name}",
            )
    res.notes += sorted(accepted)
    res.unresolved = sorted(set(ana.unresolved))[:40]
    res.notes.append("calls leaving ui_json/* and shared/validators.py (workspace look-ups) are treated as reads")
    return res


RULES = [rule_pure]


VALIDATION_CALLS = {"validate", "validate_data", "enforce"}


def rule_commit(ctx) -> RuleResult:
    res = RuleResult(
        "C15.COMMIT",
        "C15",
        "a setter / set_* method of the ui.json classes that calls a fallible validation stores nothing on self "
        "before that validation on any path (validate, then commit)",
        floor=3,
    )
    p = ctx.p
    mods = scope_modules(p)
    from ..cfg import CFG, forward, ordered

    for fn in p.all_functions():
        if fn.module not in mods or fn.cls is None or fn.self_name is None:
            continue
        if not (fn.kind == "setter" or fn.name.startswith(("set_", "update_"))):
            continue
        sn = fn.self_name

        def is_validation(n):
            if not (isinstance(n, ast.Call) and isinstance(n.func, ast.Attribute) and n.func.attr in VALIDATION_CALLS):
                return False
            root = n.func.value
            while isinstance(root, (ast.Attribute, ast.Subscript)):
                root = root.value
            return isinstance(root, ast.Name) and root.id == sn

        def stores(n):
            out = []
            if isinstance(n, (ast.Assign, ast.AugAssign, ast.AnnAssign)):
                tg = n.targets if isinstance(n, ast.Assign) else [n.target]
                for t in tg:
                    b = t
                    sub = False
                    while isinstance(b, ast.Subscript):
                        b = b.value
                        sub = True
                    if isinstance(b, ast.Attribute) and isinstance(b.value, ast.Name) and b.value.id == sn:
                        out.append((b.attr, n))
            return out

        g = CFG(fn.node)
        a_nodes = [nd for nd in g.nodes if nd.ast is not None and not isinstance(nd.ast, list) and any(is_validation(x) for x in ast.walk(nd.ast))]
        if not a_nodes:
            continue
        # nodes from which a validation call is still reachable
        reach = set()
        work = list(a_nodes)
        while work:
            nd = work.pop()
            for pr, _ in nd.pred:
                if pr not in reach:
                    reach.add(pr)
                    work.append(pr)

        def transfer(node, st):
            if node.ast is None or isinstance(node.ast, list):
                return st
            for x in ordered(node.ast):
                if is_validation(x):
                    return True
            return st

        IN = forward(g, False, transfer, lambda a, b: a and b)
        bad = []
        for nd in g.nodes:
            if nd.kind != "stmt" or nd not in reach or IN.get(nd, False):
                continue
            for fld, st in stores(nd.ast):
                # validation inside the same statement after the store cannot happen (rhs evaluated first)
                bad.append((fld, st))
        inst = f"{fn.qualname}: {len(a_nodes)} validation call(s)"
        res.inst(inst, nontrivial=True, ok=not bad)
        for fld, st in bad:
            res.find(fn.cls.name, fn.prop or fn.name, f"stores self.{fld} before validating: {unparse(st)[:60]}",
                     f"{fn.module.relpath}:{st.lineno}",
                     f"{fn.qualname} assigns self.{fld} and only afterwards runs the validation that may reject the value: "
                     "a rejected assignment leaves the new value stored")
    return res


def _members_read(expr, form_text=None):
    """Constant member names read from a ui.json form inside `expr`: X.get("m", ..), X["m"], "m" in X, truth(u, n, "m")."""
    out = []
    for n in ast.walk(expr):
        if isinstance(n, ast.Call) and isinstance(n.func, ast.Attribute) and n.func.attr == "get" and n.args and isinstance(n.args[0], ast.Constant):
            out.append((unparse(n.func.value), n.args[0].value, "get"))
        elif isinstance(n, ast.Subscript) and isinstance(n.slice, ast.Constant) and isinstance(n.slice.value, str):
            out.append((unparse(n.value), n.slice.value, "item"))
        elif isinstance(n, ast.Compare) and isinstance(n.left, ast.Constant) and isinstance(n.left.value, str) and isinstance(n.ops[0], (ast.In, ast.NotIn)):
            out.append((unparse(n.comparators[0]), n.left.value, "in"))
        elif isinstance(n, ast.Call) and getattr(n.func, "id", None) == "truth" and len(n.args) == 3 and isinstance(n.args[2], ast.Constant):
            out.append((f"{unparse(n.args[0])}[{unparse(n.args[1])}]", n.args[2].value, "get"))
    return out


def rule_rules(ctx) -> RuleResult:
    res = RuleResult(
        "C15.RULES",
        "C15",
        "(a) dependency_requires_value reads the driving parameter's state from `enabled` exactly when the driver is "
        "`optional` (else from its boolean `value`), un-negated for dependencyType 'enabled' and negated otherwise — the "
        "rule the ui.json documentation states; (b) AssociationValidator resolves an identifier for every value kind "
        "its signature and Workspace.get_entity can hand it (no kind falls into the silent `else: return`)",
        floor=3,
    )
    p = ctx.p
    uj = p.module("ui_json/utils.py")
    fn = uj.functions.get("dependency_requires_value")
    if fn is None:
        raise AnalysisError("anchor ui_json.utils.dependency_requires_value not found")
    sel = [n for n in ast.walk(fn.node) if isinstance(n, ast.IfExp) and isinstance(n.body, ast.Constant) and isinstance(n.orelse, ast.Constant)
           and {n.body.value, n.orelse.value} == {"enabled", "value"}]
    if not sel:
        raise AnalysisError("dependency_requires_value: the `enabled`/`value` state selector was not recognised")
    for s in sel:
        t = s.test
        neg = False
        while isinstance(t, ast.UnaryOp) and isinstance(t.op, ast.Not):
            neg, t = not neg, t.operand
        reads = _members_read(t)
        members = {(m, how) for _, m, how in reads}
        forms = {f for f, _, _ in reads}
        on_driver = all("dependency" in f for f in forms)
        if members == {("optional", "get")} and on_driver and isinstance(t, ast.Call):
            ok = (s.body.value == "enabled") != neg
            res.inst(f"dependency_requires_value:{s.lineno} driver state member = 'enabled' iff driver.optional", nontrivial=True, ok=ok)
            if not ok:
                res.find("utils", "dependency_requires_value", "the state selector is inverted", f"{uj.relpath}:{s.lineno}",
                         "an optional driver is read through its value and a checkbox through `enabled`")
        elif any(m != "optional" or how != "get" for m, how in members) or not on_driver:
            res.inst(f"dependency_requires_value:{s.lineno} selector consults {sorted(members)}", nontrivial=True, ok=False)
            res.find("utils", "dependency_requires_value", f"the state selector consults {sorted(m for m, _ in members)} ({unparse(s.test)[:50]})",
                     f"{uj.relpath}:{s.lineno}",
                     "whether the driver's state is its `enabled` switch or its boolean `value` must depend on the driver being optional (truthy "
                     "`optional` member) only: a checkbox carrying a redundant `enabled` member, or a non-optional driver, is read through the wrong member "
                     "and None is accepted/refused wrongly for the dependent parameter")
        else:
            raise AnalysisError(f"dependency_requires_value:{s.lineno}: selector `{unparse(s.test)[:60]}` not recognised")
    # polarity by dependencyType
    gates = [n for n in ast.walk(fn.node) if isinstance(n, ast.If) and any(m == "dependencyType" for _, m, _ in _members_read(n.test))]
    if not gates:
        raise AnalysisError("dependency_requires_value: dependencyType branch not recognised")
    for gt in gates:
        t = gt.test
        is_enabled_eq = isinstance(t, ast.Compare) and isinstance(t.ops[0], (ast.Eq, ast.NotEq)) and isinstance(t.comparators[0], ast.Constant) and t.comparators[0].value in ("enabled", "disabled")
        default = next((unparse(c.args[1]) for c in ast.walk(t) if isinstance(c, ast.Call) and getattr(c.func, "attr", None) == "get" and len(c.args) > 1), None)
        if not is_enabled_eq:
            raise AnalysisError(f"dependency_requires_value:{gt.lineno}: dependencyType test not recognised")
        pos_branch = (t.comparators[0].value == "enabled") == isinstance(t.ops[0], ast.Eq)

        def negated(block):
            a = [x for x in block if isinstance(x, ast.Assign)]
            if len(a) != 1:
                return None
            return isinstance(a[0].value, ast.UnaryOp) and isinstance(a[0].value.op, ast.Not)

        nb, no = negated(gt.body), negated(gt.orelse)
        if nb is None or no is None:
            raise AnalysisError(f"dependency_requires_value:{gt.lineno}: branch assignments not recognised")
        ok = (nb != no) and (nb is (not pos_branch)) and default in ("'enabled'", None)
        res.inst(f"dependency_requires_value:{gt.lineno} dependencyType 'enabled' -> driver state, otherwise its negation; default 'enabled'", nontrivial=True, ok=ok)
        if not ok:
            res.find("utils", "dependency_requires_value", "dependencyType polarity / default changed", f"{uj.relpath}:{gt.lineno}",
                     "an 'enabled' dependency must require the value when the driver is on, a 'disabled' one when it is off (default 'enabled')")
    # (b) AssociationValidator kinds
    V = p.cls("AssociationValidator")
    vf = V.methods.get("validate")
    if vf is None:
        raise AnalysisError("anchor AssociationValidator.validate not found")

    def ann_names(a):
        out = set()
        for n in ast.walk(a) if a is not None else []:
            if isinstance(n, ast.Name):
                out.add(n.id)
            elif isinstance(n, ast.Attribute):
                out.add(n.attr)
            elif isinstance(n, ast.Constant) and isinstance(n.value, str):
                out |= {x.strip() for x in n.value.replace("|", ",").split(",")}
        return out - {"None", "list", "uuid", "Optional", "Union"}

    vparam = vf.params[2] if len(vf.params) > 2 else "value"
    arg = next(a for a in vf.node.args.args if a.arg == vparam)
    kinds = ann_names(arg.annotation)
    ge = p.cls("Workspace").methods.get("get_entity")
    kinds |= ann_names(ge.node.returns) if ge is not None else set()
    handled = set()
    silent = False
    for n in ast.walk(vf.node):
        if isinstance(n, ast.If):
            chain, cur = [], n
            while True:
                chain.append(cur)
                if len(cur.orelse) == 1 and isinstance(cur.orelse[0], ast.If):
                    cur = cur.orelse[0]
                else:
                    break
            tests = [c.test for c in chain]
            if all(isinstance(t, ast.Call) and getattr(t.func, "id", None) == "isinstance" and unparse(t.args[0]) == vparam for t in tests) \
                    and cur.orelse and isinstance(cur.orelse[0], ast.Return):
                silent = True
                for t in tests:
                    handled |= ann_names(t.args[1])
                break
    if not silent:
        res.inst("AssociationValidator.validate: no silent fall-through", ok=True)
    else:
        def covered(k):
            kc = p.cls(k) if any(c.name == k for c in p.classes) else None
            if k in handled:
                return True
            return kc is not None and any(getattr(b, "name", None) in handled for b in kc.mro)
        missing = sorted(k for k in kinds if not covered(k))
        res.inst(f"AssociationValidator.validate: value kinds {sorted(kinds)} all dispatched before `else: return` (handled {sorted(handled)})", nontrivial=True, ok=not missing)
        if missing:
            res.find("AssociationValidator", "validate", f"value kind(s) {missing} fall into the silent `else: return`", vf.where,
                     f"a {missing[0]} value is accepted without checking that it belongs to the referenced parent / workspace")
    return res


def rule_stale(ctx) -> RuleResult:
    res = RuleResult(
        "C15.STALE",
        "C15",
        "replacing the form (InputFile.ui_json setter) derives the validation rules from the new form: what it stores in "
        "a field of self is not computed from that field's previous content with precedence over the rules inferred from "
        "the new form (rules inferred for an earlier form must not decide the verdict on the current one)",
        floor=1,
    )
    p = ctx.p
    IF = p.cls("InputFile")
    st = IF.props["ui_json"].setter
    sn = st.self_name or "self"
    inferred = {n.targets[0].id for n in ast.walk(st.node) if isinstance(n, ast.Assign) and isinstance(n.targets[0], ast.Name)
                and any(isinstance(c, ast.Call) and getattr(c.func, "attr", None) == "infer_validations" for c in ast.walk(n.value))}
    if not inferred:
        raise AnalysisError("InputFile.ui_json setter: call to infer_validations not found")
    # loop variables bound from the inferred table
    for lp in ast.walk(st.node):
        if isinstance(lp, ast.For) and any(isinstance(x, ast.Name) and x.id in inferred for x in ast.walk(lp.iter)):
            names = [t.id for t in ast.walk(lp.target) if isinstance(t, ast.Name)]
            new_rules = names[-1] if names else None
            stores = [n for n in ast.walk(lp) if isinstance(n, ast.Assign) and isinstance(n.targets[0], ast.Subscript) and unparse(n.targets[0].value).startswith(f"{sn}.")]
            for stt in stores:
                field = unparse(stt.targets[0].value)
                # value's definition(s) inside the loop
                defs = [n.value for n in ast.walk(lp) if isinstance(n, ast.Assign) and isinstance(n.targets[0], ast.Name) and n.targets[0].id == unparse(stt.value)]
                carried = False
                for d in defs + [stt.value]:
                    if isinstance(d, ast.Dict) and None in d.keys:
                        spreads = [unparse(v) for k, v in zip(d.keys, d.values) if k is None]
                        # later spreads win: previous content of the same field placed after the new rules
                        idx_old = [i for i, sp in enumerate(spreads) if sp.startswith(field)]
                        idx_new = [i for i, sp in enumerate(spreads) if sp == new_rules]
                        if idx_old and idx_new and max(idx_old) > min(idx_new):
                            carried = True
                    elif any(isinstance(c, ast.Call) and getattr(c.func, "attr", None) == "update" and any(unparse(a).startswith(field) for a in c.args) for c in ast.walk(d)):
                        carried = True
                res.inst(f"InputFile.ui_json setter: {field}[...] = {unparse(stt.value)[:30]} (rules from the new form win)", nontrivial=True, ok=not carried)
                if carried:
                    res.find("InputFile", "ui_json", f"previous content of {field} overrides the rules inferred from the new form", f"{st.module.relpath}:{stt.lineno}",
                             f"{field}[key] keeps what an earlier form put there (the setter cannot tell inferred rules from user-supplied ones): after the form of "
                             "a parameter is replaced, values are still judged by the old form's types / association / optional rules")
    return res


RULES = [rule_pure, rule_commit, rule_rules, rule_stale]
