"""C15 — ui.json validation is stateless; setters validate before they commit."""

from __future__ import annotations

import ast

from ..cfg import CFG, forward, ordered
from ..effects import EffectAnalysis
from ..model import AnalysisError, unparse
from ..report import RuleResult


def scope_modules(p):
    mods = {m for m in p.scope_modules if m.relpath.startswith("geoh5py/ui_json/")}
    mods.add(p.module("shared/validators.py"))
    return mods


def entry_points(p):
    out = []

    def add(K, name):
        m = K.lookup(name)
        if m and m[1] == "method" and (m[2], K) not in out:
            out.append((m[2], K))

    IV = p.cls("InputValidation")
    for n in ("validate", "validate_data", "__call__"):
        add(IV, n)
    for S in p.subclasses(p.cls("BaseValidator")):
        for n in ("validate", "__call__"):
            add(S, n)
    for S in p.subclasses(p.cls("Enforcer")):
        for n in ("enforce", "rule", "collection"):
            add(S, n)
    add(p.cls("EnforcerPool"), "enforce")
    for S in p.subclasses(p.cls("Parameter")):
        add(S, "validate")
    for S in p.subclasses(p.cls("FormParameter")):
        add(S, "validate")
    add(p.cls("UIJson"), "validate")
    return out


def make_analysis(ctx):
    p = ctx.p
    mods = scope_modules(p)
    BV = p.cls("BaseValidator")
    subs = [S for S in p.subclasses(BV, strict=True)]

    def dynamic(fn, call):
        # self.validators[val](name, value, validations[val]) in InputValidation.validate
        f = call.func
        if isinstance(f, ast.Subscript) and unparse(f.value) == "self.validators":
            out = []
            for S in subs:
                m = S.lookup("validate")
                if m and m[1] == "method":
                    out.append((m[2], {("field", "validators", 1)}))
            return out
        return None

    return EffectAnalysis(p, scope=mods, cha_scope=mods, max_depth=6 if ctx.tier == "quick" else 14, dynamic_calls=dynamic)


def _reset_on_every_exit(ctx, fn, K, fld, ana) -> bool:
    """Accumulator idiom: every exit (normal and exceptional) of the entry point
    is reached with self.<fld> reset (re-bound, .clear()ed, or known empty by a
    falsy test) after the last mutation.  Interprocedural through self-calls:
    each callee is summarised as a transformer of the 'dirty' bit."""
    memo: dict = {}
    mutated = [False]

    def run(f, init, depth):
        """(dirty at normal exit, dirty at exceptional exit) starting from `init`."""
        key = (f, init)
        if key in memo:
            return memo[key]
        if depth > 6:
            return (init, init)
        memo[key] = (init, init)
        sn = f.self_name
        g = CFG(f.node)

        def is_fld(e):
            return isinstance(e, ast.Attribute) and e.attr == fld and isinstance(e.value, ast.Name) and e.value.id == sn

        exc_from_calls = [False]

        def transfer(node, dirty):
            src = node.ast
            if src is None:
                return dirty
            for n in ordered(src):
                if isinstance(n, ast.Attribute) and is_fld(n) and isinstance(n.ctx, ast.Store):
                    dirty = False
                elif isinstance(n, ast.Call) and isinstance(n.func, ast.Attribute):
                    if is_fld(n.func.value):
                        if n.func.attr == "clear":
                            dirty = False
                        elif n.func.attr in ("append", "extend", "insert", "add", "update", "__setitem__"):
                            dirty = True
                            mutated[0] = True
                    elif isinstance(n.func.value, ast.Name) and n.func.value.id == sn and K is not None:
                        m = K.lookup(n.func.attr)
                        if m and m[1] == "method":
                            nd, xd = run(m[2], dirty, depth + 1)
                            # an exception escaping the callee escapes this function too unless caught here
                            if xd and not _in_try(f, n):
                                exc_from_calls[0] = True
                            dirty = nd
                elif isinstance(n, ast.Subscript) and is_fld(n.value) and isinstance(n.ctx, ast.Store):
                    dirty = True
                    mutated[0] = True
            if node.kind == "test":
                t = node.ast
                if is_fld(t):
                    return {"true": dirty, "false": False, None: dirty}
                if isinstance(t, ast.UnaryOp) and isinstance(t.op, ast.Not) and is_fld(t.operand):
                    return {"true": False, "false": dirty, None: dirty}
            return dirty

        IN = forward(g, init, transfer, lambda a, b: a or b)
        # exceptional exit: explicit raise / assert edges only (implicit exceptions of calls inside try
        # bodies are not assumed to escape, DESIGN §2.4)
        xdirty = False
        for pnode, lab in g.rexit.pred:
            if lab == "exc" or pnode not in IN:
                continue
            out = transfer(pnode, IN[pnode])
            if isinstance(out, dict):
                out = out.get(lab, out.get(None))
            xdirty = xdirty or bool(out)
        res = (bool(IN.get(g.exit, False)), xdirty or exc_from_calls[0])
        memo[key] = res
        return res

    nd, xd = run(fn, False, 0)
    return (not nd) and (not xd) and mutated[0]


def _is_reset_store(text: str, fld: str) -> bool:
    """`self.f = []` / `x, self.f = self.f, []` — re-binding the accumulator to a fresh empty container."""
    try:
        st = ast.parse(text).body[0]
    except SyntaxError:
        return False
    if not isinstance(st, ast.Assign):
        return False
    pairs = []
    for t in st.targets:
        if isinstance(t, ast.Tuple) and isinstance(st.value, ast.Tuple) and len(t.elts) == len(st.value.elts):
            pairs += list(zip(t.elts, st.value.elts))
        else:
            pairs.append((t, st.value))
    for t, v in pairs:
        if isinstance(t, ast.Attribute) and t.attr == fld:
            empty = (isinstance(v, (ast.List, ast.Dict, ast.Set, ast.Tuple)) and not (getattr(v, "elts", None) or getattr(v, "keys", None))) or (
                isinstance(v, ast.Call) and isinstance(v.func, ast.Name) and v.func.id in ("list", "dict", "set") and not v.args
            )
            return bool(empty)
    return False


def _in_try(f, node) -> bool:
    for t in ast.walk(f.node):
        if isinstance(t, ast.Try) and t.handlers:
            for s in t.body:
                if node in list(ast.walk(s)):
                    return True
    return False


def rule_pure(ctx) -> RuleResult:
    res = RuleResult(
        "C15.PURE",
        "C15",
        "no validation entry point (InputValidation, validators, enforcers, EnforcerPool, Parameter/FormParameter/"
        "UIJson.validate) stores or mutates state that outlives the call — fields of self, class attributes, globals, "
        "or (elements of) its arguments, with shallow-copy aliasing; an accumulator on self is accepted only if it is "
        "reset on every exit",
        floor=40,
    )
    p = ctx.p
    ana = make_analysis(ctx)
    eps = entry_points(p)
    if len(eps) < 40:
        raise AnalysisError(f"C15.PURE: only {len(eps)} validation entry points found")
    accepted = set()
    for fn, K in eps:
        effs = ana.summary(fn, K)
        bad = []
        for e in sorted(effs, key=lambda e: (e.where, str(e.target))):
            ofn, otarget, otext = e.origin
            # accumulator idiom, judged at the outermost function of the owning class on the call chain
            if otarget[0] == "field" and otarget[2] == 0 and ofn.cls is not None and (e.kind == "mutate" or _is_reset_store(otext, otarget[1])):
                owner = next((f for f in e.chain if f.cls is not None and (f.cls is ofn.cls or ofn.cls in f.cls.mro)), ofn)
                Ko = owner.cls
                ok = _reset_on_every_exit(ctx, owner, Ko, otarget[1], ana)
                if ok:
                    accepted.add(f"{Ko.name}.{owner.name}: accumulator self.{otarget[1]} reset on every exit (accepted)")
                    continue
                bad.append((e, Ko.name, owner.name, f"accumulator self.{otarget[1]} not reset on every exit", owner.where))
                continue
            tgt = f"self.{otarget[1]}" if otarget[0] == "field" else f"argument {otarget[1]}" if otarget[0] == "param" else str(otarget[1])
            bad.append((e, ofn.cls.name if ofn.cls else ofn.module.short, ofn.prop or ofn.name,
                        f"{e.kind} {tgt}{' (element)' if len(otarget) > 2 and otarget[2] else ''}: {otext}", e.where))
        res.inst(f"{K.name}.{fn.name} ({fn.where}): {len(effs)} effects", nontrivial=bool(effs), ok=not bad)
        for e, cname, member, construct, where in bad:
            res.find(
                cname, member, construct, where,
                f"validation entry point {K.name}.{fn.name} reaches a persistent side effect: {e.describe()} — "
                "a later call on the same object can give a different verdict for the same form and value",
                entry_point=f"{K.name}.{fn.name}",
            )
    res.notes += sorted(accepted)
    res.unresolved = sorted(set(ana.unresolved))[:40]
    res.notes.append("calls leaving ui_json/* and shared/validators.py (workspace look-ups) are treated as reads")
    return res


RULES = [rule_pure]


VALIDATION_CALLS = {"validate", "validate_data", "enforce"}


def rule_commit(ctx) -> RuleResult:
    res = RuleResult(
        "C15.COMMIT",
        "C15",
        "a setter / set_* method of the ui.json classes that calls a fallible validation stores nothing on self "
        "before that validation on any path (validate, then commit)",
        floor=3,
    )
    p = ctx.p
    mods = scope_modules(p)
    from ..cfg import CFG, forward, ordered

    for fn in p.all_functions():
        if fn.module not in mods or fn.cls is None or fn.self_name is None:
            continue
        if not (fn.kind == "setter" or fn.name.startswith(("set_", "update_"))):
            continue
        sn = fn.self_name

        def is_validation(n):
            if not (isinstance(n, ast.Call) and isinstance(n.func, ast.Attribute) and n.func.attr in VALIDATION_CALLS):
                return False
            root = n.func.value
            while isinstance(root, (ast.Attribute, ast.Subscript)):
                root = root.value
            return isinstance(root, ast.Name) and root.id == sn

        def stores(n):
            out = []
            if isinstance(n, (ast.Assign, ast.AugAssign, ast.AnnAssign)):
                tg = n.targets if isinstance(n, ast.Assign) else [n.target]
                for t in tg:
                    b = t
                    sub = False
                    while isinstance(b, ast.Subscript):
                        b = b.value
                        sub = True
                    if isinstance(b, ast.Attribute) and isinstance(b.value, ast.Name) and b.value.id == sn:
                        out.append((b.attr, n))
            return out

        g = CFG(fn.node)
        a_nodes = [nd for nd in g.nodes if nd.ast is not None and not isinstance(nd.ast, list) and any(is_validation(x) for x in ast.walk(nd.ast))]
        if not a_nodes:
            continue
        # nodes from which a validation call is still reachable
        reach = set()
        work = list(a_nodes)
        while work:
            nd = work.pop()
            for pr, _ in nd.pred:
                if pr not in reach:
                    reach.add(pr)
                    work.append(pr)

        def transfer(node, st):
            if node.ast is None or isinstance(node.ast, list):
                return st
            for x in ordered(node.ast):
                if is_validation(x):
                    return True
            return st

        IN = forward(g, False, transfer, lambda a, b: a and b)
        bad = []
        for nd in g.nodes:
            if nd.kind != "stmt" or nd not in reach or IN.get(nd, False):
                continue
            for fld, st in stores(nd.ast):
                # validation inside the same statement after the store cannot happen (rhs evaluated first)
                bad.append((fld, st))
        inst = f"{fn.qualname}: {len(a_nodes)} validation call(s)"
        res.inst(inst, nontrivial=True, ok=not bad)
        for fld, st in bad:
            res.find(fn.cls.name, fn.prop or fn.name, f"stores self.{fld} before validating: {unparse(st)[:60]}",
                     f"{fn.module.relpath}:{st.lineno}",
                     f"{fn.qualname} assigns self.{fld} and only afterwards runs the validation that may reject the value: "
                     "a rejected assignment leaves the new value stored")
    return res


RULES = [rule_pure, rule_commit]
