"""C15 — ui.json validation is stateless; setters validate before they commit."""

from __future__ import annotations

import ast
import re

from ..cfg import CFG, forward, ordered
from ..effects import EffectAnalysis
from ..model import AnalysisError, FuncInfo, unparse
from ..normalize import expanded, single_assignments
from ..report import RuleResult
from ._c15_sem import (dependency_table, element_exemptions, expand_context_managers, group_switch_denials, layers, objects_of, pair_membership_sites, requires_table,
                       shared_root, silent_kinds)
from ._c15_sym import Executor, literal_elements


def scope_modules(p):
    mods = {m for m in p.scope_modules if m.relpath.startswith("geoh5py/ui_json/")}
    mods.add(p.module("shared/validators.py"))
    return mods


def entry_points(p):
    out = []

    def add(K, name):
        m = K.lookup(name)
        if m and m[1] == "method" and (m[2], K) not in out:
            out.append((m[2], K))

    def addp(K, name):
        m = K.lookup(name)
        if m and m[1] == "prop" and m[2].getter is not None and (m[2].getter, K) not in out:
            out.append((m[2].getter, K))

    IV = p.cls("InputValidation")
    for n in ("validate", "validate_data", "__call__"):
        add(IV, n)
    for S in p.subclasses(p.cls("BaseValidator")):
        for n in ("validate", "__call__"):
            add(S, n)
    for S in p.subclasses(p.cls("Enforcer")):
        for n in ("enforce", "rule", "collection"):
            add(S, n)
    add(p.cls("EnforcerPool"), "enforce")
    for S in p.subclasses(p.cls("Parameter")):
        add(S, "validate")
    for S in p.subclasses(p.cls("FormParameter")):
        add(S, "validate")
    add(p.cls("UIJson"), "validate")
    # the properties that DERIVE the rules (what validate() will enforce) are functions of the current parameters / members
    for S in p.subclasses(p.cls("Parameter")) + p.subclasses(p.cls("FormParameter")) + [p.cls("UIJson")]:
        for n in ("validations", "dynamic_validations", "uijson_validations", "enforcers"):
            addp(S, n)
    return out


def make_analysis(ctx):
    p = ctx.p
    mods = scope_modules(p)
    BV = p.cls("BaseValidator")
    subs = [S for S in p.subclasses(BV, strict=True)]

    defs_cache: dict = {}
    holder: dict = {}
    fresh_names: dict = {}

    def fresh_everywhere(attr):
        if attr not in fresh_names:
            ana = holder["ana"]
            defs = [(c, c.own(attr)) for c in p.classes if c.module in mods and c.own(attr) is not None]
            ok = bool(defs)
            for c, (kind, obj) in defs:
                if kind != "prop" or obj.getter is None:
                    ok = False
                    break
                env, _ = ana.env(obj.getter, c)
                rets = [r.value for r in ast.walk(obj.getter.node) if isinstance(r, ast.Return) and r.value is not None]
                if not rets or not all(t[0] in ("fresh", "copy", "box") for r in rets for t in ana.eval(r, env, obj.getter, c)):
                    ok = False
                    break
            fresh_names[attr] = ok
        return fresh_names[attr]

    def dynamic(fn, call):
        # self.validators[val](name, value, validations[val]) in InputValidation.validate — also through a temporary
        # (`v = self.validators[val]; v(..)`), `.get(val)`, or an explicit `.validate(..)` / `.__call__(..)` on the element
        if id(fn.node) not in defs_cache:
            defs_cache[id(fn.node)] = single_assignments(fn.node)
        f = expanded(call.func, fn.node, defs_cache[id(fn.node)])
        # a method of the library's own dict / list subclasses on a table built here (`t = SetDict(); t.update(x)`): not the builtin of that
        # name — SetDict.update writes the merged sets back into the dictionary it is GIVEN
        if isinstance(f, ast.Attribute) and isinstance(f.value, ast.Call) and isinstance(f.value.func, ast.Name):
            r = p.resolve_name(fn.module, f.value.func.id)
            if r and r[0] == "class" and r[1] in own_containers:
                m = r[1].lookup(f.attr)
                if m and m[1] == "method":
                    # arguments that are `<object>.<property>` where every class of the scope defining that name defines a property
                    # building a new object per access: nothing persistent is handed over
                    args = [expanded(a, fn.node, defs_cache[id(fn.node)]) for a in call.args]
                    if args and all(isinstance(a, ast.Attribute) and fresh_everywhere(a.attr) for a in args):
                        return []
                    return [(m[2], {("fresh",)})]
        if isinstance(f, ast.Attribute) and f.attr in ("validate", "__call__"):
            f = f.value
        table = None
        if isinstance(f, ast.Subscript):
            table = f.value
        elif isinstance(f, ast.Call) and isinstance(f.func, ast.Attribute) and f.func.attr == "get" and f.args:
            table = f.func.value
        if isinstance(table, ast.Attribute) and table.attr in ("validators", "_validators") and isinstance(table.value, ast.Name) \
                and table.value.id == fn.self_name:
            out = []
            for S in subs:
                m = S.lookup("validate")
                if m and m[1] == "method":
                    out.append((m[2], {("field", "validators", 1)}))
            return out
        return None

    own_containers = [c for c in p.classes if c.module is not None and c.module not in mods
                      and any((b if isinstance(b, str) else b.name) in ("dict", "list", "set") for b in c.mro[1:])]
    extra = {m for c in own_containers for m in c.methods.values()}

    class Analysis(EffectAnalysis):
        """The methods of those container classes are summarised although their module is outside the scope of the rule."""

        def summary(self, fn, K=None, depth=0, stack=()):
            if fn in extra and fn.module not in self.scope:
                saved = self.scope
                self.scope = set(saved) | {fn.module}
                try:
                    return super().summary(fn, K, depth, stack)
                finally:
                    self.scope = saved
            return super().summary(fn, K, depth, stack)

    holder["ana"] = Analysis(p, scope=mods, cha_scope=mods, max_depth=6 if ctx.tier == "quick" else 14, dynamic_calls=dynamic)
    return holder["ana"]


_ACC_GROW = ("append", "extend", "insert", "add", "update", "setdefault", "__setitem__")


def _reset_on_every_exit(ctx, fn, K, fld, ana) -> bool:
    """Accumulator idiom: every exit (normal and exceptional) of the entry point
    is reached with self.<fld> reset (re-bound, .clear()ed, or known empty by a
    falsy test) after the last mutation.  Interprocedural through self-calls:
    each callee is summarised as a transformer of the 'dirty' bit.  Locals that
    alias the field's current object (`errs = self._errors`) are followed, so the
    mutation / the emptiness test may go through them; re-binding the field
    detaches them (they keep the old object)."""
    memo: dict = {}
    mutated = [False]

    def run(f, init, depth):
        """(dirty at normal exit, dirty at exceptional exit) starting from `init`."""
        key = (f, init)
        if key in memo:
            return memo[key]
        if depth > 6:
            return (init, init)
        memo[key] = (init, init)
        sn = f.self_name
        g = CFG(f.node)

        def is_fld(e):
            return isinstance(e, ast.Attribute) and e.attr == fld and isinstance(e.value, ast.Name) and e.value.id == sn

        exc_from_calls = [False]

        def transfer(node, state):
            dirty, al = state
            src = node.ast
            if src is None:
                return state

            def is_acc(e):
                return is_fld(e) or (isinstance(e, ast.Name) and e.id in al)

            def reads_acc(e):
                return any(is_acc(x) for x in ast.walk(e))

            for n in ordered(src):
                if isinstance(n, ast.Call) and isinstance(n.func, ast.Attribute):
                    if is_acc(n.func.value):
                        if n.func.attr == "clear":
                            dirty = False
                        elif n.func.attr in _ACC_GROW:
                            dirty = True
                            mutated[0] = True
                    elif isinstance(n.func.value, ast.Name) and n.func.value.id == sn and K is not None:
                        m = K.lookup(n.func.attr)
                        if m and m[1] == "method":
                            nd, xd = run(m[2], dirty, depth + 1)
                            # an exception escaping the callee escapes this function too unless caught here
                            if xd and not _in_try(f, n):
                                exc_from_calls[0] = True
                            dirty = nd
                elif isinstance(n, ast.Subscript) and is_acc(n.value) and isinstance(n.ctx, ast.Store):
                    dirty = True
                    mutated[0] = True
                elif isinstance(n, ast.AugAssign):
                    if is_acc(n.target):
                        dirty = True
                        mutated[0] = True
                elif isinstance(n, (ast.Assign, ast.AnnAssign)) and n.value is not None:
                    pairs = []
                    for t in (n.targets if isinstance(n, ast.Assign) else [n.target]):
                        if isinstance(t, (ast.Tuple, ast.List)) and isinstance(n.value, (ast.Tuple, ast.List)) and len(t.elts) == len(n.value.elts):
                            pairs += list(zip(t.elts, n.value.elts))
                        else:
                            pairs.append((t, n.value))
                    # the right-hand sides are evaluated before any target is bound
                    vals = [(t, is_acc(v), reads_acc(v)) for t, v in pairs]
                    for t, same, reads in vals:
                        if is_fld(t):
                            if same:
                                continue  # the very object is stored back
                            if reads:
                                dirty = True  # self.f = self.f + [..]: grows
                                mutated[0] = True
                            else:
                                dirty = False
                            al = frozenset()  # the aliases keep the previous object
                        elif isinstance(t, ast.Name):
                            al = (al | {t.id}) if same else (al - {t.id})
                        else:
                            for x in ast.walk(t):
                                if isinstance(x, ast.Name) and isinstance(x.ctx, ast.Store):
                                    al = al - {x.id}
            state = (dirty, al)
            if node.kind == "test":
                t = node.ast
                if is_acc(t):
                    return {"true": state, "false": (False, al), None: state}
                if isinstance(t, ast.UnaryOp) and isinstance(t.op, ast.Not) and is_acc(t.operand):
                    return {"true": (False, al), "false": state, None: state}
            return state

        IN = forward(g, (init, frozenset()), transfer, lambda a, b: (a[0] or b[0], a[1] | b[1]))
        # exceptional exit: explicit raise / assert edges only (implicit exceptions of calls inside try
        # bodies are not assumed to escape, DESIGN §2.4)
        xdirty = False
        for pnode, lab in g.rexit.pred:
            if lab == "exc" or pnode not in IN:
                continue
            out = transfer(pnode, IN[pnode])
            if isinstance(out, dict):
                out = out.get(lab, out.get(None))
            xdirty = xdirty or bool(out[0])
        res = (bool(IN.get(g.exit, (False, frozenset()))[0]), xdirty or exc_from_calls[0])
        memo[key] = res
        return res

    nd, xd = run(fn, False, 0)
    return (not nd) and (not xd) and mutated[0]


def _is_grow_store(text: str, fld: str) -> bool:
    """`self.f += [x]` / `self.f = self.f + [x]` — the accumulator grows by re-binding (same idiom as .append)."""
    try:
        st = ast.parse(text).body[0]
    except SyntaxError:
        return False

    def is_f(t):
        return isinstance(t, ast.Attribute) and t.attr == fld and isinstance(t.value, ast.Name)

    if isinstance(st, ast.AugAssign):
        return is_f(st.target) and isinstance(st.op, (ast.Add, ast.BitOr))
    if isinstance(st, ast.Assign) and len(st.targets) == 1 and is_f(st.targets[0]) and isinstance(st.value, ast.BinOp) and isinstance(st.value.op, (ast.Add, ast.BitOr)):
        return is_f(st.value.left) and st.value.left.value.id == st.targets[0].value.id
    return False


def _is_reset_store(text: str, fld: str) -> bool:
    """`self.f = []` / `x, self.f = self.f, []` — re-binding the accumulator to a fresh empty container."""
    try:
        st = ast.parse(text).body[0]
    except SyntaxError:
        return False
    if not isinstance(st, ast.Assign):
        return False
    pairs = []
    for t in st.targets:
        if isinstance(t, ast.Tuple) and isinstance(st.value, ast.Tuple) and len(t.elts) == len(st.value.elts):
            pairs += list(zip(t.elts, st.value.elts))
        else:
            pairs.append((t, st.value))
    for t, v in pairs:
        if isinstance(t, ast.Attribute) and t.attr == fld:
            empty = (isinstance(v, (ast.List, ast.Dict, ast.Set, ast.Tuple)) and not (getattr(v, "elts", None) or getattr(v, "keys", None))) or (
                isinstance(v, ast.Call) and isinstance(v.func, ast.Name) and v.func.id in ("list", "dict", "set") and not v.args
            )
            return bool(empty)
    return False


def _in_try(f, node) -> bool:
    """The call sits in a `try` body with handlers, or in a `with suppress(..)` block."""
    for t in ast.walk(f.node):
        if isinstance(t, ast.Try) and t.handlers:
            body = t.body
        elif isinstance(t, (ast.With, ast.AsyncWith)) and any(
                isinstance(it.context_expr, ast.Call) and (getattr(it.context_expr.func, "attr", None) or getattr(it.context_expr.func, "id", None)) == "suppress"
                for it in t.items):
            body = t.body
        else:
            continue
        for s in body:
            if any(x is node for x in ast.walk(s)):
                return True
    return False


def rule_pure(ctx) -> RuleResult:
    res = RuleResult(
        "C15.PURE",
        "C15",
        "no validation entry point (InputValidation, validators, enforcers, EnforcerPool, Parameter/FormParameter/"
        "UIJson.validate) stores or mutates state that outlives the call — fields of self, class attributes, globals, "
        "or (elements of) its arguments, with shallow-copy aliasing; an accumulator on self is accepted only if it is "
        "reset on every exit",
        floor=40,
    )
    p = ctx.p
    ana = make_analysis(ctx)
    eps = entry_points(p)
    if len(eps) < 40:
        raise AnalysisError(f"C15.PURE: only {len(eps)} validation entry points found")
    accepted = set()
    mods = scope_modules(p)
    fresh_memo: dict = {}

    def fresh_property(K, name):
        if (K, name) not in fresh_memo:
            m = K.lookup(name)
            ok = False
            if m and m[1] == "prop" and m[2].getter is not None:
                g = m[2].getter
                env, _ = ana.env(g, K)
                rets = [r.value for r in ast.walk(g.node) if isinstance(r, ast.Return) and r.value is not None]
                ok = bool(rets) and all(t[0] in ("fresh", "copy", "box") for r in rets for t in ana.eval(r, env, g, K))
            fresh_memo[(K, name)] = ok
        return fresh_memo[(K, name)]

    for fn, K in eps:
        effs = ana.summary(fn, K)
        bad = []
        for e in sorted(effs, key=lambda e: (e.where, str(e.target))):
            ofn, otarget, otext = e.origin
            if e.target[0] == "field" and fresh_property(K, e.target[1]):
                continue  # `self.<property>` whose getter builds a new object on every access: nothing persistent is touched
            if ofn.module not in mods and ofn.cls is not None and e.target[0] == "field":
                # reached through a method of one of the library's own container classes (SetDict.update rewrites its argument)
                bad.append((e, fn.cls.name, fn.prop or fn.name, f"{e.kind} self.{e.target[1]} through {ofn.cls.name}.{ofn.name}", fn.where))
                continue
            # accumulator idiom, judged at the outermost function of the owning class on the call chain
            if otarget[0] == "field" and otarget[2] == 0 and ofn.cls is not None and (e.kind == "mutate" or _is_reset_store(otext, otarget[1]) or _is_grow_store(otext, otarget[1])):
                owner = next((f for f in e.chain if f.cls is not None and (f.cls is ofn.cls or ofn.cls in f.cls.mro)), ofn)
                Ko = owner.cls
                ok = _reset_on_every_exit(ctx, owner, Ko, otarget[1], ana)
                if ok:
                    accepted.add(f"{Ko.name}.{owner.name}: accumulator self.{otarget[1]} reset on every exit (accepted)")
                    continue
                bad.append((e, Ko.name, owner.name, f"accumulator self.{otarget[1]} not reset on every exit", owner.where))
                continue
            tgt = f"self.{otarget[1]}" if otarget[0] == "field" else f"argument {otarget[1]}" if otarget[0] == "param" else str(otarget[1])
            bad.append((e, ofn.cls.name if ofn.cls else ofn.module.short, ofn.prop or ofn.name,
                        f"{e.kind} {tgt}{' (element)' if len(otarget) > 2 and otarget[2] else ''}: {otext}", e.where))
        res.inst(f"{K.name}.{fn.name} ({fn.where}): {len(effs)} effects", nontrivial=bool(effs), ok=not bad)
        for e, cname, member, construct, where in bad:
            res.find(
                cname, member, construct, where,
                f"validation entry point {K.name}.{fn.name} reaches a persistent side effect: {e.describe()} — "
                "a later call on the same object can give a different verdict for the same form and value",
                entry_point=f"{K.name}.{fn.name}",
            )
    res.notes += sorted(accepted)
    res.unresolved = sorted(set(ana.unresolved))[:40]
    res.notes.append("calls leaving ui_json/* and shared/validators.py (workspace look-ups) are treated as reads")
    return res


RULES = [rule_pure]


VALIDATION_CALLS = {"validate", "validate_data", "enforce"}

# Constructs of the findings recorded before the stores were described without local spellings: (class, member, field) ->
# (the store with self / parameters under positional names, the recorded text).  Keeps the recorded keys stable when a
# parameter or a temporary is renamed.
_LEGACY_COMMIT = {
    ("Parameter", "value", "_value"): ("self._value = __arg1__", "self._value = val"),
    ("InputFile", "data", "geoh5"): ("self.geoh5 = __arg1__['geoh5']", "self.geoh5 = value['geoh5']"),
}


def rule_commit(ctx) -> RuleResult:
    res = RuleResult(
        "C15.COMMIT",
        "C15",
        "a setter / set_* method of the ui.json classes that calls a fallible validation stores nothing on self "
        "before that validation on any path (validate, then commit)",
        floor=3,
    )
    p = ctx.p
    mods = scope_modules(p)

    def direct_validation(n, sn):
        if not (isinstance(n, ast.Call) and isinstance(n.func, ast.Attribute) and n.func.attr in VALIDATION_CALLS):
            return False
        root = n.func.value
        while isinstance(root, (ast.Attribute, ast.Subscript)):
            root = root.value
        return isinstance(root, ast.Name) and root.id == sn

    # property setters that validate: assigning such a property (`self.data = ..`) is a fallible validation for the caller
    validating = set()
    for f in p.all_functions():
        if f.module in mods and f.cls is not None and f.kind == "setter" and f.self_name:
            if any(direct_validation(x, f.self_name) for x in ast.walk(ctx.view(f).node)):
                validating.add((f.cls, f.prop or f.name))

    for fn0 in p.all_functions():
        if fn0.module not in mods or fn0.cls is None or fn0.self_name is None:
            continue
        declared = fn0.kind == "setter" or fn0.name.startswith(("set_", "update_"))
        if not declared and (fn0.kind not in ("getter", "method") or fn0.name.startswith("__")):
            continue
        # private helpers expanded in place: a validation or a store moved into / out of a helper is seen where it happens
        fn = ctx.view(fn0)
        sn = fn.self_name
        # `with self.<contextmanager method>():` written out (set-up, block, clean-up) so that an override / restore idiom is judged
        # the same whether it is in line or a reusable context manager
        if any(isinstance(x, (ast.With, ast.AsyncWith)) for x in ast.walk(fn.node)):
            fn = FuncInfo(name=fn.name, module=fn.module, node=expand_context_managers(fn.node, fn.cls, sn), cls=fn.cls, kind=fn.kind, prop=fn.prop)
        defs = single_assignments(fn.node)
        params = [x for x in fn.params if x != sn]

        def on_self(e):
            """`e` (aliases and temporaries undone) is self or something reached from self: the attribute name next to self, else None."""
            e = expanded(e, fn.node, defs)
            last = None
            while True:
                if isinstance(e, ast.Attribute):
                    last, e = e.attr, e.value
                elif isinstance(e, ast.Subscript):
                    e = e.value
                elif isinstance(e, ast.Call) and isinstance(e.func, ast.Attribute) and e.func.attr in ("get", "setdefault"):
                    e = e.func.value
                else:
                    break
            if isinstance(e, ast.Name) and e.id == sn:
                return last or ""
            return None

        def is_validation(n):
            if isinstance(n, ast.Attribute) and isinstance(n.ctx, ast.Store) and isinstance(n.value, ast.Name) and n.value.id == sn:
                m = fn.cls.lookup(n.attr)
                return bool(m and m[1] == "prop" and (m[0], n.attr) in validating and m[2].setter is not fn0)
            if not (isinstance(n, ast.Call) and isinstance(n.func, ast.Attribute) and n.func.attr in VALIDATION_CALLS):
                return False
            return on_self(n.func.value) is not None

        def flat(tg):
            for t in tg:
                if isinstance(t, (ast.Tuple, ast.List)):
                    yield from flat(t.elts)
                elif isinstance(t, ast.Starred):
                    yield from flat([t.value])
                else:
                    yield t

        def stores(n):
            out = []
            if isinstance(n, (ast.Assign, ast.AugAssign, ast.AnnAssign)) and not (isinstance(n, ast.AnnAssign) and n.value is None):
                for t in flat(n.targets if isinstance(n, ast.Assign) else [n.target]):
                    if isinstance(t, ast.Name):
                        continue  # re-binding a local
                    if is_validation(t):
                        continue  # assigning a validating property IS the validation (its setter is judged on its own)
                    fld = on_self(t)
                    if fld:
                        out.append((fld, n))
            return out

        def construct_text(st, fld):
            """The store with aliases undone and self / the parameters under positional names (no local spelling)."""
            e = expanded(st, fn.node, defs)
            for x in ast.walk(e):
                if isinstance(x, ast.Name):
                    x.id = "self" if x.id == sn else f"__arg{params.index(x.id) + 1}__" if x.id in params else x.id
            text = unparse(e)
            legacy = _LEGACY_COMMIT.get((fn.cls.name, fn.prop or fn.name, fld))
            if legacy and text == legacy[0]:
                return legacy[1]
            return re.sub(r"__arg(\d+)__", r"<arg\1>", text)[:60]

        g = CFG(fn.node)
        a_nodes = [nd for nd in g.nodes if nd.ast is not None and not isinstance(nd.ast, list) and any(is_validation(x) for x in ast.walk(nd.ast))]
        if not a_nodes:
            continue
        # nodes from which a validation call is still reachable
        reach = set()
        work = list(a_nodes)
        while work:
            nd = work.pop()
            for pr, _ in nd.pred:
                if pr not in reach:
                    reach.add(pr)
                    work.append(pr)

        def transfer(node, st):
            if node.ast is None or isinstance(node.ast, list):
                return st
            for x in ordered(node.ast):
                if is_validation(x):
                    return True
            return st

        def target_text(st):
            t = st.targets[0] if isinstance(st, ast.Assign) else st.target
            return unparse(expanded(t, fn.node, defs))

        def restored(nd, st):
            """The store is undone on every exceptional exit of the validations that follow it: each path from the exception edge of
            such a validation to the exceptional exit passes another store to the same target (try / finally, except + re-raise)."""
            tt = target_text(st)
            fwd, work = set(), [nd]
            while work:
                x = work.pop()
                for m, _ in x.succ:
                    if m not in fwd:
                        fwd.add(m)
                        work.append(m)
            for v in a_nodes:
                if v not in fwd:
                    continue
                starts = [m for m, lab in v.succ if lab == "exc"]
                if not starts:
                    return False  # not protected: the exception leaves the function at once
                seen, work = set(), list(starts)
                while work:
                    x = work.pop()
                    if x in seen:
                        continue
                    seen.add(x)
                    if x is g.rexit:
                        return False
                    if x.kind == "stmt" and any(target_text(s2) == tt for _, s2 in stores(x.ast)):
                        continue  # re-stored on this path
                    work += [m for m, _ in x.succ]
            return True

        IN = forward(g, False, transfer, lambda a, b: a and b)
        bad = []
        for nd in g.nodes:
            if nd.kind != "stmt" or nd not in reach or IN.get(nd, False):
                continue
            for fld, st in stores(nd.ast):
                # validation inside the same statement after the store cannot happen (rhs evaluated first)
                if not restored(nd, st):
                    bad.append((fld, st))
        inst = f"{fn.qualname}: {len(a_nodes)} validation call(s)"
        res.inst(inst, nontrivial=True, ok=not bad)
        # a field stored before the validation may hold a REJECTED value: whether the validation runs must then not depend on it
        # (`if val == self._value: return` accepts the second assignment of a value the first assignment rejected)
        if bad:
            risky = {f.lstrip("_") for f, _ in bad}

            def skips(start):
                """the normal exit is reachable from `start` without passing a validation"""
                seen, work = set(), [start]
                while work:
                    x = work.pop()
                    if x in seen or x in a_nodes:
                        continue
                    seen.add(x)
                    if x is g.exit:
                        return True
                    work += [m for m, lab in x.succ if lab not in ("exc", "raise")]
                return False

            deciding = []
            for nd in g.nodes:
                if nd.kind != "test" or nd in a_nodes:
                    continue
                outs = {lab: skips(m) for m, lab in nd.succ if lab in ("true", "false")}
                if len(outs) == 2 and outs["true"] != outs["false"]:
                    reads = {x.attr.lstrip("_") for x in ast.walk(expanded(nd.ast, fn.node, defs))
                             if isinstance(x, ast.Attribute) and isinstance(x.value, ast.Name) and x.value.id == sn}
                    deciding.append((nd, reads & risky))
            guilty = [(nd, r) for nd, r in deciding if r]
            res.inst(f"{fn.qualname}: {len(deciding)} condition(s) decide whether the validation runs; none reads a field stored before it",
                     nontrivial=True, ok=not guilty)
            for nd, r in guilty:
                res.find(fn.cls.name, fn.prop or fn.name, f"whether the validation runs depends on self.{sorted(r)[0]}, stored before validating",
                         f"{fn.module.relpath}:{nd.lineno}",
                         f"{fn.qualname} skips the validation depending on self.{sorted(r)[0]}, which holds whatever the previous assignment stored — also a value "
                         "that was rejected: assigning the same invalid value again is accepted silently (the verdict depends on the earlier call)")
        for fld, st in bad:
            res.find(fn.cls.name, fn.prop or fn.name, f"stores self.{fld} before validating: {construct_text(st, fld)}",
                     f"{fn.module.relpath}:{st.lineno}",
                     f"{fn.qualname} assigns self.{fld} and only afterwards runs the validation that may reject the value: "
                     "a rejected assignment leaves the new value stored")
    return res


def rule_rules(ctx) -> RuleResult:
    res = RuleResult(
        "C15.RULES",
        "C15",
        "(a) dependency_requires_value reads the driving parameter's state from `enabled` exactly when the driver is "
        "`optional` (else from its boolean `value`), un-negated for dependencyType 'enabled' and negated otherwise — the "
        "rule the ui.json documentation states; (b) AssociationValidator resolves an identifier for every value kind "
        "its signature and Workspace.get_entity can hand it (no kind falls into the silent `else: return`); (c) requires_value "
        "combines the switches as documented (group off -> not required, else dependency, else the own `enabled` of an `optional` "
        "form, else required): `enabled` decides nothing for a form without `optional`",
        floor=4,
    )
    p = ctx.p
    uj = p.module("ui_json/utils.py")
    fn = uj.functions.get("dependency_requires_value")
    if fn is None:
        raise AnalysisError("anchor ui_json.utils.dependency_requires_value not found")
    view = ctx.view(fn)

    def resolver(call):
        # helpers of the same module (public or private) that are plain branching code are unfolded in place; a loop is accepted
        # when it walks a literal table (hoisted constants substituted): the executor unrolls it exactly
        if isinstance(call.func, ast.Name):
            r = p.resolve_name(uj, call.func.id)
            if r and r[0] == "func" and r[1].node is not fn.node and r[1].module is uj and not r[1].node.decorator_list \
                    and not (r[1].node.args.vararg or r[1].node.args.kwarg):
                node = ctx.view(r[1], inline=False).node
                for x in ast.walk(node):
                    if isinstance(x, ast.For) and literal_elements(x.iter) is not None and not x.orelse:
                        continue
                    if isinstance(x, (ast.For, ast.While, ast.Try, ast.With, ast.Yield, ast.YieldFrom, ast.Lambda, ast.ListComp,
                                      ast.DictComp, ast.SetComp, ast.GeneratorExp)):
                        return None
                return node
        return None

    # (a) decided on the truth table of the function over its elementary conditions (paths unfolded, locals substituted):
    # independent of layout, local names, guard clauses / accumulators, De Morgan, if-expression vs if-statement
    def opaque(call):
        # a project function left as a call (loops, handlers, ...): its result is not understood — fail closed, do not guess
        f = call.func
        r = p.resolve_name(uj, f.id) if isinstance(f, ast.Name) else p.resolve_expr(uj, f) if isinstance(f, ast.Attribute) and isinstance(f.value, ast.Name) else None
        return bool(r and r[0] == "func")

    v = dependency_table(view.node, resolver, opaque)
    where = fn.where
    res.inst(f"dependency_requires_value: driver state member = 'enabled' iff driver.optional ({v.paths} paths, conditions {v.leaves})",
             nontrivial=True, ok=not v.selector)
    res.inst("dependency_requires_value: dependencyType 'enabled' -> driver state, otherwise its negation; default 'enabled'; an optional "
             "parameter that is required takes its own `enabled`", nontrivial=True, ok=not (v.polarity or v.other))
    for construct, why in v.selector:
        res.find("utils", "dependency_requires_value", construct, where,
                 "whether the driver's state is its `enabled` switch or its boolean `value` must depend on the driver being optional (truthy "
                 "`optional` member) only: a checkbox carrying a redundant `enabled` member, or a non-optional driver, is read through the wrong member "
                 f"and None is accepted/refused wrongly for the dependent parameter — {why}")
    for construct, why in v.polarity + v.other:
        res.find("utils", "dependency_requires_value", construct, where,
                 "an 'enabled' dependency must require the value when the driver is on, a 'disabled' one when it is off (default 'enabled') — " + why)
    # (c) the hierarchy of switches in requires_value (group > dependency > optional), same technique
    rv = uj.functions.get("requires_value")
    if rv is None:
        raise AnalysisError("anchor ui_json.utils.requires_value not found")
    deciders = {"group_requires_value": "group_req", "dependency_requires_value": "dep_req"}

    def resolver_c(call):
        return None if isinstance(call.func, ast.Name) and call.func.id in deciders else resolver(call) if getattr(call.func, "id", None) != rv.name else None

    h = requires_table(ctx.view(rv, inline=False).node, deciders, resolver_c)
    res.inst(f"requires_value: the form's own `enabled` decides only for a form that carries `optional` ({h.paths} paths, conditions "
             f"{[k for k in h.leaves if not k.startswith('x:')]})", nontrivial=True, ok=not h.enabled_unguarded)
    if h.enabled_unguarded:
        res.find("utils", "requires_value", "the form's own `enabled` decides the requirement of a form without `optional` member", rv.where,
                 "a mandatory form (no `optional`, no dependency, group not switched off) that carries `enabled: false` counts as not required: "
                 f"None is accepted for it — differs for {h.enabled_unguarded}")
    if h.full:
        res.inst("requires_value: group switch off -> not required; else dependency rule; else own `enabled` if optional; else required",
                 nontrivial=True, ok=not h.differs)
        if h.differs:
            res.find("utils", "requires_value", "the requirement differs from the documented group > dependency > optional hierarchy", rv.where,
                     f"the switches are no longer combined as documented — differs for {h.differs}")
    else:
        res.notes.append("requires_value: group / dependency deciders are not elementary calls here — only the `enabled` guard was decided")
    # (d) the group switch: the requirement is denied only under a truthy VALUE of a groupOptional member
    gv = uj.functions.get("group_requires_value")
    if gv is None:
        raise AnalysisError("anchor ui_json.utils.group_requires_value not found")
    denials, gpaths, greads = group_switch_denials(ctx.view(gv, inline=False).node, resolver)
    res.inst(f"group_requires_value: a group switches its members off only when the value of its `groupOptional` member is truthy "
             f"({gpaths} paths, {greads} value read(s))", nontrivial=True, ok=not denials)
    for line, members in denials[:1]:
        res.find("utils", "group_requires_value", "the group can deny the requirement without a truthy `groupOptional` value", f"{uj.relpath}:{line}",
                 "a group whose holder says `groupOptional: false` (or whose value is never read) is switched off by "
                 f"{members or 'other conditions'}: None is accepted for the required members of a group box that is not optional")
    # (e) object/data pairs: the membership of the data is tested against the children of ITS OWN parent
    RE = p.cls("RequiredObjectDataEnforcer")
    ms = [RE.lookup(nm)[2] for nm in ("rule", "enforce") if RE.lookup(nm) and RE.lookup(nm)[1] == "method"]
    sites = pair_membership_sites(RE, ms)
    if not sites:
        raise AnalysisError("RequiredObjectDataEnforcer: no membership test per (parent, data) pair of self.validations found")
    lost = sorted({ln for ln, used in sites if used != {0, 1}})
    res.inst(f"RequiredObjectDataEnforcer: {len(sites)} membership test(s) per (parent, data) pair depend on both members of the pair",
             nontrivial=True, ok=not lost)
    if lost:
        res.find("RequiredObjectDataEnforcer", "rule", "the membership test looks at one member of the (parent, data) pair only",
                 f"{RE.module.relpath}:{lost[0]}",
                 "the children the data is looked up in are not those of the pair's own parent (computed once for all pairs): a data selector is "
                 "accepted as soon as its value is a child of any referenced object")
    # (f) elements of a value exempted from a validator's raising check are the None ones only
    nl = 0
    for S in p.subclasses(p.cls("BaseValidator"), strict=True):
        m = S.own("validate")
        if not (m and m[0] == "method"):
            continue
        wide, n_ = element_exemptions(ctx.view(m[1]).node)
        nl += n_
        if n_:
            res.inst(f"{S.name}.validate: an element skips the raising check only when it is None ({n_} loop(s))", nontrivial=True, ok=not wide)
        for line, conds in wide[:1]:
            res.find(S.name, "validate", "elements other than None are exempted from the check", f"{m[1].module.relpath}:{line}",
                     f"an element leaves the loop unchecked under {conds}: falsy values (0, '', 0.0, False, empty containers) are never compared "
                     "with what the form allows")
    if nl == 0:
        raise AnalysisError("no validator inspects the elements of a value with a raising check (ValueValidator / TypeValidator loops not found)")
    # (b) AssociationValidator kinds
    V = p.cls("AssociationValidator")
    vf0 = V.methods.get("validate")
    if vf0 is None:
        raise AnalysisError("anchor AssociationValidator.validate not found")
    vf = ctx.view(vf0)

    def ann_names(a):
        out = set()
        for n in ast.walk(a) if a is not None else []:
            if isinstance(n, ast.Name):
                out.add(n.id)
            elif isinstance(n, ast.Attribute):
                out.add(n.attr)
            elif isinstance(n, ast.Constant) and isinstance(n.value, str):
                out |= {x.strip() for x in n.value.replace("|", ",").split(",")}
        return out - {"None", "list", "uuid", "Optional", "Union"}

    vparam = vf.params[2] if len(vf.params) > 2 else "value"
    valid_param = vf.params[3] if len(vf.params) > 3 else "valid"
    args = {a.arg: a for a in vf.node.args.args}
    if vparam not in args or valid_param not in args:
        raise AnalysisError("AssociationValidator.validate: (name, value, valid) signature not recognised")
    kinds = ann_names(args[vparam].annotation)
    ge = p.cls("Workspace").methods.get("get_entity")
    kinds |= ann_names(ge.node.returns) if ge is not None else set()
    valid_kinds = ann_names(args[valid_param].annotation)
    if not kinds or not valid_kinds:
        raise AnalysisError("AssociationValidator.validate: value / valid kinds not declared")
    # per kind of value (three-valued isinstance facts; `valid` a parent of its declared kinds): every normal exit passes a
    # check that inspects the value and can raise — whatever the shape of the dispatch (elif chain, guard clause, helper)
    missing, npaths = silent_kinds(p, vf.node, vparam, valid_param, sorted(kinds), sorted(valid_kinds))
    res.inst(f"AssociationValidator.validate: value kinds {sorted(kinds)} all reach the membership check ({npaths} paths)", nontrivial=True, ok=not missing)
    if missing:
        res.find("AssociationValidator", "validate", f"value kind(s) {missing} fall into the silent `else: return`", vf0.where,
                 f"a {missing[0]} value is accepted without checking that it belongs to the referenced parent / workspace")
    return res


def rule_stale(ctx) -> RuleResult:
    res = RuleResult(
        "C15.STALE",
        "C15",
        "replacing the form (InputFile.ui_json setter) derives the validation rules from the new form: what it stores in "
        "a field of self is not computed from that field's previous content with precedence over the rules inferred from "
        "the new form (rules inferred for an earlier form must not decide the verdict on the current one)",
        floor=1,
    )
    p = ctx.p
    IF = p.cls("InputFile")
    prop = IF.props.get("ui_json")
    if prop is None or prop.setter is None:
        raise AnalysisError("anchor InputFile.ui_json setter not found")
    st0 = prop.setter
    st = ctx.view(st0)
    sn = st.self_name or "self"

    def is_inferred(e):
        return any(isinstance(c, ast.Call) and (getattr(c.func, "attr", None) or getattr(c.func, "id", None)) in ("infer_validations", "_validations_from_uijson")
                   for c in ast.walk(e))

    if not is_inferred(st.node):
        raise AnalysisError("InputFile.ui_json setter: call to infer_validations not found")

    def field_of(target):
        """self.<f>, self.<f>[..]..  ->  f (the property name when <f> is the private field backing a property)."""
        b = target
        while isinstance(b, ast.Subscript):
            b = b.value
        if isinstance(b, ast.Attribute) and isinstance(b.value, ast.Name) and b.value.id == sn:
            return public(b.attr)
        return None

    def public(attr):
        return attr[1:] if attr.startswith("_") and attr[1:] in IF.props else attr

    def reads_field(e, fld):
        return any(isinstance(x, ast.Attribute) and isinstance(x.value, ast.Name) and x.value.id == sn and public(x.attr) == fld for x in ast.walk(e))

    # every path of the setter, locals substituted (loop variables are elements of what is iterated): what is stored into a field of
    # self, layer by layer of the merged mapping — independent of the names of the locals, of aliases of self.<field>, of the
    # merge idiom ({**a, **b} / dict(a, **b) / a | b / copy + update) and of where the merge is computed
    per_field: dict = {}
    for oc in Executor().run(st.node):
        stores = [(t, v, stmt) for kind, t, v, stmt in oc.events if kind == "store"]
        # x.update(b) on (an element of) a field of self: the field keeps its content, b on top
        for kind, c, _, stmt in oc.events:
            if kind == "call" and isinstance(c.func, ast.Attribute) and c.func.attr == "update" and len(c.args) == 1:
                stores.append((c.func.value, ast.Dict(keys=[None, None], values=[c.func.value, c.args[0]]), stmt))
        for t, v, stmt in stores:
            fld = field_of(t)
            if fld is None or v is None or not is_inferred(v):
                continue
            ls = layers(v)
            idx_old = [i for i, x in enumerate(ls) if reads_field(x, fld) and not is_inferred(x)]
            idx_new = [i for i, x in enumerate(ls) if is_inferred(x)]
            carried = bool(idx_old and idx_new and max(idx_old) > min(idx_new))
            rec = per_field.setdefault(fld, {"n": 0, "carried": None})
            rec["n"] += 1
            if carried and rec["carried"] is None:
                rec["carried"] = stmt
    for fld, rec in sorted(per_field.items()):
        field = f"self.{fld}"
        carried = rec["carried"] is not None
        res.inst(f"InputFile.ui_json setter: {field} receives the rules inferred from the new form on {rec['n']} path store(s) (rules from the new form win)",
                 nontrivial=True, ok=not carried)
        if carried:
            res.find("InputFile", "ui_json", f"previous content of {field} overrides the rules inferred from the new form",
                     f"{st.module.relpath}:{getattr(rec['carried'], 'lineno', st0.node.lineno)}",
                     f"{field}[key] keeps what an earlier form put there (the setter cannot tell inferred rules from user-supplied ones): after the form of "
                     "a parameter is replaced, values are still judged by the old form's types / association / optional rules")
    return res


def rule_shared(ctx) -> RuleResult:
    res = RuleResult(
        "C15.SHARED",
        "C15",
        "inferring the validation rules of a form (InputValidation.infer_validations and the helpers it expands to) mutates no object in "
        "place that may be a module-level or class-level mutable container: a hoisted table handed out by reference and then extended "
        "(`types += [list]`) would make every later inference depend on the forms seen before",
        floor=2,
    )
    p = ctx.p
    IV = p.cls("InputValidation")
    root = IV.methods.get("infer_validations")
    if root is None:
        raise AnalysisError("anchor InputValidation.infer_validations not found")
    mod = root.module

    def body(fi):
        return ctx.view(fi, inline=False, consts=False).node

    def usable(fi):
        return fi.module is mod and not (fi.node.args.vararg or fi.node.args.kwarg) and \
            not any(isinstance(x, (ast.Yield, ast.YieldFrom)) for x in ast.walk(fi.node))

    def resolver(call):
        f = call.func
        if isinstance(f, ast.Name):
            r = p.resolve_name(mod, f.id)
            if r and r[0] == "func" and r[1] is not root and usable(r[1]):
                return body(r[1])
        elif isinstance(f, ast.Attribute) and isinstance(f.value, ast.Name):
            r = p.resolve_name(mod, f.value.id)
            K = r[1] if r and r[0] == "class" else IV if f.value.id in ("cls", "self") else None
            m = K.lookup(f.attr) if K is not None else None
            if m and m[1] == "method" and m[2] is not root and usable(m[2]):
                return body(m[2]) if m[2].kind == "staticmethod" else (body(m[2]), f.value)
        return None

    node = body(root)
    params = [a.arg for a in node.args.posonlyargs + node.args.args + node.args.kwonlyargs]
    outs = Executor(resolver, max_depth=4).run(node)
    sites: dict = {}
    for oc in outs:
        for kind, recv, _, stmt in oc.events:
            if kind != "mutate" or stmt is None:
                continue
            rec = sites.setdefault(stmt.lineno, set())
            for o in objects_of(recv):
                nm = shared_root(p, mod, IV, o, params)
                if nm:
                    rec.add(nm)
    for line, shared in sorted(sites.items()):
        res.inst(f"rule inference, in-place mutation at {mod.relpath}:{line}: the mutated object is built by the inference itself", nontrivial=True, ok=not shared)
        for nm in sorted(shared):
            res.find("InputValidation", "infer_validations", f"mutates the shared container `{nm}` in place", f"{mod.relpath}:{line}",
                     f"`{nm}` is created once (module / class level) and reaches this in-place mutation by reference: what one form adds (NoneType, list, ...) "
                     "stays in the rules inferred for every later form — the verdict depends on earlier inference calls")
    return res


def rule_reset(ctx) -> RuleResult:
    res = RuleResult(
        "C15.RESET",
        "C15",
        "a cached validation object (a lazily built InputValidation / enforcer pool kept in a field of self) that is derived from the form "
        "is dropped on every path of a method that re-binds the form, or any other field its getter reads (the user's rules, the options): "
        "assigning new forms / rules / options never leaves the validator built for the previous ones",
        floor=3,
    )
    from ..cache import deps, memo_getters, none_tested_field

    p = ctx.p
    mods = scope_modules(p)

    def validating_class(e):
        """the stored value is an instance of a class of the scope that validates (has validate / validate_data / enforce)"""
        if isinstance(e, ast.Call):
            f = e.func
            r = p.resolve_name(mod, f.id) if isinstance(f, ast.Name) else p.resolve_expr(mod, f) if isinstance(f, ast.Attribute) else None
            if r and r[0] == "class":
                return any(r[1].lookup(n) for n in VALIDATION_CALLS)
            if r and r[0] == "func" and r[1].cls is not None:  # alternative constructor
                return any(r[1].cls.lookup(n) for n in VALIDATION_CALLS)
        return False

    for K in [c for c in p.classes if c.module in mods]:
        mod = K.module
        form = K.lookup("ui_json")
        if not (form and form[1] == "prop" and form[2].getter is not None):
            continue
        # the field(s) behind the form property
        backing = {x.attr for x in ast.walk(form[2].getter.node) if isinstance(x, ast.Attribute) and isinstance(x.value, ast.Name)
                   and x.value.id == form[2].getter.self_name and x.attr.startswith("_")}
        for prop, fld, getter in memo_getters(K):
            gsn = getter.self_name
            built = [st.value for st in ast.walk(getter.node) if isinstance(st, ast.Assign) and any(
                isinstance(t, ast.Attribute) and t.attr == fld and isinstance(t.value, ast.Name) and t.value.id == gsn for t in st.targets)]
            if not any(validating_class(v) for v in built):
                continue
            # every field the getter reads, directly or through the properties it consults (the form, the user's rules, the options)
            dep = deps(K, getter, fld)
            if not (dep & backing):
                continue
            for fn0 in [f for c in K.mro if not isinstance(c, str) for f in list(c.methods.values()) +
                        [s_ for pr in c.props.values() for s_ in (pr.setter, pr.getter) if s_]]:
                if fn0.self_name is None or fn0.name.startswith("__") or fn0 is getter:
                    continue  # __init__: the object is being built, nothing is cached yet
                fn = ctx.view(fn0)
                sn = fn.self_name
                # a getter that fills its own field with the default while it is still None (`if self._x is None: self._x = <default>`) does
                # not re-bind anything the user assigned — it is what building the cached validator itself triggers
                default_fill = set()
                if fn0.kind == "getter":
                    gg = CFG(fn.node)

                    def none_fact(test, fld_):
                        """(truth of the test that establishes `self.<fld_> is None`) or None"""
                        if fld_ in none_tested_field(test, sn):
                            return True
                        if isinstance(test, ast.UnaryOp) and isinstance(test.op, ast.Not) and none_fact(test.operand, fld_) is not None:
                            return not none_fact(test.operand, fld_)
                        if isinstance(test, ast.Compare) and len(test.ops) == 1 and isinstance(test.ops[0], ast.IsNot) and isinstance(test.comparators[0], ast.Constant) \
                                and test.comparators[0].value is None and isinstance(test.left, ast.Attribute) and test.left.attr == fld_ \
                                and isinstance(test.left.value, ast.Name) and test.left.value.id == sn:
                            return False
                        return None

                    for d_ in dep:
                        def tr(node, known, d_=d_):
                            if node.kind == "test":
                                nf = none_fact(node.ast, d_)
                                if nf is not None:
                                    return {"true" if nf else "false": True, None: known}
                            if node.kind == "stmt" and any(isinstance(t, ast.Attribute) and t.attr == d_ and isinstance(t.ctx, ast.Store) for t in ast.walk(node.ast)):
                                return False
                            return known

                        known_in = forward(gg, False, tr, lambda x, y: x and y)
                        for nd in gg.nodes:
                            if nd.kind == "stmt" and known_in.get(nd, False) and isinstance(nd.ast, (ast.Assign, ast.AnnAssign)):
                                tg = nd.ast.targets if isinstance(nd.ast, ast.Assign) else [nd.ast.target]
                                if any(isinstance(t, ast.Attribute) and t.attr == d_ and isinstance(t.value, ast.Name) and t.value.id == sn for t in tg):
                                    default_fill.add(id(nd.ast))

                def rebinds(st, names):
                    if id(st) in default_fill:
                        return False
                    if isinstance(st, ast.Delete):
                        tg = st.targets
                    elif isinstance(st, (ast.Assign, ast.AugAssign, ast.AnnAssign)):
                        tg = st.targets if isinstance(st, ast.Assign) else [st.target]
                    else:
                        return False
                    flat = [x for t in tg for x in (t.elts if isinstance(t, (ast.Tuple, ast.List)) else [t])]
                    return any(isinstance(t, ast.Attribute) and isinstance(t.value, ast.Name) and t.value.id == sn and t.attr in names for t in flat)

                if not any(rebinds(st, dep) for st in ast.walk(fn.node)):
                    continue
                g = CFG(fn.node)

                def transfer(node, states):
                    if node.kind != "stmt":
                        return states
                    d, r = rebinds(node.ast, dep), rebinds(node.ast, {fld})
                    return frozenset(((a or d), (b or r)) for a, b in states)

                IN = forward(g, frozenset({(False, False)}), transfer, lambda a, b: a | b)
                stale = (True, False) in IN.get(g.exit, frozenset())
                hit = sorted({t.attr for st_ in ast.walk(fn.node) if rebinds(st_, dep) for t in ast.walk(st_)
                              if isinstance(t, ast.Attribute) and isinstance(t.ctx, (ast.Store, ast.Del)) and t.attr in dep})
                res.inst(f"{K.name}.{fn0.name}{'[' + fn0.kind + ']' if fn0.kind in ('setter', 'getter') else ''}: re-binds {hit}; the cached {prop} "
                         f"(self.{fld}) is dropped on every path that does", nontrivial=True, ok=not stale)
                if stale:
                    what = "the form" if set(hit) & backing else f"self.{hit[0]}"
                    res.find(K.name, fn0.prop or fn0.name, f"a path re-binds {what} without dropping the cached {prop}", fn0.where,
                             f"self.{fld} keeps the validation object built from the previous {', '.join(hit)}: later values are judged by the old rules / options")
    return res


RULES = [rule_pure, rule_commit, rule_rules, rule_stale, rule_shared, rule_reset]
