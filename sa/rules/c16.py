"""C16 — merging: provenance of the cell index offset and of the data offsets.

The sites are located by what they do (the addition applied to an input's `cells`; the slice store of a data's `values`;
the stores into the running-offset table that the slice start is read from; the re-indexing store `x.values = x.values[..]`),
on the normalised view of each function (private helpers expanded) with loops over literal tables unrolled, and every
comparison is made on alias-expanded expressions (temporaries, values read once into a local, split / merged statements
and renamed locals do not matter) — see _c16_flow.py.
"""

from __future__ import annotations

import ast
import re

from ..model import AnalysisError, unparse
from ..report import RuleResult
from ..roles import param
from ._c16_seq import paired_offset
from ._c16_more import drape_offsets, geometry_kept, grouping_key, same_inputs
from ._c16_flow import _record_arg, element_vars, enclosing, fold_uses, iterates, prepared, reachable, resolve_call, static_value

_SHIFTED = "shifted_cells__"  # stands for `<input>.cells + <offset>` inside an offset source (a local in the pinned tree)
_MODULES = ("np", "numpy", "int")


def _leaves(expr):
    """Maximal Name/Attribute/Subscript chains of an expression; calls contribute their arguments and, for method calls,
    their receiver (`x.cells.max()` reads `x.cells`); `len(<chain>)` is kept whole."""
    out = []

    def root(e):
        while isinstance(e, (ast.Attribute, ast.Subscript)):
            e = e.value
        return e

    def rec(e):
        if isinstance(e, (ast.Attribute, ast.Subscript)) and not isinstance(root(e), ast.Name):
            rec(root(e))  # `(a + b).size`, `f(x)[0]`: what the chain is rooted at
            if isinstance(e, ast.Subscript):
                rec(e.slice)
        elif isinstance(e, (ast.Attribute, ast.Name)):
            out.append(unparse(e))
        elif isinstance(e, ast.Subscript):
            out.append(unparse(e))
        elif isinstance(e, ast.Call):
            fname = unparse(e.func)
            if fname == "len" and len(e.args) == 1:
                out.append(f"len({unparse(e.args[0])})")
                return
            if isinstance(e.func, ast.Attribute):
                rec(e.func.value)
            for a in e.args:
                rec(a)
            for k in e.keywords:
                rec(k.value)
        elif isinstance(e, ast.Constant):
            pass
        else:
            for c in ast.iter_child_nodes(e):
                if isinstance(c, ast.expr):
                    rec(c)

    rec(expr)
    return out


def _vertex_count_source(leaf: str, ent: str) -> bool:
    return leaf in (f"{ent}.n_vertices", f"{ent}.vertices.shape[0]", f"len({ent}.vertices)", f"{ent}.vertices.shape")


def _bare(leaf: str) -> bool:
    return "." not in leaf and "(" not in leaf and "[" not in leaf


def _role_text(text: str, mapping: dict) -> str:
    """`text` with the spellings of role-carrying expressions replaced by the role (finding keys carry no local names)."""
    for spelled, role in mapping.items():
        if not spelled:
            continue
        if spelled.isidentifier():
            text = re.sub(rf"(?<![\w.]){re.escape(spelled)}\b", role, text)
        else:
            text = text.replace(spelled, role)
    return text


def _unwrapped(e):
    """x.copy() / x.astype(..) / np.array(x) / np.asarray(x) -> x"""
    while True:
        if isinstance(e, ast.Call) and isinstance(e.func, ast.Attribute) and e.func.attr in ("copy", "astype"):
            e = e.func.value
        elif isinstance(e, ast.Call) and isinstance(e.func, ast.Attribute) and e.func.attr in ("array", "asarray") and e.args \
                and isinstance(e.func.value, ast.Name) and e.func.value.id in ("np", "numpy"):
            e = e.args[0]
        else:
            return e


def _cells_owner(e):
    """The expression whose `.cells` this is, else None."""
    e = _unwrapped(e)
    if isinstance(e, ast.Attribute) and e.attr == "cells":
        return e.value
    return None


def _const(ctx, fn, e):
    """The literal a key expression stands for: a constant, or a module / class level name bound to one."""
    if isinstance(e, ast.Constant):
        return e.value
    v = static_value(ctx.p, fn)(e)
    return v.value if isinstance(v, ast.Constant) else None


# ---------------------------------------------------------------------- CellMerger.create_object
def _add_operands(n):
    """(a, b) of `a + b` / `np.add(a, b)`, else None."""
    if isinstance(n, ast.BinOp) and isinstance(n.op, ast.Add):
        return n.left, n.right
    if isinstance(n, ast.Call) and isinstance(n.func, ast.Attribute) and n.func.attr == "add" and isinstance(n.func.value, ast.Name) \
            and n.func.value.id in ("np", "numpy") and len(n.args) == 2 and not n.keywords:
        return n.args[0], n.args[1]
    return None


def _anchor(ctx, cname, mname):
    """(class, method as the class sees it): the method may have moved to a base class (template method)."""
    ci = ctx.p.cls(cname)
    m = ci.lookup(mname)
    if m is None or m[1] != "method":
        raise AnalysisError(f"anchor {cname}.{mname} not found")
    return ci, m[2]


def _cell_offset(ctx, res):
    ci, cm0 = _anchor(ctx, "CellMerger", "create_object")
    # the function with its helpers expanded, then whatever it reaches that could not be expanded in place: super(), hooks
    # dispatched on the class (as CellMerger and its subclasses see them), generators
    found = 0
    views = [(ctx.view(cm0), ci)] + reachable(ctx, cm0, ci)
    folds = fold_uses(ctx, views)
    for fn, recv in views:
        found += _cell_offset_in(ctx, res, fn, recv, folds.get((fn.module.relpath, fn.cls.name if fn.cls is not None else None, fn.name)))
    if not found:
        raise AnalysisError("CellMerger.create_object: `<entity>.cells + <offset>` not found")


def _cell_offset_in(ctx, res, fn, recv, fold_inits=None) -> int:
    node, lc = prepared(ctx, fn, recv)
    # the step function of a fold: its first parameter is the loop-carried state (sources: the initial state, what the step returns)
    explicit0 = fn.params[1:] if fn.kind in ("method", "classmethod") else fn.params
    state = explicit0[0] if fold_inits and explicit0 else None
    state_sources = (list(fold_inits) + [r.value for r in ast.walk(node) if isinstance(r, ast.Return) and r.value is not None]) if state else []

    def projected(src, rest):
        """The part `rest` ('' | '.field' | '[i]') of a state value, else None."""
        src = lc.expand(src)
        if not rest:
            return src
        m = re.fullmatch(r"\.([A-Za-z_]\w*)|\[(-?\d+)\]", rest)
        if m is None:
            return None
        if isinstance(src, ast.Call) and lc.fields is not None and lc.fields(src):
            fl = lc.fields(src)
            name = m.group(1) if m.group(1) else (fl[int(m.group(2))] if -len(fl) <= int(m.group(2)) < len(fl) else None)
            return _record_arg(src, fl, name) if name else None
        if isinstance(src, (ast.Tuple, ast.List)) and m.group(2) is not None and not any(isinstance(e, ast.Starred) for e in src.elts):
            i = int(m.group(2))
            return src.elts[i] if -len(src.elts) <= i < len(src.elts) else None
        return None
    sites = []  # (owner of .cells, offset expression, text of the shifted cells)
    shifted_names = set()
    inner_adds = {id(x) for n in ast.walk(node) if isinstance(n, ast.BinOp) and isinstance(n.op, ast.Add)
                  for x in (n.left, n.right) if isinstance(x, ast.BinOp) and isinstance(x.op, ast.Add)}
    for n in ast.walk(node):
        ops = _add_operands(n)
        if ops is not None and id(n) not in inner_adds:
            # a chain a + b + c is one sum: the cells are one term, the offset is the sum of the others
            terms = []

            def flat(e):
                if isinstance(e, ast.BinOp) and isinstance(e.op, ast.Add):
                    flat(e.left)
                    flat(e.right)
                else:
                    terms.append(e)

            if isinstance(n, ast.BinOp):
                flat(n)
            else:
                terms = list(ops)
            for i, a in enumerate(terms):
                owner = _cells_owner(lc.expand(a))
                if owner is not None and len(terms) > 1:
                    rest = terms[:i] + terms[i + 1:]
                    b = rest[0]
                    for r in rest[1:]:
                        b = ast.copy_location(ast.BinOp(left=b, op=ast.Add(), right=r), n)
                    sites.append((owner, b, lc.text(n), n))
                    break
        elif isinstance(n, ast.AugAssign) and isinstance(n.op, ast.Add) and isinstance(n.target, ast.Name):
            for d in lc.defs.get(n.target.id, []):
                owner = _cells_owner(lc.expand(d))
                if owner is not None:
                    sites.append((owner, n.value, None, n))
                    shifted_names.add(n.target.id)  # `t = x.cells.copy(); t += offset`: t is the shifted cells
    if not sites:
        return 0
    shifted = {t for _, _, t, _ in sites if t}

    class Fold(ast.NodeTransformer):
        def visit_BinOp(self, b):
            if unparse(b) in shifted:
                return ast.copy_location(ast.Name(id=_SHIFTED, ctx=ast.Load()), b)
            self.generic_visit(b)
            return b

        def visit_Call(self, c):
            if unparse(c) in shifted:
                return ast.copy_location(ast.Name(id=_SHIFTED, ctx=ast.Load()), c)
            self.generic_visit(c)
            return c

    def is_local(root):
        return root == _SHIFTED or root in shifted_names or ((root in lc.defs or root in lc.augs or root in lc.opaque) and root not in lc.params)

    done = set()
    explicit = fn.params[1:] if fn.kind in ("method", "classmethod") else fn.params
    for owner, off, _t, site in sites:
        ent = unparse(owner)
        followed: set = set()
        queue = [(off, True, True)]
        # vectorised spelling: the offset is an element of a sequence paired with the inputs (zip / enumerate under a comprehension
        # or a for loop) — the pairing must give input k the sum of one per-input quantity over the inputs BEFORE k
        binder = _binder(node, site, off)
        paired = paired_offset(lc, explicit, binder[0], binder[1], owner, off) if binder is not None else None
        if paired is not None:
            aligned, quantities = paired
            res.inst("CellMerger.create_object: the offset paired with each input accumulates over the inputs before it", nontrivial=True, ok=aligned)
            if not aligned:
                res.find("CellMerger", "create_object", "cell offset of an input is not the accumulated count of the inputs before it",
                         f"{fn.module.relpath}:{getattr(site, 'lineno', fn.node.lineno)}",
                         "the sequence of offsets is not aligned with the inputs (offset k must be the sum of the counts of inputs 0..k-1: an exclusive "
                         "prefix sum drops the LAST count and starts with 0): every input after the first is shifted by the counts of the wrong inputs")
            # the per-input quantity that is accumulated is judged like the update of a running offset
            queue = []
            for qexpr, var in quantities:
                ent = var
                queue.append((qexpr, True, False))
        while queue:
            s, additive, initial = queue.pop(0)
            sx = Fold().visit(lc.expand(s))
            bad = []
            for lf in _leaves(sx):
                if lf in followed or _vertex_count_source(lf, ent) or lf in _MODULES:
                    continue
                if state is not None and re.match(rf"{re.escape(state)}(?![\w])", lf) and state not in lc.defs and state not in lc.augs:
                    # a read of the fold's state: whatever flows into that part of the state is a source
                    parts = [projected(src, lf[len(state):]) for src in state_sources]
                    if parts and all(x is not None for x in parts):
                        followed.add(lf)
                        queue += [(x, True, False) for x in parts]
                        continue
                if _bare(lf) and lf != _SHIFTED and lf not in shifted_names and lf not in lc.params and lf not in lc.opaque and (lf in lc.defs or lf in lc.augs):
                    # an accumulator / re-bound local: everything assigned to it is a source as well
                    followed.add(lf)
                    queue += [(v, add, False) for v, add in lc.sources(lf)]
                    continue
                bad.append(lf)
            if initial:
                # what is ADDED to the cells is the carried offset alone: the input's own count may flow into the offset only when it
                # is advanced for the next input (loop, fold and helper spellings alike)
                own = [lf for lf in _leaves(sx) if _vertex_count_source(lf, ent)]
                res.inst("CellMerger.create_object: the offset added to an input's cells does not contain that input's own count", ok=not own)
                if own:
                    res.find("CellMerger", "create_object", "cell offset is advanced before it is applied to the same input's cells",
                             f"{fn.module.relpath}:{getattr(s, 'lineno', fn.node.lineno)}",
                             f"the expression added to the input's cells reads the input's own vertex count (`{unparse(s)[:50]}`): each input is shifted by "
                             "its own count as well (offset k must be the sum over the inputs before k)")
            if initial and isinstance(s, ast.Name) and s.id in followed and not bad:
                continue  # the offset variable itself: its sources are judged one by one
            mark = (ent, unparse(s), additive)
            if mark in done:
                continue
            done.add(mark)
            ok = not bad and additive
            res.inst(f"CellMerger.create_object: offset source `{unparse(s)[:50]}`", nontrivial=True, ok=ok)
            if ok:
                continue
            where = f"{fn.module.relpath}:{getattr(s, 'lineno', fn.node.lineno)}"
            if bad:
                # key without local spellings: the offending source is named by what it is (a chain rooted at the input keeps its text
                # with the input named by role, anything rooted at a local becomes <local>)
                root = re.match(r"(?:len\()?([A-Za-z_]\w*)", bad[0])
                rooted_at_input = bad[0].startswith(ent) or bad[0].startswith(f"len({ent}")
                shown = "<local>" if (_bare(bad[0]) or (root and is_local(root.group(1)) and not rooted_at_input)) else _role_text(bad[0], {ent: "<input>"})
                if paired is not None and paired[0] and bad[0] == f"{ent}.cells":
                    # accumulating max(cells) + 1 of every input IS the pinned loop (the maximum of the shifted cells is the running sum of
                    # these): the same defect under the same key
                    shown = "<local>"
                res.find("CellMerger", "create_object", f"cell offset derives from {shown}", where,
                         f"the offset added to each input's cells comes from `{unparse(s)[:50]}` (a cell-value source) instead of the input's vertex "
                         "count: an input with a vertex above its highest referenced one shifts every following input's cells onto wrong vertices")
            else:
                res.find("CellMerger", "create_object", "cell offset has a non-additive update", where,
                         f"the offset added to each input's cells is updated by `{unparse(s)[:50]}` with an operator other than +: it is not the "
                         "accumulated vertex count of the preceding inputs")
        # loop spelling: within one pass of the loop the offset is applied to the input's cells BEFORE it is advanced by that input
        if paired is None and followed:
            loop = next((x for x, _ in reversed(enclosing(node, _stmt_of(node, site))) if isinstance(x, (ast.For, ast.AsyncFor, ast.While))), None)
            if loop is not None:
                order = _stmts_in_order(loop.body)
                here = _stmt_of(node, site)
                pos = next((i for i, st in enumerate(order) if st is here), None)
                early = [st for i, st in enumerate(order) if pos is not None and i < pos and isinstance(st, (ast.Assign, ast.AnnAssign, ast.AugAssign))
                         and any(isinstance(t, ast.Name) and t.id in followed for t in (st.targets if isinstance(st, ast.Assign) else [st.target]))]
                res.inst("CellMerger.create_object: the offset is applied to an input's cells before it is advanced by that input", ok=not early)
                if early:
                    res.find("CellMerger", "create_object", "cell offset is advanced before it is applied to the same input's cells",
                             f"{fn.module.relpath}:{early[0].lineno}",
                             "inside the loop over the inputs the running offset is updated first and added to the cells afterwards: each input is shifted by "
                             "its own count as well (offset k must be the sum over the inputs before k)")
    return len(sites)


def _stmts_in_order(stmts) -> list:
    """Statements of a block in document order, nested blocks included."""
    out = []
    for st in stmts:
        out.append(st)
        for fld in ("body", "orelse", "finalbody"):
            blk = getattr(st, fld, None)
            if isinstance(blk, list) and blk and isinstance(blk[0], ast.stmt):
                out += _stmts_in_order(blk)
        for h in getattr(st, "handlers", []) or []:
            out += _stmts_in_order(h.body)
    return out


def _stmt_of(fn_node, x):
    """The innermost statement holding the node."""
    best = None
    for st in _stmts_in_order(fn_node.body):
        if st is x or any(y is x for y in ast.walk(st)):
            best = st
    return best if best is not None else x


def _binder(fn_node, site, off):
    """(iterable, target) of the innermost comprehension / for loop around the site that binds a name of the offset expression
    together with something else (`for x, o in zip(..)`), else None."""
    names = {x.id for x in ast.walk(off) if isinstance(x, ast.Name)}
    best = None
    for n in ast.walk(fn_node):
        cands = []
        if isinstance(n, (ast.ListComp, ast.SetComp, ast.GeneratorExp)) and len(n.generators) == 1 and not n.generators[0].ifs:
            cands.append((n.generators[0].iter, n.generators[0].target, n))
        elif isinstance(n, ast.For):
            cands.append((n.iter, n.target, n))
        for it, tg, holder in cands:
            if isinstance(tg, (ast.Tuple, ast.List)) and names & {x.id for x in ast.walk(tg) if isinstance(x, ast.Name)} and any(y is site for y in ast.walk(holder)):
                size = sum(1 for _ in ast.walk(holder))
                if best is None or size < best[0]:
                    best = (size, it, tg)
    return (best[1], best[2]) if best else None


# ---------------------------------------------------------------------- BaseMerger.merge_data
def _bounds(sl, lc):
    """(lower, upper) of a destination index: `a:b`, slice(a, b), range / np.arange(a, b); None when it is not a range."""
    if isinstance(sl, ast.Slice):
        return (sl.lower, sl.upper) if sl.step is None else None
    e = lc.expand(sl)
    if isinstance(e, ast.Slice):
        return (e.lower, e.upper) if e.step is None else None
    if isinstance(e, ast.Call) and not e.keywords and len(e.args) == 2:
        f = e.func
        nm = f.attr if isinstance(f, ast.Attribute) else getattr(f, "id", None)
        if nm in ("slice", "range", "arange"):
            return e.args[0], e.args[1]
    return None


def _assoc_test(ctx, fn, test, dvar):
    """(K, positive?) for a test of the data's own association against one association: `<data>.association.name == "K"`,
    `<data>.association == <Enum>.K`, `is`, and their negations; else None."""
    if not (isinstance(test, ast.Compare) and len(test.ops) == 1 and isinstance(test.ops[0], (ast.Eq, ast.Is, ast.NotEq, ast.IsNot))):
        return None
    positive = isinstance(test.ops[0], (ast.Eq, ast.Is))
    for a, b in ((test.left, test.comparators[0]), (test.comparators[0], test.left)):
        if unparse(a) == f"{dvar}.association.name":
            k = _const(ctx, fn, b)
            if isinstance(k, str):
                return k, positive
        if unparse(a) == f"{dvar}.association" and isinstance(b, ast.Attribute) and b.attr.isupper():
            return b.attr, positive
    return None


def _var_slots(ctx, fn, lo, dvar, keys):
    """{association: local} when the (alias-expanded) slice start chooses one local per association by testing the data's own
    association — the elif-chain form of the offset table; None for anything else."""
    slots, remaining, e = {}, list(keys), lo
    while isinstance(e, ast.IfExp):
        kt = _assoc_test(ctx, fn, e.test, dvar)
        if kt is None:
            return None
        then, other = (e.body, e.orelse) if kt[1] else (e.orelse, e.body)
        if not isinstance(then, ast.Name) or kt[0] not in remaining:
            return None
        slots[kt[0]] = then.id
        remaining.remove(kt[0])
        e = other
    if slots and isinstance(e, ast.Name) and len(remaining) == 1:
        slots[remaining[0]] = e.id
        return slots
    return None


def _data_offsets(ctx, res):
    md = ctx.view("BaseMerger.merge_data")
    node, lc = prepared(ctx, md)
    coll = param(md, 1, "input_entities")
    want = {"VERTEX": "n_vertices", "CELL": "n_cells"}
    # the destination of each data's values: `<merged values>[a:b] = <data>.values`
    writes = []
    for n in ast.walk(node):
        if isinstance(n, ast.Assign) and len(n.targets) == 1 and isinstance(n.targets[0], ast.Subscript):
            v = lc.expand(n.value)
            b = _bounds(n.targets[0].slice, lc)
            if isinstance(v, ast.Attribute) and v.attr == "values" and b is not None:
                writes.append((n, unparse(v.value), b))
    if not writes:
        raise AnalysisError("BaseMerger.merge_data: the slice store `<merged values>[start:end] = <data>.values` not found")
    # the running offsets: the table the slice start is read from (else the dict initialised with the association names), or
    # one local per association chosen by a test of the data's association (`v if assoc == "VERTEX" else c`)
    tables, slots = [], {}
    for _n, dvar, (lower, _u) in writes:
        lo = lc.expand(lower) if lower is not None else None
        if isinstance(lo, ast.Subscript) and isinstance(lo.value, ast.Name) and lo.value.id not in tables:
            tables.append(lo.value.id)
        slots.update(_var_slots(ctx, md, lo, dvar, list(want)) or {})
    if not tables and not slots:
        for n in ast.walk(node):
            if isinstance(n, (ast.Assign, ast.AnnAssign)) and isinstance(n.value, ast.Dict) and {getattr(k, "value", None) for k in n.value.keys} == set(want):
                tg = n.targets[0] if isinstance(n, ast.Assign) else n.target
                if isinstance(tg, ast.Name) and tg.id not in tables:
                    tables.append(tg.id)
    if not tables and not slots:
        raise AnalysisError("BaseMerger.merge_data: running-offset dictionary {'VERTEX': 0, 'CELL': 0} not found")
    slot_key = {nm: k for k, nm in slots.items()}
    updates = []  # (statement, target, association key)
    for n in ast.walk(node):
        if isinstance(n, (ast.AugAssign, ast.Assign)):
            for t in (n.targets if isinstance(n, ast.Assign) else [n.target]):
                if isinstance(t, ast.Subscript) and lc.text(t.value) in tables:
                    k = _const(ctx, md, lc.expand(t.slice))
                    updates.append((n, t, k if isinstance(k, str) else None))
                elif isinstance(t, ast.Name) and t.id in slot_key:
                    if isinstance(n, ast.Assign) and isinstance(n.value, ast.Constant) and not any(isinstance(x, (ast.For, ast.While)) for x, _ in enclosing(node, n)):
                        continue  # the initial value, before the loop over the inputs
                    updates.append((n, t, slot_key[t.id]))
    if not updates:
        raise AnalysisError("BaseMerger.merge_data: no update of the running offsets found")
    evars = element_vars(node, coll, lc)
    seen_keys = set()
    for n, tg, k in updates:
        additive, v = isinstance(n, ast.AugAssign) and isinstance(n.op, ast.Add), n.value
        if isinstance(n, ast.Assign) and isinstance(v, ast.BinOp) and isinstance(v.op, ast.Add):
            # `t[k] = t[k] + x` is `t[k] += x`
            for a, b in ((v.left, v.right), (v.right, v.left)):
                if lc.text(a) == lc.text(tg):
                    additive, v = True, b
                    break
        path = enclosing(node, n)
        around = [x for x, _ in path]
        ents = {nm for nm, lp in evars.items() if any(lp is x for x in around)}

        def count_leaf(lf, k=k, ents=ents):
            if k not in want:
                return False
            return any(lf == f"{e}.{want[k]}" or (k == "VERTEX" and _vertex_count_source(lf, e)) for e in ents)

        leaves = [lf for lf in _leaves(lc.expand(v)) if lf not in (unparse(tg), lc.text(tg)) and lf not in _MODULES]
        attrs = {lf.rsplit(".", 1)[-1] for lf in leaves if "." in lf}
        ok = k in want and additive and bool(leaves) and all(count_leaf(lf) for lf in leaves)
        seen_keys.add(k)
        res.inst(f"merge_data: offset[{k!r}] += {unparse(n.value)[:60]}", nontrivial=True, ok=ok)
        ent_txt = "/".join(sorted(ents)) or "<input>"
        if not ok:
            res.find("BaseMerger", "merge_data", f"{k or '<computed key>'} offset accumulates {sorted(attrs) or '<other>'}", f"{md.module.relpath}:{n.lineno}",
                     f"the running offsets must advance by the input object's own element counts ({ent_txt}.n_vertices / {ent_txt}.n_cells), once per input: "
                     "counts taken from the data (or nothing, when an input has no such data) put the next input's values on the wrong rows")
            continue
        # once per input: directly in the loop over the inputs, guarded by nothing but a test of the count itself
        once = True
        for x, _blk in path:
            if isinstance(x, (ast.For, ast.AsyncFor)):
                once = once and any(x is lp for lp in evars.values())
            elif isinstance(x, ast.While):
                once = False
            elif isinstance(x, ast.If):
                tl = [lf for lf in _leaves(lc.expand(x.test)) if lf not in _MODULES]
                once = once and all(count_leaf(lf) for lf in tl)
        res.inst(f"merge_data: offset[{k!r}] advances once per input", ok=once)
        if not once:
            res.find("BaseMerger", "merge_data", f"{k} offset is not advanced exactly once per input", f"{md.module.relpath}:{n.lineno}",
                     f"the {k} offset must advance by {ent_txt}.{want[k]} once for every input (inside a loop over the data, or under a condition "
                     "on anything but the count itself, it advances per data or not at all): the next input's values land on the wrong rows")
        # ... and only after this input's data took their place: inside one pass of the loop over the inputs no read of the running
        # offsets follows the update (an offset advanced first places the input's own data past its own rows)
        loop = next((x for x in reversed(around) if any(x is lp for lp in evars.values())), None)
        if once and loop is not None:
            upd_stmts = {id(u) for u, _t, _k in updates}
            order = _stmts_in_order(loop.body)
            pos = next((i for i, st in enumerate(order) if st is n), None)

            def reads(st):
                if id(st) in upd_stmts or isinstance(st, (ast.For, ast.AsyncFor, ast.While, ast.If, ast.With, ast.Try)):
                    return False  # compound statements are judged through the simple statements they hold
                for x in ast.walk(st):
                    if isinstance(x, ast.Subscript) and isinstance(x.ctx, ast.Load) and lc.text(x.value) in tables:
                        return True
                    if isinstance(x, ast.Name) and isinstance(x.ctx, ast.Load) and x.id in slot_key:
                        return True
                return False

            late = [st for i, st in enumerate(order) if pos is not None and i > pos and reads(st)]
            res.inst(f"merge_data: offset[{k!r}] advances after the input's data are placed", ok=not late)
            if late:
                res.find("BaseMerger", "merge_data", f"{k} offset is advanced before the input's own data are placed", f"{md.module.relpath}:{n.lineno}",
                         f"within one pass of the loop over the inputs the {k} offset is read (line {late[0].lineno}) after it was advanced by this "
                         "input's count: the input's own values are written past its rows")
    for k in want:
        if k not in seen_keys and not any(f.member == "merge_data" for f in res.findings):
            res.find("BaseMerger", "merge_data", f"the {k} offset is never advanced", md.where, f"every input's {k} data is written at offset 0")
    # slice = [offset of the data's own association, that offset + n_values)
    for n, dvar, (lower, upper) in writes:
        lo = lc.expand(lower) if lower is not None else None
        hi = lc.expand(upper) if upper is not None else None
        roles = {dvar: "<data>"}
        roles.update({t: "<offsets>" for t in tables + list(slot_key)})
        for e in (lo, hi):
            for x in (ast.walk(e) if e is not None else ()):
                if isinstance(x, ast.Name) and x.id not in roles and lc.is_local(x.id):
                    roles[x.id] = "<local>"
        shown = _role_text(f"[{unparse(lo) if lo is not None else ''}:{unparse(hi) if hi is not None else ''}]", roles)
        table_read = isinstance(lo, ast.Subscript) and isinstance(lo.value, ast.Name) and lo.value.id in tables
        by_test = _var_slots(ctx, md, lo, dvar, list(want)) is not None
        ok = (table_read or by_test) and isinstance(hi, ast.BinOp) and isinstance(hi.op, ast.Add) and \
            sorted([unparse(hi.left), unparse(hi.right)]) == sorted([unparse(lo), f"{dvar}.n_values"])
        res.inst(f"merge_data: destination slice {shown[:80]}", nontrivial=True, ok=ok)
        if not ok:
            res.find("BaseMerger", "merge_data", f"slice is {shown[:70]}", f"{md.module.relpath}:{n.lineno}",
                     "the destination slice is not [offset of this association, offset + n_values)")
        ok = by_test or (table_read and unparse(lo.slice) == f"{dvar}.association.name")
        res.inst("merge_data: the offset is selected by the data's own association", ok=ok)
        if not ok:
            res.find("BaseMerger", "merge_data", "association selector changed", md.where, "vertex data may be placed with the cell offset or vice versa")


# ---------------------------------------------------------------------- DrapeModelMerger.merge_data
def _reindex_sites(node, lc):
    """The stores `x.values = x.values[<index>]` / `np.take(x.values, <index>)` of a function."""
    out = []
    for n in ast.walk(node):
        if isinstance(n, ast.Assign) and len(n.targets) == 1 and isinstance(n.targets[0], ast.Attribute) and n.targets[0].attr == "values":
            tgt, v = lc.text(n.targets[0]), lc.expand(n.value)
            src = None
            if isinstance(v, ast.Subscript):
                src = v.value
            elif isinstance(v, ast.Call) and isinstance(v.func, ast.Attribute) and v.func.attr == "take" and (v.args or v.keywords):
                src = v.args[0] if isinstance(v.func.value, ast.Name) and v.func.value.id in ("np", "numpy") else v.func.value
            if src is not None and unparse(_unwrapped(src)) == tgt:
                out.append(n)
    return out


def _same(a, b) -> bool:
    """The same function (one of them may be a normalised view)."""
    return a.name == b.name and a.module is b.module and a.cls is b.cls and a.kind == b.kind


def _applications(ctx, caller, cnode, clc, recv, target, pname, coll):
    """How a per-element helper is applied in `caller`: [ok?] per application.  ok: called inside a comprehension / generator
    expression whose variable enumerates `coll` with that variable as the argument for `pname`, or handed to map() over `coll`
    with `pname` as its first explicit parameter."""
    out = []
    explicit = target.params[1:] if target.kind in ("method", "classmethod") else target.params
    for n in ast.walk(cnode):
        if isinstance(n, (ast.ListComp, ast.SetComp, ast.GeneratorExp)):
            for c in ast.walk(n.elt):
                if isinstance(c, ast.Call) and any(_same(t, target) for t, _ in resolve_call(ctx.p, caller, c, recv)):
                    arg = None
                    if pname in explicit:
                        i = explicit.index(pname)
                        arg = c.args[i] if i < len(c.args) else next((k.value for k in c.keywords if k.arg == pname), None)
                    g = n.generators[0]
                    out.append(len(n.generators) == 1 and isinstance(g.target, ast.Name) and isinstance(arg, ast.Name) and arg.id == g.target.id
                               and iterates(g.iter, coll, clc, 0, True))
        elif isinstance(n, ast.Call) and unparse(n.func).split(".")[-1] == "map" and len(n.args) == 2 and not n.keywords:
            f = n.args[0]
            if isinstance(f, ast.Lambda):
                # map(lambda c: helper(c, ..), coll): the lambda's parameter is the element
                a = f.args
                for c in ast.walk(f.body):
                    if isinstance(c, ast.Call) and any(_same(t, target) for t, _ in resolve_call(ctx.p, caller, c, recv)):
                        arg = None
                        if pname in explicit:
                            i = explicit.index(pname)
                            arg = c.args[i] if i < len(c.args) else next((k.value for k in c.keywords if k.arg == pname), None)
                        out.append(len(a.args) == 1 and not (a.vararg or a.kwarg or a.kwonlyargs or a.posonlyargs) and isinstance(arg, ast.Name)
                                   and arg.id == a.args[0].arg and iterates(n.args[1], coll, clc, 0, True))
                continue
            ref = ast.Call(func=f, args=[], keywords=[])
            if any(_same(t, target) for t, _ in resolve_call(ctx.p, caller, ref, recv)):
                out.append(bool(explicit) and explicit[0] == pname and iterates(n.args[1], coll, clc, 0, True))
    return out


def _drape_reindex(ctx, res):
    """The ghost re-indexing visits every child of the output exactly once."""
    ci, dm0 = _anchor(ctx, "DrapeModelMerger", "merge_data")
    dm = ctx.view(dm0)
    node, lc = prepared(ctx, dm, ci)
    out_name = param(dm, 0, "out_entity")
    coll = f"{out_name}.children"
    found = 0

    def report(fn, a, ok):
        res.inst(f"DrapeModelMerger.merge_data: re-indexing of `{unparse(a.targets[0])}` runs over {coll}", nontrivial=True, ok=ok)
        if not ok:
            res.find("DrapeModelMerger", "merge_data", "the re-indexed data is not the loop variable of a loop over <out>.children",
                     f"{fn.module.relpath}:{a.lineno}",
                     "data looked up by name (names are not unique) are visited twice or never: same-named data of different types keep the "
                     "un-reordered values or are reordered twice")

    evars = element_vars(node, coll, lc, True)
    for a in _reindex_sites(node, lc):
        found += 1
        owner = lc.expand(a.targets[0].value)
        around = [x for x, _ in enclosing(node, a)]
        report(dm, a, isinstance(owner, ast.Name) and owner.id in evars and any(evars[owner.id] is x for x in around))
    # the store may live in something the anchor reaches without it being expandable in place: a hook dispatched on the class,
    # a helper applied through a comprehension or map()
    for fn, recv in reachable(ctx, dm0, ci):
        hnode, hlc = prepared(ctx, fn, recv)
        sites = _reindex_sites(hnode, hlc)
        if not sites:
            continue
        explicit = fn.params[1:] if fn.kind in ("method", "classmethod") else fn.params
        # what the anchor passes for each parameter (when it calls the function directly)
        passed = {}
        for c in ast.walk(node):
            if isinstance(c, ast.Call) and any(_same(t, fn) for t, _ in resolve_call(ctx.p, dm, c, ci)):
                for i, prm in enumerate(explicit):
                    arg = c.args[i] if i < len(c.args) else next((k.value for k in c.keywords if k.arg == prm), None)
                    if arg is not None:
                        passed.setdefault(prm, set()).add(lc.text(arg))
        for a in sites:
            found += 1
            owner = hlc.expand(a.targets[0].value)
            around = [x for x, _ in enclosing(hnode, a)]
            ok = False
            if isinstance(owner, ast.Name) and owner.id in explicit and owner.id not in hlc.defs and owner.id not in hlc.augs:
                apps = _applications(ctx, dm, node, lc, ci, fn, owner.id, coll)
                ok = bool(apps) and all(apps)
            elif isinstance(owner, ast.Name):
                for prm in explicit:
                    if passed.get(prm) == {out_name}:
                        hv = element_vars(hnode, f"{prm}.children", hlc, True)
                        ok = ok or (owner.id in hv and any(hv[owner.id] is x for x in around))
            report(fn, a, ok)
    if not found:
        raise AnalysisError("DrapeModelMerger.merge_data: `data.values = data.values[<index map>]` not found")


def rule_prov(ctx) -> RuleResult:
    res = RuleResult(
        "C16.PROV",
        "C16",
        "in CellMerger.create_object the offset added to each input's cells has only vertex-count sources (n_vertices / "
        "vertices.shape[0] / len(vertices) / literals, accumulated); in BaseMerger.merge_data the VERTEX / CELL running "
        "offsets accumulate n_vertices / n_cells and the slice end is start + n_values",
        floor=5,
    )
    _cell_offset(ctx, res)
    _data_offsets(ctx, res)
    _drape_reindex(ctx, res)
    drape_offsets(ctx, res)
    same_inputs(ctx, res)
    return res


def rule_key(ctx) -> RuleResult:
    res = RuleResult(
        "C16.KEY",
        "C16",
        "in BaseMerger.merge_data the key under which the inputs' blocks are grouped into one merged data contains every attribute of the "
        "input data the merged data is created with (name, association, entity type): data are concatenated per name, type and association",
        floor=1,
    )
    grouping_key(ctx, res)
    return res


def rule_keep(ctx) -> RuleResult:
    res = RuleResult(
        "C16.KEEP",
        "C16",
        "the geometry a merger computes and hands to <type>.create is not re-bound by the setter of another keyword the merger itself passes "
        "along (the merged cells / vertices / prisms / layers reach the created object)",
        floor=2,
    )
    geometry_kept(ctx, res)
    return res


RULES = [rule_prov, rule_key, rule_keep]
