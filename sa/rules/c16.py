"""C16 — merging: provenance of the cell index offset and of the data offsets."""

from __future__ import annotations

import ast

from ..model import AnalysisError, unparse
from ..report import RuleResult


def _leaves(expr):
    """Maximal Name/Attribute/Subscript chains and constants of an expression, with calls' function names."""
    out = []

    def rec(e):
        if isinstance(e, (ast.Attribute, ast.Name)):
            out.append(unparse(e))
        elif isinstance(e, ast.Subscript):
            out.append(unparse(e))
        elif isinstance(e, ast.Call):
            fname = unparse(e.func)
            if fname == "len" and len(e.args) == 1:
                out.append(f"len({unparse(e.args[0])})")
                return
            for a in e.args:
                rec(a)
            for k in e.keywords:
                rec(k.value)
        elif isinstance(e, ast.Constant):
            pass
        else:
            for c in ast.iter_child_nodes(e):
                if isinstance(c, ast.expr):
                    rec(c)

    rec(expr)
    return out


def _vertex_count_source(leaf: str, ent: str) -> bool:
    return leaf in (f"{ent}.n_vertices", f"{ent}.vertices.shape[0]", f"len({ent}.vertices)", f"{ent}.vertices.shape")


def rule_prov(ctx) -> RuleResult:
    res = RuleResult(
        "C16.PROV",
        "C16",
        "in CellMerger.create_object the offset added to each input's cells has only vertex-count sources (n_vertices / "
        "vertices.shape[0] / len(vertices) / literals, accumulated); in BaseMerger.merge_data the VERTEX / CELL running "
        "offsets accumulate n_vertices / n_cells and the slice end is start + n_values",
        floor=5,
    )
    p = ctx.p
    cm = p.func("CellMerger.create_object")
    adds = [n for n in ast.walk(cm.node) if isinstance(n, ast.BinOp) and isinstance(n.op, ast.Add)
            and any(isinstance(x, ast.Attribute) and x.attr == "cells" for x in (n.left, n.right))]
    if not adds:
        raise AnalysisError("CellMerger.create_object: `<entity>.cells + <offset>` not found")
    for add in adds:
        cells_side = add.left if isinstance(add.left, ast.Attribute) and add.left.attr == "cells" else add.right
        off = add.right if cells_side is add.left else add.left
        ent = unparse(cells_side.value)
        if not isinstance(off, ast.Name):
            srcs = [off]
            var = None
        else:
            var = off.id
            srcs = []
            for n in ast.walk(cm.node):
                if isinstance(n, (ast.Assign, ast.AnnAssign)) and n.value is not None:
                    tg = n.targets if isinstance(n, ast.Assign) else [n.target]
                    if any(isinstance(t, ast.Name) and t.id == var for t in tg):
                        srcs.append(n.value)
                if isinstance(n, ast.AugAssign) and isinstance(n.target, ast.Name) and n.target.id == var:
                    if not isinstance(n.op, ast.Add):
                        srcs.append(ast.Name(id="<non-additive update>", ctx=ast.Load()))
                    srcs.append(n.value)
        for s in srcs:
            bad = [lf for lf in _leaves(s) if not (lf == var or _vertex_count_source(lf, ent) or lf in ("np", "int"))]
            ok = not bad
            res.inst(f"CellMerger.create_object: offset source `{unparse(s)[:50]}`", nontrivial=True, ok=ok)
            if not ok:
                # key without local spellings: the offending source is named by what it is (an attribute chain keeps its text, a local becomes <local>)
                shown = lambda t: t if "." in t or "(" in t else "<local>"  # noqa: E731
                res.find("CellMerger", "create_object", f"cell offset derives from {shown(bad[0])}",
                         f"{cm.module.relpath}:{getattr(s, 'lineno', cm.node.lineno)}",
                         f"the offset added to each input's cells comes from `{unparse(s)[:50]}` (a cell-value source) instead of the input's vertex "
                         "count: an input with a vertex above its highest referenced one shifts every following input's cells onto wrong vertices")
    md = p.func("BaseMerger.merge_data")
    # the running offsets: the dict initialised with the association names
    cdict = None
    for n in ast.walk(md.node):
        if cdict is None and isinstance(n, ast.Assign) and isinstance(n.value, ast.Dict) and {getattr(k, "value", None) for k in n.value.keys} == {"VERTEX", "CELL"} \
                and isinstance(n.targets[0], ast.Name):
            cdict = n.targets[0].id
    if cdict is None:
        raise AnalysisError("BaseMerger.merge_data: running-offset dictionary {'VERTEX': 0, 'CELL': 0} not found")
    want = {"VERTEX": "n_vertices", "CELL": "n_cells"}
    outer = next((n for n in ast.walk(md.node) if isinstance(n, ast.For) and isinstance(n.target, ast.Name)), None)
    ent = outer.target.id if outer is not None else "input_entity"
    updates = [n for n in ast.walk(md.node) if isinstance(n, (ast.AugAssign, ast.Assign))
               and any(isinstance(t, ast.Subscript) and unparse(t.value) == cdict for t in (n.targets if isinstance(n, ast.Assign) else [n.target]))]
    if not updates:
        raise AnalysisError("BaseMerger.merge_data: no update of the running offsets found")
    seen_keys = set()
    for n in updates:
        tg = n.targets[0] if isinstance(n, ast.Assign) else n.target
        k = tg.slice.value if isinstance(tg.slice, ast.Constant) else None
        leaves = [lf for lf in _leaves(n.value) if lf != unparse(tg)]
        attrs = {lf.rsplit(".", 1)[-1] for lf in leaves if "." in lf}
        owners = {lf.rsplit(".", 1)[0] for lf in leaves if "." in lf}
        additive = isinstance(n, ast.AugAssign) and isinstance(n.op, ast.Add)
        ok = k in want and attrs == {want[k]} and owners == {ent} and additive
        seen_keys.add(k)
        res.inst(f"merge_data: offset[{k!r}] += {unparse(n.value)[:60]}", nontrivial=True, ok=ok)
        if not ok:
            res.find("BaseMerger", "merge_data", f"{k or unparse(tg.slice)} offset accumulates {sorted(attrs) or unparse(n.value)[:30]}", f"{md.module.relpath}:{n.lineno}",
                     f"the running offsets must advance by the input object's own element counts ({ent}.n_vertices / {ent}.n_cells), once per input: "
                     "counts taken from the data (or nothing, when an input has no such data) put the next input's values on the wrong rows")
    for k in want:
        if k not in seen_keys and not any(f.member == "merge_data" for f in res.findings):
            res.find("BaseMerger", "merge_data", f"the {k} offset is never advanced", md.where, f"every input's {k} data is written at offset 0")
    # slice end = start + n_values
    # the destination slice bounds: the pair of locals used as `<values>[a:b] = <data>.values`
    bounds = None
    for n in ast.walk(md.node):
        if isinstance(n, ast.Assign) and isinstance(n.targets[0], ast.Subscript) and isinstance(n.targets[0].slice, ast.Slice) and unparse(n.value).endswith(".values"):
            sl = n.targets[0].slice
            if isinstance(sl.lower, ast.Name) and isinstance(sl.upper, ast.Name):
                bounds = [sl.lower.id, sl.upper.id]
    tup = [n for n in ast.walk(md.node) if isinstance(n, ast.Assign) and isinstance(n.targets[0], ast.Tuple) and bounds and [unparse(t) for t in n.targets[0].elts] == bounds]
    if not tup:
        raise AnalysisError("BaseMerger.merge_data: `start, end = ...` not found")
    v = tup[0].value
    ok = isinstance(v, ast.Tuple) and len(v.elts) == 2 and isinstance(v.elts[1], ast.BinOp) and isinstance(v.elts[1].op, ast.Add) and \
        unparse(v.elts[1].left) == unparse(v.elts[0]) and unparse(v.elts[1].right).endswith(".n_values") and isinstance(v.elts[0], ast.Subscript) and isinstance(v.elts[0].slice, ast.Name) and \
        any(isinstance(a, ast.Assign) and unparse(a.targets[0]) == v.elts[0].slice.id and unparse(a.value).endswith("association.name") for a in ast.walk(md.node))
    res.inst(f"merge_data: start, end = {unparse(v)[:70]}", nontrivial=True, ok=ok)
    if not ok:
        res.find("BaseMerger", "merge_data", f"slice is {unparse(v)[:70]}", f"{md.module.relpath}:{tup[0].lineno}",
                 "the destination slice is not [offset of this association, offset + n_values)")
    key = tup[0]
    sel = v.elts[0].slice.id if isinstance(v, ast.Tuple) and v.elts and isinstance(v.elts[0], ast.Subscript) and isinstance(v.elts[0].slice, ast.Name) else None
    assoc = [n for n in ast.walk(md.node) if isinstance(n, ast.Assign) and sel is not None and unparse(n.targets[0]) == sel]
    ok = bool(assoc) and unparse(assoc[0].value).endswith("association.name")
    res.inst("merge_data: the offset is selected by the data's own association", ok=ok)
    if not ok:
        res.find("BaseMerger", "merge_data", "association selector changed", md.where, "vertex data may be placed with the cell offset or vice versa")
    # DrapeModelMerger.merge_data: the ghost re-indexing visits every child of the output exactly once
    dm = p.func("DrapeModelMerger.merge_data")
    reidx = [n for n in ast.walk(dm.node) if isinstance(n, ast.Assign) and isinstance(n.targets[0], ast.Attribute) and n.targets[0].attr == "values"
             and isinstance(n.value, ast.Subscript) and unparse(n.value.value) == unparse(n.targets[0])]
    if not reidx:
        raise AnalysisError("DrapeModelMerger.merge_data: `data.values = data.values[<index map>]` not found")
    out_name = dm.params[1] if len(dm.params) > 1 else "out_entity"
    for a in reidx:
        var = unparse(a.targets[0].value)
        loops = [n for n in ast.walk(dm.node) if isinstance(n, ast.For) and any(x is a for x in ast.walk(n))]
        ok = any(isinstance(lp.target, ast.Name) and lp.target.id == var and unparse(lp.iter) == f"{out_name}.children" for lp in loops)
        res.inst(f"DrapeModelMerger.merge_data: re-indexing of `{var}.values` runs over {out_name}.children", nontrivial=True, ok=ok)
        if not ok:
            res.find("DrapeModelMerger", "merge_data", f"the re-indexed data `{var}` is not the loop variable of `for {var} in {out_name}.children`",
                     f"{dm.module.relpath}:{a.lineno}",
                     "data looked up by name (names are not unique) are visited twice or never: same-named data of different types keep the "
                     "un-reordered values or are reordered twice")
    return res


RULES = [rule_prov]
