"""C17 — derived geometry: memoised centroids are invalidated by every setter of their inputs."""

from __future__ import annotations

from ..cache import readers_of_cache
from ..model import AnalysisError
from ..report import RuleResult
from ._c17_cache import ShapeFreeCacheAnalysis as CacheAnalysis, deps, memo_getters


def cache_rule(ctx, rule_id, prop_id, base_names, floor, clause, only_fields=None, only_props=None, feeds=()):
    from ._c17_cache import use_project

    res = RuleResult(rule_id, prop_id, clause, floor=floor)
    p = ctx.p
    use_project(p)
    classes = []
    for b in base_names:
        base = p.cls(b)
        classes += [c for c in p.subclasses(base) if c not in classes]
    n_memo = 0
    for K in classes:
        for prop, fld, getter in memo_getters(K):
            if only_fields and fld not in only_fields:
                continue
            if only_props and prop not in only_props and prop not in _feeding_props(K, feeds):
                continue  # selected by the public property that is memoised; its private cache field may be called anything
            d = deps(K, getter, fld)
            if only_props and prop not in only_props:
                # a memo UNDER a geometry getter: what it reads through ANOTHER memoised getter is that getter's cache field, not the
                # inputs of that getter in turn (whoever leaves `_parts` stale is reported for `parts`; `unique_parts` follows `_parts`)
                d = _deps_cut(K, getter, fld)
            if not d:
                continue
            n_memo += 1
            refill = readers_of_cache(K, prop, fld)
            ana = CacheAnalysis(K, fld, d, refill, max_depth=5 if ctx.tier == "quick" else 12)
            res.notes.append(f"{K.name}.{prop}: cache {fld}, deps {sorted(d)}") if len(res.notes) < 40 else None
            seen = set()
            for c in K.mro:
                if isinstance(c, str):
                    continue
                members = list(c.methods.values())
                for pr in c.props.values():
                    members += [f for f in (pr.getter, pr.setter, pr.deleter) if f is not None and f.cls is c]
                for fn in members:
                    # the member actually reached on K
                    key = (fn.name, fn.kind)
                    if key in seen:
                        continue
                    seen.add(key)
                    if fn.name == "__init__":
                        continue
                    if K.lookup(fn.prop or fn.name) is None or _reached(K, fn) is not fn:
                        continue
                    if fn.kind == "method" and fn.name in _stage_helpers(K):
                        continue  # a private stage of a method of the class: decided where it is called (its summary is part of the caller's)
                    bad, fresh, touched = ana.summary(fn)
                    if not touched:
                        continue
                    res.inst(f"{K.name}: {fn.qualname} stores an input of {prop} -> must reset {fld}", nontrivial=True, ok=not bad)
                    for dep, line in sorted(bad):
                        # the key names the fields after the public properties they back (`_vertices`, `_parts`): a private rename keeps it
                        res.find(
                            fn.cls.name, fn.prop or fn.name, f"stores {_key_name(K, dep)} without resetting _{prop}",
                            f"{fn.module.relpath}:{line}",
                            f"{fn.qualname} changes {dep}, an input of the memoised {K.name}.{prop}, but a path reaches the "
                            f"exit without `self.{fld} = None`: the next read of .{prop} returns values computed from the old {dep}",
                            resolved_on=K.name,
                        )
    if n_memo == 0:
        raise AnalysisError(f"{rule_id}: no memoised getter found (anchor lost)")
    return res


def _deps_cut(K, getter, fld) -> set:
    import ast

    memo = {pn: f for pn, f, _g in memo_getters(K)}
    out = set()
    sn = getter.self_name
    for n in ast.walk(getter.node):
        if isinstance(n, ast.Attribute) and isinstance(n.value, ast.Name) and n.value.id == sn and isinstance(n.ctx, ast.Load):
            m = K.lookup(n.attr)
            if n.attr in memo and memo[n.attr] != fld:
                out.add(memo[n.attr])
            elif m and m[1] == "prop" and m[2].getter is not None and m[2].getter is not getter:
                out |= deps(K, m[2].getter, fld)
            elif m and m[1] == "method":
                out |= deps(K, m[2], fld)
            elif n.attr.startswith("_") and not n.attr.startswith("__") and n.attr != fld:
                out.add(n.attr)
    out.discard(fld)
    return out


def _feeding_props(K, feeds) -> set:
    """properties of K that the getter of one of the derived-geometry properties `feeds` reads as `self.<p>` (round 5: a memo put
    UNDER such a getter — `unique_parts` cached for `cells` — is an input cache of the derived geometry and carries the same
    obligation as the geometry memo itself, whatever it is called)."""
    import ast

    out = set()
    for f in feeds:
        m = K.lookup(f)
        if not (m and m[1] == "prop" and m[2].getter is not None):
            continue
        g = m[2].getter
        sn = g.self_name
        for n in ast.walk(g.node):
            if isinstance(n, ast.Attribute) and isinstance(n.value, ast.Name) and n.value.id == sn and isinstance(n.ctx, ast.Load):
                q = K.lookup(n.attr)
                if q and q[1] == "prop":
                    out.add(n.attr)
    return out


_STAGES: dict = {}


def _stage_helpers(K) -> set:
    """private methods (`_x`, not dunder) of K that some other member reached on K calls as `self._x(..)`: stages a method was split into.
    What such a stage leaves undone (a cache it does not reset itself) may be done by the sibling stage or the caller right after — the
    obligation is the caller's, whose summary includes the stage's."""
    import ast

    hit = _STAGES.get(id(K))
    if hit is not None and hit[0] is K:
        return hit[1]
    out = set()
    for c in K.mro:
        if isinstance(c, str):
            continue
        fns = list(c.methods.values()) + [f for pr in c.props.values() for f in (pr.getter, pr.setter, pr.deleter) if f is not None]
        for fn in fns:
            sn = fn.self_name
            if sn is None:
                continue
            for x in ast.walk(fn.node):
                if isinstance(x, ast.Call) and isinstance(x.func, ast.Attribute) and isinstance(x.func.value, ast.Name) and x.func.value.id == sn \
                        and x.func.attr.startswith("_") and not x.func.attr.startswith("__") and x.func.attr != fn.name:
                    m = K.lookup(x.func.attr)
                    if m and m[1] == "method":
                        out.add(x.func.attr)
    _STAGES[id(K)] = (K, out)
    return out


def _key_name(K, field):
    """`_<public property backed by field>` (the usual spelling of the field itself); the field's own name when no property reads just it."""
    m = K.lookup(field[1:])
    if m and m[1] == "prop" and m[2].getter is not None and field in deps(K, m[2].getter, ""):
        return field
    names = set()
    for c in K.mro:
        if not isinstance(c, str):
            names |= set(c.props)
    cands = []
    for name in sorted(names):
        m = K.lookup(name)
        if m and m[1] == "prop" and m[2].getter is not None and deps(K, m[2].getter, "") == {field}:
            cands.append((0 if m[2].setter is not None and field in _stores_any(m[2].setter, {field}) else 1, name))
    return "_" + min(cands)[1] if cands else field


def _reached(K, fn):
    m = K.lookup(fn.prop or fn.name)
    if m is None:
        return None
    if m[1] == "prop":
        return getattr(m[2], fn.kind, None) if fn.kind in ("getter", "setter", "deleter") else None
    return m[2] if m[1] == "method" else None


def _stores_any(fn, fields):
    import ast

    out = set()
    sn = fn.self_name
    for n in ast.walk(fn.node):
        if isinstance(n, ast.Attribute) and isinstance(n.value, ast.Name) and n.value.id == sn and isinstance(n.ctx, (ast.Store, ast.Del)) and n.attr in fields:
            out.add(n.attr)
        if isinstance(n, ast.Subscript) and isinstance(n.ctx, (ast.Store, ast.Del)):
            b = n.value
            if isinstance(b, ast.Attribute) and isinstance(b.value, ast.Name) and b.value.id == sn and b.attr in fields:
                out.add(b.attr)
    return out


def rule_cache(ctx):
    return cache_rule(
        ctx, "C17.CACHE", "C17", ["GridObject", "Curve"], 20,
        "every setter/method that stores an input field of a memoised geometry getter (centroids of Grid2D, BlockModel, "
        "Octree, DrapeModel; Curve cells<->parts) resets the cache on every path on which it stores",
        # every memoised getter of these classes (round 5: a NEW memo — `unique_parts` cached in a field the `parts` setter does
        # not reset — is an obligation like the old ones; a getter whose only inputs are the child list is not a geometry memo)
        only_props={"centroids", "parts", "octree_cells"}, feeds=("cells", "parts", "centroids", "octree_cells"),
    )


# last component of the called function: np.abs(x) / abs(x) / x.sort() / np.unique(x) ...
SIGN_DESTROYING = {"abs", "absolute", "fabs", "sort", "sorted", "msort", "unique"}
_product_calls = {"dot", "matmul", "einsum", "tensordot", "inner"}
_xyz_fields = ["x", "y", "z"]


def _flow_names(fn):
    """name -> list of value expressions bound to it, anywhere in the function (flow-insensitive; kept for callers that only need
    'is this name ever bound from ...').  Assign / AugAssign / AnnAssign (subscript targets count for their base), walrus,
    for-loop and comprehension targets (bound from the iterable), with-as."""
    import ast

    from ..model import unparse

    defs = {}

    def bind(t, v):
        for e in (t.elts if isinstance(t, (ast.Tuple, ast.List)) else [t]):
            b = e.value if isinstance(e, ast.Starred) else e
            if isinstance(b, (ast.Tuple, ast.List)):
                bind(b, v)
                continue
            while isinstance(b, ast.Subscript):
                b = b.value
            if isinstance(b, (ast.Name, ast.Attribute)):
                defs.setdefault(unparse(b), []).append(v)

    for n in ast.walk(fn.node):
        if isinstance(n, (ast.Assign, ast.AugAssign, ast.AnnAssign)) and n.value is not None:
            for t in (n.targets if isinstance(n, ast.Assign) else [n.target]):
                bind(t, n.value)
        elif isinstance(n, ast.NamedExpr):
            bind(n.target, n.value)
        elif isinstance(n, (ast.For, ast.AsyncFor, ast.comprehension)):
            bind(n.target, n.iter)
        elif isinstance(n, (ast.With, ast.AsyncWith)):
            for it in n.items:
                if it.optional_vars is not None:
                    bind(it.optional_vars, it.context_expr)
    return defs


def _fields_read(K, nodes, sn):
    """Backing fields (`_x`) of K that the syntax nodes read: directly (self._x, getattr(self, '_x', ..)) or through a property /
    method of K (self.origin -> _origin, self.dip -> _dip, _vertical), transitively."""
    import ast

    out = set()
    for x in nodes:
        name = None
        if isinstance(x, ast.Attribute) and isinstance(x.value, ast.Name) and x.value.id == sn and isinstance(x.ctx, ast.Load):
            name = x.attr
        elif isinstance(x, ast.Call) and isinstance(x.func, ast.Name) and x.func.id == "getattr" and len(x.args) >= 2 \
                and isinstance(x.args[0], ast.Name) and x.args[0].id == sn and isinstance(x.args[1], ast.Constant):
            name = str(x.args[1].value)
        if name is None:
            continue
        m = K.lookup(name)
        if m and m[1] == "prop" and m[2].getter is not None:
            out |= deps(K, m[2].getter, "")
        elif m and m[1] == "method":
            out |= deps(K, m[2], "")
        elif name.startswith("_"):
            out.add(name)
    return out


def _backing(K, *props):
    """private fields behind public properties of K (self.origin -> {_origin}), whatever they are called"""
    out = set()
    for name in props:
        m = K.lookup(name)
        if m and m[1] == "prop" and m[2].getter is not None:
            out |= deps(K, m[2].getter, "")
    return out


def _transposed(fl, e, depth=0) -> bool:
    """is the matrix expression an odd number of transpositions away from the matrix as it was built (`.T`, np.transpose(m), m.transpose(),
    through the locals it was read into)"""
    import ast

    from ._c17_flow import call_name, key_of

    par = False
    env = None
    while depth < 12:
        depth += 1
        if isinstance(e, ast.Attribute) and e.attr == "T":
            par, e = not par, e.value
        elif isinstance(e, ast.Call) and call_name(e) in ("transpose", "swapaxes"):
            par = not par
            e = e.func.value if isinstance(e.func, ast.Attribute) and not (isinstance(e.func.value, ast.Name) and e.func.value.id in ("np", "numpy")) else (e.args[0] if e.args else e)
        elif key_of(e) is not None:
            ds, entry = fl.reaching(e, env) if env is not None else fl.reaching(e) if fl.nodes_of(e) else ([], True)
            strong = [d for d in ds if d.strong and d.value is not None and d.index is None]
            if entry or len(strong) != 1 or len(ds) != 1:
                break
            e, env = strong[0].value, fl.env([strong[0].node])
        else:
            break
    return par


def _self_attr(sn, attr):
    import ast

    return ast.Attribute(value=ast.Name(id=sn, ctx=ast.Load()), attr=attr, ctx=ast.Load())


def rule_rot(ctx) -> RuleResult:
    import ast

    from ..model import unparse
    from ._c17_flow import Flow, call_name

    res = RuleResult(
        "C17.ROT",
        "C17",
        "(a) in every centroids getter that rotates, the operand of each rotation product (np.dot(rot, X) / M @ X) carries "
        "no origin term and the cached result does: cells are rotated about the origin, not about (0,0,0); (b) the cell "
        "sizes feeding BlockModel centroids are signed differences of the delimiters: nothing on the flow from the "
        "delimiters to the cache discards the sign or the order (abs / sort / unique); (c) all grid classes apply their rotation / dip "
        "matrices in the same sense: matrix @ columns or rows @ matrix.T, never rows @ matrix (the inverse rotation); (d) no floor "
        "division / rounding on the flow of values (not of indices) from the cell records and sizes to the centres",
        floor=6,
    )
    p = ctx.p
    senses = []
    for K in p.subclasses(p.cls("GridObject")):
        pr = K.props.get("centroids")
        if pr is None or pr.getter is None or pr.getter.cls is not K:
            continue
        rotf = _backing(K, "rotation", "dip")
        originf = _backing(K, "origin")
        cache_fields = [f for (pn, f, _g) in memo_getters(K) if pn == "centroids"] or ["_centroids"]
        g = ctx.view(pr.getter)
        sn = g.self_name or "self"
        fl = Flow(g.node)

        def fields(e, env=None):
            return _fields_read(K, fl.atoms(e, env), sn)

        def is_module(e):
            r = p.resolve_name(g.module, e.id) if isinstance(e, ast.Name) else None
            return bool(r) and r[0] in ("external", "module")

        # rotation products: an operator / call multiplying a matrix computed from the rotation (or dip) angle with something
        products = []
        for n in ast.walk(g.node):
            sides = None
            if isinstance(n, ast.BinOp) and isinstance(n.op, ast.MatMult):
                sides = [n.left, n.right]
            elif isinstance(n, ast.Call) and call_name(n) in _product_calls:
                sides = [a for a in n.args if not (isinstance(a, ast.Constant) and isinstance(a.value, str))]
                if isinstance(n.func, ast.Attribute) and not is_module(n.func.value) and not (isinstance(n.func.value, ast.Attribute) and is_module(n.func.value.value)):
                    sides = [n.func.value] + sides  # A.dot(B)
            if not sides or len(sides) < 2 or not fl.nodes_of(n):
                continue
            rot_sides = [s for s in sides if rotf & fields(s)]
            if not rot_sides:
                continue
            operands = [s for s in sides if s not in rot_sides] or sides[1:]
            products.append((n, operands))
            # the sense the matrix is applied in: matrix @ columns, or rows @ matrix (which needs the transposed matrix)
            if len(sides) == 2 and not (isinstance(n, ast.Call) and call_name(n) in ("einsum", "tensordot")):
                pure = [i for i, s in enumerate(sides) if s in rot_sides and fields(s) <= rotf]
                if len(pure) == 1:
                    senses.append((K, g, n, (pure[0] == 1) ^ _transposed(fl, sides[pure[0]])))
        if not products:
            continue
        for prod, operands in products:
            ok = not any(originf & fields(o) for o in operands)
            res.inst(f"{K.name}.centroids:{prod.lineno} rotation operand `{unparse(operands[0])[:30]}` has no origin term", nontrivial=True, ok=ok)
            if not ok:
                res.find(K.name, "centroids", "the origin is added before the rotation", f"{g.module.relpath}:{prod.lineno}",
                         "the origin takes part in the rotation: cells are rotated about (0,0,0) instead of about the grid origin, wrong for every rotated grid whose origin is not zero")
        # what the getter returns / what the cache field holds when it returns
        cache_ok = any(originf & fields(_self_attr(sn, f), fl.env_exit()) for f in cache_fields) or \
            any(originf & fields(r.value) for r in ast.walk(g.node) if isinstance(r, ast.Return) and r.value is not None and fl.nodes_of(r.value))
        res.inst(f"{K.name}.centroids: the cached array has the origin added", nontrivial=True, ok=cache_ok)
        if not cache_ok:
            res.find(K.name, "centroids", "the origin is never added to the centroids", pr.getter.where, "cell centres are reported in local coordinates")
    # (c) every grid class applies its rotation / dip matrices in the same sense
    if senses:
        n_inv = sum(1 for x in senses if x[3])
        expected = n_inv * 2 > len(senses)
        for K, g, prod, sense in senses:
            ok = sense == expected
            res.inst(f"{K.name}.centroids:{prod.lineno} matrix applied in the same sense as in the sibling grids", nontrivial=True, ok=ok)
            if not ok:
                res.find(K.name, "centroids", "the rotation matrix is applied in the opposite sense to the sibling grid classes", f"{g.module.relpath}:{prod.lineno}",
                         "M @ columns and rows @ M.T are the same rotation, rows @ M is the inverse one: this class turns its cells by -rotation where "
                         "the other grid classes (same matrix constructors, same angle convention) turn theirs by +rotation")
    # (d) a centre is computed in real arithmetic: no floor division on the flow to the cached / returned centres
    for K in p.subclasses(p.cls("GridObject")):
        pr = K.props.get("centroids")
        if pr is None or pr.getter is None or pr.getter.cls is not K:
            continue
        g = ctx.view(pr.getter)
        sn = g.self_name or "self"
        fl = Flow(g.node)
        flows = []
        for r in ast.walk(g.node):
            if isinstance(r, ast.Return) and r.value is not None and fl.nodes_of(r.value):
                flows += list(fl.atoms(r.value, skip_index=True, builders=True))
        for f in [f for (pn, f, _g) in memo_getters(K) if pn == "centroids"]:
            flows += list(fl.atoms(_self_attr(sn, f), fl.env_exit(), skip_index=True, builders=True))
        bad = [x for x in flows if isinstance(x, ast.BinOp) and isinstance(x.op, ast.FloorDiv) or isinstance(x, ast.Call) and call_name(x) in ("floor_divide", "floor", "trunc", "rint", "round", "around", "fix")]
        res.inst(f"{K.name}.centroids: no floor division / rounding on the flow of values to the centres", nontrivial=True, ok=not bad)
        for x in bad[:1]:
            res.find(K.name, "centroids", "floor division or rounding on the flow of values to the centres", f"{g.module.relpath}:{x.lineno}",
                     "half a cell width computed with integer division is 0 for a unit cell: the centre of such a cell is reported at its corner "
                     "(a coordinate is never the result of an integer division of a size)")
    # (b) signed cell sizes
    bm = p.cls("BlockModel")
    for name in ("u_cells", "v_cells", "z_cells", "centroids"):
        pr = bm.props.get(name)
        if pr is None or pr.getter is None:
            raise AnalysisError(f"anchor BlockModel.{name} not found")
        g = ctx.view(pr.getter)
        sn = g.self_name or "self"
        fl = Flow(g.node)
        flows = []  # syntax nodes of the expressions reaching the return value / the cache
        for r in ast.walk(g.node):
            if isinstance(r, ast.Return) and r.value is not None and fl.nodes_of(r.value):
                flows += list(fl.atoms(r.value))
        for f in [f for (pn, f, _g) in memo_getters(bm) if pn == name]:
            flows += list(fl.atoms(_self_attr(sn, f), fl.env_exit()))
        bad = [c for c in flows if isinstance(c, ast.Call) and call_name(c) in SIGN_DESTROYING]
        res.inst(f"BlockModel.{name}: no abs / sort / unique on the flow from the delimiters to the result", nontrivial=True, ok=not bad)
        for c in bad[:1]:
            res.find("BlockModel", name, f"{call_name(c)} on the flow from the delimiters to the result", f"{g.module.relpath}:{c.lineno}",
                     "cell sizes must stay the signed differences of consecutive delimiters (a model whose z delimiters decrease has negative cell "
                     "heights and centres below the origin); discarding the sign or the order mirrors those centres")
    return res


def _dtype_fields(ctx, fn, e, fl=None, env=None, depth=0):
    """Field names of a structured dtype expression: [("x", float), ...] / np.dtype([...]) / {"names": [...], ...} / a local,
    module-level or class-level name bound to one of these; 'same' for `<self.origin>.dtype` (the dtype already stored)."""
    import ast

    from ._c17_flow import call_name, key_of

    if e is None or depth > 6:
        return None
    if isinstance(e, (ast.List, ast.Tuple)):
        names = []
        for el in e.elts:
            if isinstance(el, (ast.Tuple, ast.List)) and el.elts and isinstance(el.elts[0], ast.Constant) and isinstance(el.elts[0].value, str):
                names.append(el.elts[0].value)
            else:
                return None
        return names
    if isinstance(e, ast.Dict):
        for k, v in zip(e.keys, e.values):
            if isinstance(k, ast.Constant) and k.value == "names" and isinstance(v, (ast.List, ast.Tuple)):
                return [x.value for x in v.elts if isinstance(x, ast.Constant)]
        return None
    if isinstance(e, ast.Call) and call_name(e) in ("dtype", "format_parser") and e.args:
        return _dtype_fields(ctx, fn, e.args[0], fl, env, depth + 1)
    if isinstance(e, ast.Attribute) and e.attr == "dtype":
        b = e.value
        if fl is not None:
            b, _ = fl.resolve(b, env)
        kb = key_of(b) or ""
        if kb == f"{fn.self_name}.origin" or (fn.cls is not None and kb.startswith(f"{fn.self_name}.") and kb.split(".", 1)[1] in _backing(fn.cls, "origin")):
            return "same"
        return None
    k = key_of(e)
    if k is None:
        return None
    if fl is not None:
        r, renv = fl.resolve(e, env)
        if r is not e:
            return _dtype_fields(ctx, fn, r, fl, renv, depth + 1)
    p = ctx.p
    if isinstance(e, ast.Name):
        r = p.resolve_name(fn.module, e.id)
        if r and r[0] == "assign":
            mod, val = r[1]
            return _dtype_fields(ctx, replace_module(fn, mod), val, None, None, depth + 1)
        return None
    if isinstance(e, ast.Attribute) and isinstance(e.value, ast.Name):
        owner = None
        if fn.cls is not None and e.value.id in ("self", "cls", fn.self_name or ""):
            owner = fn.cls
        else:
            r = p.resolve_name(fn.module, e.value.id)
            if r and r[0] == "class":
                owner = r[1]
        if owner is not None:
            m = owner.lookup(e.attr)
            if m and m[1] == "assign" and m[2] is not None:
                return _dtype_fields(ctx, fn, m[2], None, None, depth + 1)
    return None


def replace_module(fn, mod):
    from dataclasses import replace

    return replace(fn, module=mod) if mod is not fn.module else fn


def _structured(ctx, K, fn, fl, v, env, depth=0):
    """Is the value expression an (x, y, z) record array?  Decided by how the value is built (an array constructor / cast with a
    structured dtype, possibly bound to a local first, chosen by a conditional expression, or returned by a helper of the class)."""
    import ast

    from ._c17_flow import Flow, call_name, key_of

    if depth > 6 or v is None:
        return False
    if key_of(v) is not None:
        ds, entry = fl.reaching(v, env)
        strong = [d for d in ds if d.strong]
        if entry or not strong:
            return False
        for d in strong:
            st = d.stmt
            if isinstance(st, ast.Assign) and d.value is st.value and any(isinstance(t, (ast.Tuple, ast.List)) for t in st.targets):
                return False
            if isinstance(st, (ast.For, ast.AsyncFor, ast.With, ast.AsyncWith)) or d.value is None:
                return False
            if not _structured(ctx, K, fn, fl, d.value, fl.env([d.node]), depth + 1):
                return False
        return True
    if isinstance(v, ast.IfExp):
        return _structured(ctx, K, fn, fl, v.body, env, depth + 1) and _structured(ctx, K, fn, fl, v.orelse, env, depth + 1)
    if isinstance(v, ast.NamedExpr):
        return _structured(ctx, K, fn, fl, v.value, env, depth + 1)
    if not isinstance(v, ast.Call):
        return False
    nm = call_name(v)
    dt = next((k.value for k in v.keywords if k.arg == "dtype"), None)
    if dt is None and nm in ("astype", "view") and v.args:
        dt = v.args[0]
    if dt is None and nm in ("fromarrays", "fromrecords") and any(k.arg == "names" for k in v.keywords):
        nv = next(k.value for k in v.keywords if k.arg == "names")
        return isinstance(nv, (ast.List, ast.Tuple)) and [getattr(x, "value", None) for x in nv.elts] == _xyz_fields
    if dt is not None:
        names = _dtype_fields(ctx, fn, dt, fl, env)
        if names == "same":
            return True
        return names == _xyz_fields
    # copies / no-op conversions of a record array: np.asarray(rec) / np.array(rec) / rec.copy() / rec.squeeze()
    if nm in ("asarray", "array", "asanyarray", "ascontiguousarray", "copy", "squeeze"):
        def is_module(e):
            r = ctx.p.resolve_name(fn.module, e.id) if isinstance(e, ast.Name) else None
            return bool(r) and r[0] in ("external", "module")

        if isinstance(v.func, ast.Attribute) and not is_module(v.func.value) and not v.args:
            inner = v.func.value  # rec.copy()
        else:
            inner = v.args[0] if v.args else None  # np.copy(rec)
        return inner is not None and _structured(ctx, K, fn, fl, inner, env, depth + 1)
    # a (non-private, hence not expanded) helper of the class or of the module: every value it returns
    callee = None
    f = v.func
    if isinstance(f, ast.Attribute) and isinstance(f.value, ast.Name) and f.value.id in ("self", "cls", fn.self_name or ""):
        m = K.lookup(f.attr)
        callee = m[2] if m and m[1] == "method" else None
    elif isinstance(f, ast.Name):
        r = ctx.p.resolve_name(fn.module, f.id)
        callee = r[1] if r and r[0] == "func" else None
    if callee is not None and callee.node is not fn.node and depth < 3:
        cv = ctx.view(callee)
        cfl = Flow(cv.node)
        rets = [r for r in ast.walk(cv.node) if isinstance(r, ast.Return) and (r.value is None or cfl.nodes_of(r.value))]
        return bool(rets) and all(r.value is not None and _structured(ctx, K, cv, cfl, r.value, cfl.env(cfl.nodes_of(r.value)), depth + 1) for r in rets)
    return False


def _mentions(fn, attrs, store=None):
    """cheap pre-filter on the raw syntax tree: some `<x>.<attr>` with attr in attrs (Store / Load as asked) or the attr name as a string constant."""
    import ast

    for n in ast.walk(fn.node):
        if isinstance(n, ast.Attribute) and n.attr in attrs and (store is None or isinstance(n.ctx, (ast.Store, ast.Del)) == store):
            return True
        if isinstance(n, ast.Constant) and n.value in attrs:
            return True
    return False


def _reads_origin_by_field(ctx, fn, backing) -> bool:
    """Does fn subscript the origin record with a field name (self.origin['x'], o = self.origin; o[axis] for axis in ('x', ..))?"""
    import ast

    from ._c17_flow import Flow, key_of

    key = ("c17.origin_read", id(fn.node), tuple(sorted(backing)))
    if key in ctx.cache:
        return ctx.cache[key]
    out = False
    if _mentions(fn, {"origin"} | backing) and any(isinstance(n, ast.Subscript) for n in ast.walk(fn.node)):
        v = ctx.view(fn)
        sn = v.self_name or "self"
        fl = Flow(v.node)
        for x in ast.walk(v.node):
            if not (isinstance(x, ast.Subscript) and fl.nodes_of(x)) or isinstance(x.slice, ast.Slice):
                continue
            base, _ = fl.resolve(x.value)
            if key_of(base) not in [f"{sn}.{a}" for a in {"origin"} | backing]:
                continue
            atoms = list(fl.atoms(x.slice))
            if any(isinstance(a, ast.Constant) and isinstance(a.value, str) for a in atoms):
                out = True
                break
            # a table of field names hoisted to module level in another module (the body of a helper of a base class, expanded here,
            # still names it as that module does): looked up in the modules of the classes this function's class derives from
            mods = [fn.module] + [c.module for c in (fn.cls.mro if fn.cls is not None else []) if not isinstance(c, str) and c.module is not None]
            for a in atoms:
                if isinstance(a, ast.Name) and isinstance(a.ctx, ast.Load) and not fl.reaching(a)[0] and a.id not in fl.params:
                    for mod in mods:
                        r = ctx.p.resolve_name(mod, a.id)
                        if r and r[0] == "assign" and any(isinstance(c, ast.Constant) and isinstance(c.value, str) for c in ast.walk(r[1][1])):
                            out = True
            if out:
                break
    ctx.cache[key] = out
    return out


def rule_origin(ctx) -> RuleResult:
    import ast

    from ..model import unparse
    from ._c17_flow import Flow, key_of

    res = RuleResult(
        "C17.ORIGIN",
        "C17",
        "every class whose geometry code reads the origin by field name (self.origin['x']) stores only structured "
        "(x, y, z) records in _origin — in the setter and in the constructor default alike: centres can be computed "
        "whether or not an origin was given",
        floor=2,
    )
    p = ctx.p
    for K in p.subclasses(p.cls("GridObject")):
        if K.synthetic:
            continue
        backing = _backing(K, "origin")
        if not backing:
            continue
        reads = False
        for c in K.mro:
            if isinstance(c, str):
                continue
            fns = list(c.methods.values()) + [f for pr in c.props.values() for f in (pr.getter, pr.setter) if f is not None]
            if any(_reads_origin_by_field(ctx, fn, backing) for fn in fns):
                reads = True
                break
        if not reads:
            continue
        for c in K.mro:
            if isinstance(c, str):
                continue
            fns = list(c.methods.values()) + [f for pr in c.props.values() for f in (pr.getter, pr.setter) if f is not None and f.cls is c]
            for fn in fns:
                if not _mentions(fn, backing):
                    continue
                v = ctx.view(fn)
                sn = v.self_name or "self"
                fl = None
                for n in ast.walk(v.node):
                    if isinstance(n, (ast.Assign, ast.AnnAssign)) and n.value is not None:
                        tg = n.targets if isinstance(n, ast.Assign) else [n.target]
                        if any(key_of(t) in [f"{sn}.{f}" for f in backing] for t in tg):
                            fl = fl or Flow(v.node)
                            if not fl.nodes_of(n.value):
                                continue
                            ok = _structured(ctx, K, v, fl, n.value, fl.env(fl.nodes_of(n.value)))
                            if c is K or K.lookup("origin") is not None:
                                res.inst(f"{K.name}: {fn.qualname}:{n.lineno} stores {unparse(n.value)[:40]} in _origin", nontrivial=True, ok=ok)
                                if not ok:
                                    res.find(c.name, fn.prop or fn.name, "the value stored in _origin is not an (x, y, z) record", f"{fn.module.relpath}:{n.lineno}",
                                             f"{K.name}'s geometry reads self.origin['x'/'y'/'z']; with this value stored the centroids getter raises IndexError "
                                             "(e.g. an object created without an explicit origin)", resolved_on=K.name)
    return res


def rule_parts(ctx) -> RuleResult:
    import ast

    from ._c17_flow import Flow, call_name, key_of

    res = RuleResult(
        "C17.PARTS",
        "C17",
        "part labels derived from the segments follow connectivity: where the getter of Curve.parts compares the end points of two "
        "segments (vertex indices read from the cells array) it tests whether they are the same vertex (== / !=), never how the two "
        "indices are ordered — a vertex index is a name, not a position along the curve; and a running part count is accumulated "
        "along the segments, never by a cumulative sum over an array with one entry per vertex",
        floor=0,
    )
    p = ctx.p
    done = set()
    for K in p.subclasses(p.cls("Curve")):
        m = K.lookup("parts")
        if not m or m[1] != "prop" or m[2].getter is None or m[2].getter in done:
            continue
        getter = m[2].getter
        done.add(getter)
        cm = K.lookup("cells")
        cells_fields = set()
        if cm and cm[1] == "prop" and cm[2].getter is not None:
            csn = cm[2].getter.self_name or "self"
            for r in ast.walk(cm[2].getter.node):
                if isinstance(r, ast.Return) and isinstance(r.value, ast.Attribute) and isinstance(r.value.value, ast.Name) and r.value.value.id == csn:
                    cells_fields.add(r.value.attr)
        g = ctx.view(getter)
        sn = g.self_name or "self"
        fl = Flow(g.node)
        cells_keys = {f"{sn}.cells"} | {f"{sn}.{f}" for f in cells_fields}
        vertex_fields = _backing(K, "vertices")

        def reads_segment_end(e):
            """e (or the expression a local it names was bound to) holds an element / a column of the cells array"""
            if key_of(e) is not None and fl.nodes_of(e):
                e = fl.resolve(e)[0]
            # what the value is made of (through locals, loop variables running over slices of the array: `for a, b in zip(cells[:-1], cells[1:])`)
            for x in (fl.atoms(e, skip_index=True) if fl.nodes_of(e) else ast.walk(e)):
                if isinstance(x, ast.Subscript):
                    b = x.value
                    if key_of(b) is not None and fl.nodes_of(b):
                        b = fl.resolve(b)[0]
                    if key_of(b) in cells_keys:
                        return True
            return False

        for c in ast.walk(g.node):
            if isinstance(c, ast.Compare) and len(c.ops) == 1 and fl.nodes_of(c) and reads_segment_end(c.left) and reads_segment_end(c.comparators[0]):
                ok = isinstance(c.ops[0], (ast.Eq, ast.NotEq))
                res.inst(f"{getter.qualname}:{c.lineno} end points of two segments compared for identity", nontrivial=True, ok=ok)
                if not ok:
                    res.find(getter.cls.name, "parts", "segment end points are compared by order, not by identity", f"{getter.module.relpath}:{c.lineno}",
                             "a new part is recognised only when the segment starts at a higher vertex index than the previous one ended: parts listed with "
                             "descending or interleaved vertex indices are merged into one label although they are not connected")
        # (c) the labels handed to the setter are kept (or refused) on every path: never dropped silently
        setter = m[2].setter
        if setter is not None and len(setter.params) >= 2 and setter not in done:
            from ..cfg import find_path

            done.add(setter)
            sv = ctx.view(setter)
            ssn = sv.self_name or "self"
            sfl = Flow(sv.node)
            part_fields = {r.value.attr for r in ast.walk(getter.node) if isinstance(r, ast.Return) and isinstance(r.value, ast.Attribute)
                           and isinstance(r.value.value, ast.Name) and r.value.value.id == (getter.self_name or "self")}
            keep = set()
            for st in ast.walk(sv.node):
                if isinstance(st, (ast.Assign, ast.AnnAssign)) and st.value is not None and sfl.nodes_of(st.value):
                    tg = st.targets if isinstance(st, ast.Assign) else [st.target]
                    if any(key_of(t) in [f"{ssn}.{f}" for f in part_fields] for t in tg) and setter.params[1] in sfl.roots(st.value):
                        keep |= set(sfl.nodes_of(st.value))
            if keep:
                escape = find_path(sfl.g, sfl.g.entry, lambda n: n is sfl.g.exit, avoid=lambda n: n in keep)
                ok = escape is None
                res.inst(f"{setter.qualname}: every path that returns has stored the labels", nontrivial=True, ok=ok)
                if not ok:
                    line = next((n.lineno for n in reversed(escape) if n.lineno), setter.node.lineno)
                    res.find(setter.cls.name, "parts", "the labels handed to the setter are dropped on some path", f"{setter.module.relpath}:{line}",
                             "the setter returns normally without having stored (or refused) the part labels — e.g. while the vertices are not set yet, as "
                             "when `parts` precedes `vertices` among the keywords of create(): the curve silently gets the single chain joining all parts")
        # (b) a running count accumulates along the segments, never along the vertex numbering
        for c in ast.walk(g.node):
            if not (isinstance(c, ast.Call) and fl.nodes_of(c) and call_name(c) in ("cumsum", "cumulative_sum", "accumulate", "nancumsum")):
                continue
            arg = c.func.value if isinstance(c.func, ast.Attribute) and key_of(c.func.value) not in ("np", "numpy", "np.add", "numpy.add") else (c.args[0] if c.args else None)
            if arg is None:
                continue
            makers = []
            exprs = [arg]
            if key_of(arg) is not None:
                ds, _entry = fl.reaching(arg)
                exprs = [d.value for d in ds if d.strong and d.value is not None and d.index is None]
            for e in exprs:
                if isinstance(e, ast.Call) and call_name(e) in ("zeros", "ones", "empty", "full", "zeros_like", "ones_like", "empty_like", "full_like", "arange"):
                    sized_by_vertices = any(isinstance(a, ast.Attribute) and (key_of(a) or "").startswith(f"{sn}.") and (a.attr in ("vertices", "n_vertices") or a.attr in vertex_fields)
                                            for x in list(e.args) + [k.value for k in e.keywords] for a in fl.atoms(x, fl.env(fl.nodes_of(e)) if fl.nodes_of(e) else None))
                    if sized_by_vertices:
                        makers.append(e)
            ok = not makers
            res.inst(f"{getter.qualname}:{c.lineno} running count accumulated along the segments", nontrivial=True, ok=ok)
            if not ok:
                res.find(getter.cls.name, "parts", "labels are accumulated along the vertex numbering", f"{getter.module.relpath}:{c.lineno}",
                         "a cumulative sum over an array with one entry per vertex follows the vertex indices, not the segments: it only gives connectivity "
                         "when the vertices happen to be numbered in the order the segments visit them (parts [1,1,1,0,0,0] come back as one part)")
    return res


def rule_alias(ctx) -> RuleResult:
    import ast

    from ._c17_flow import Flow, alias_origins, inplace_updates, key_of

    res = RuleResult(
        "C17.ALIAS",
        "C17",
        "a memoised geometry getter never updates in place (a[i] op= v, a op= v) an array that may be the very object held by another "
        "attribute or returned by another property of the object (read without a copying operation, possibly on some paths only): "
        "adding the origin into such an array writes the origin into that other cache",
        floor=3,
    )
    p = ctx.p
    done = set()
    for base in ("GridObject", "Curve"):
        for K in p.subclasses(p.cls(base)):
            if K.synthetic:
                continue
            for prop, fld, getter in memo_getters(K):
                if prop not in ("centroids", "parts") or getter in done:
                    continue
                done.add(getter)
                g = ctx.view(getter)
                sn = g.self_name or "self"
                fl = Flow(g.node)
                ups = inplace_updates(fl, g.node)
                bad = []
                for st, b, env in ups:
                    for o, _oenv in alias_origins(fl, b, env):
                        k = key_of(o) or ""
                        if k.startswith(f"{sn}.") and k != f"{sn}.{fld}":
                            bad.append((st, k))
                res.inst(f"{getter.qualname}: {len(ups)} in-place updates, none on an array held elsewhere on the object", nontrivial=True, ok=not bad)
                for st, k in bad[:1]:
                    res.find(getter.cls.name, prop, "an array held by another attribute is updated in place", f"{getter.module.relpath}:{st.lineno}",
                             f"the array updated here may be the object read from {k.replace(sn + '.', 'self.', 1)} (no copy on that path): the update — e.g. the origin "
                             "shift — lands in that attribute's own cache and is applied again at the next computation")
    return res


RULES = [rule_cache, rule_rot, rule_origin, rule_parts, rule_alias]
