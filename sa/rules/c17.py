"""C17 — derived geometry: memoised centroids are invalidated by every setter of their inputs."""

from __future__ import annotations

from ..cache import CacheAnalysis, deps, memo_getters, readers_of_cache
from ..model import AnalysisError
from ..report import RuleResult


def cache_rule(ctx, rule_id, prop_id, base_names, floor, clause, only_fields=None):
    res = RuleResult(rule_id, prop_id, clause, floor=floor)
    p = ctx.p
    classes = []
    for b in base_names:
        base = p.cls(b)
        classes += [c for c in p.subclasses(base) if c not in classes]
    n_memo = 0
    for K in classes:
        for prop, fld, getter in memo_getters(K):
            if only_fields and fld not in only_fields:
                continue
            d = deps(K, getter, fld)
            if not d:
                continue
            n_memo += 1
            refill = readers_of_cache(K, prop, fld)
            ana = CacheAnalysis(K, fld, d, refill, max_depth=5 if ctx.tier == "quick" else 12)
            res.notes.append(f"{K.name}.{prop}: cache {fld}, deps {sorted(d)}") if len(res.notes) < 40 else None
            seen = set()
            for c in K.mro:
                if isinstance(c, str):
                    continue
                members = list(c.methods.values())
                for pr in c.props.values():
                    members += [f for f in (pr.getter, pr.setter, pr.deleter) if f is not None and f.cls is c]
                for fn in members:
                    # the member actually reached on K
                    key = (fn.name, fn.kind)
                    if key in seen:
                        continue
                    seen.add(key)
                    if fn.name == "__init__":
                        continue
                    if K.lookup(fn.prop or fn.name) is None or _reached(K, fn) is not fn:
                        continue
                    bad, fresh, touched = ana.summary(fn)
                    if not touched:
                        continue
                    res.inst(f"{K.name}: {fn.qualname} stores an input of {prop} -> must reset {fld}", nontrivial=True, ok=not bad)
                    for dep, line in sorted(bad):
                        res.find(
                            fn.cls.name, fn.prop or fn.name, f"stores {dep} without resetting {fld}",
                            f"{fn.module.relpath}:{line}",
                            f"{fn.qualname} changes {dep}, an input of the memoised {K.name}.{prop}, but a path reaches the "
                            f"exit without `self.{fld} = None`: the next read of .{prop} returns values computed from the old {dep}",
                            resolved_on=K.name,
                        )
    if n_memo == 0:
        raise AnalysisError(f"{rule_id}: no memoised getter found (anchor lost)")
    return res


def _reached(K, fn):
    m = K.lookup(fn.prop or fn.name)
    if m is None:
        return None
    if m[1] == "prop":
        return getattr(m[2], fn.kind, None) if fn.kind in ("getter", "setter", "deleter") else None
    return m[2] if m[1] == "method" else None


def _stores_any(fn, fields):
    import ast

    out = set()
    sn = fn.self_name
    for n in ast.walk(fn.node):
        if isinstance(n, ast.Attribute) and isinstance(n.value, ast.Name) and n.value.id == sn and isinstance(n.ctx, (ast.Store, ast.Del)) and n.attr in fields:
            out.add(n.attr)
        if isinstance(n, ast.Subscript) and isinstance(n.ctx, (ast.Store, ast.Del)):
            b = n.value
            if isinstance(b, ast.Attribute) and isinstance(b.value, ast.Name) and b.value.id == sn and b.attr in fields:
                out.add(b.attr)
    return out


def rule_cache(ctx):
    return cache_rule(
        ctx, "C17.CACHE", "C17", ["GridObject", "Curve"], 20,
        "every setter/method that stores an input field of a memoised geometry getter (centroids of Grid2D, BlockModel, "
        "Octree, DrapeModel; Curve cells<->parts) resets the cache on every path on which it stores",
        only_fields={"_centroids", "_parts"},
    )


SIGN_DESTROYING = {"abs", "np.abs", "np.absolute", "np.fabs", "numpy.abs", "np.sort", "sorted", "np.unique"}


def _flow_names(fn):
    """name -> list of value expressions bound to it (Assign / AugAssign, subscript targets count for their base; for-loop targets for the iterable)."""
    import ast

    from ..model import unparse

    defs = {}
    for n in ast.walk(fn.node):
        if isinstance(n, (ast.Assign, ast.AugAssign, ast.AnnAssign)) and n.value is not None:
            tgs = n.targets if isinstance(n, ast.Assign) else [n.target]
            for t in tgs:
                for e in (t.elts if isinstance(t, (ast.Tuple, ast.List)) else [t]):
                    b = e
                    while isinstance(b, ast.Subscript):
                        b = b.value
                    if isinstance(b, (ast.Name, ast.Attribute)):
                        defs.setdefault(unparse(b), []).append(n.value)
    return defs


def rule_rot(ctx) -> RuleResult:
    import ast

    from ..model import unparse

    res = RuleResult(
        "C17.ROT",
        "C17",
        "(a) in every centroids getter that rotates, the operand of each rotation product (np.dot(rot, X) / M @ X) carries "
        "no origin term and the cached result does: cells are rotated about the origin, not about (0,0,0); (b) the cell "
        "sizes feeding BlockModel centroids are signed differences of the delimiters: nothing on the flow from the "
        "delimiters to the cache discards the sign or the order (abs / sort / unique)",
        floor=6,
    )
    p = ctx.p
    for K in p.subclasses(p.cls("GridObject")):
        pr = K.props.get("centroids")
        if pr is None or pr.getter is None or pr.getter.cls is not K:
            continue
        g = pr.getter
        sn = g.self_name or "self"
        defs = _flow_names(g)

        def tainted(e, what, seen=()):
            """does expression e (transitively through local names) read self.<what>?"""
            for x in ast.walk(e):
                if isinstance(x, ast.Attribute) and unparse(x) == f"{sn}.{what}":
                    return True
                if isinstance(x, (ast.Name, ast.Attribute)):
                    nm = unparse(x)
                    if nm in defs and nm not in seen:
                        if any(tainted(d, what, seen + (nm,)) for d in defs[nm]):
                            return True
            return False

        def is_rot_matrix(e):
            return tainted(e, "rotation") or tainted(e, "dip")

        products = []
        for n in ast.walk(g.node):
            if isinstance(n, ast.BinOp) and isinstance(n.op, ast.MatMult) and is_rot_matrix(n.left):
                products.append((n, n.right))
            elif isinstance(n, ast.Call) and unparse(n.func) in ("np.dot", "np.matmul") and len(n.args) == 2 and is_rot_matrix(n.args[0]):
                products.append((n, n.args[1]))
        if not products:
            continue
        for prod, operand in products:
            ok = not tainted(operand, "origin")
            res.inst(f"{K.name}.centroids:{prod.lineno} rotation operand `{unparse(operand)[:30]}` has no origin term", nontrivial=True, ok=ok)
            if not ok:
                res.find(K.name, "centroids", f"the origin is added before the rotation ({unparse(prod)[:50]})", f"{g.module.relpath}:{prod.lineno}",
                         "the origin takes part in the rotation: cells are rotated about (0,0,0) instead of about the grid origin, wrong for every rotated grid whose origin is not zero")
        cache_ok = any(tainted(d, "origin") for nm, ds in defs.items() if nm in (f"{sn}._centroids",) for d in ds) or \
            any(nm == f"{sn}._centroids" and any(tainted(d, "origin") or any(isinstance(x, ast.Name) and tainted(x, "origin") for x in ast.walk(d)) for d in ds) for nm, ds in defs.items())
        res.inst(f"{K.name}.centroids: the cached array has the origin added", nontrivial=True, ok=cache_ok)
        if not cache_ok:
            res.find(K.name, "centroids", "the origin is never added to the centroids", g.where, "cell centres are reported in local coordinates")
    # (b) signed cell sizes
    bm = p.cls("BlockModel")
    for name in ("u_cells", "v_cells", "z_cells", "centroids"):
        pr = bm.props.get(name)
        if pr is None or pr.getter is None:
            raise AnalysisError(f"anchor BlockModel.{name} not found")
        g = pr.getter
        defs = _flow_names(g)
        flows = []  # expressions reaching the return value / the cache

        def collect(e, seen):
            flows.append(e)
            for x in ast.walk(e):
                if isinstance(x, (ast.Name, ast.Attribute)):
                    nm = unparse(x)
                    if nm in defs and nm not in seen:
                        seen.add(nm)
                        for d in defs[nm]:
                            collect(d, seen)

        seen = set()
        for r in ast.walk(g.node):
            if isinstance(r, ast.Return) and r.value is not None:
                collect(r.value, seen)
        for nm, ds in defs.items():
            if nm.endswith("._centroids"):
                for d in ds:
                    collect(d, seen)
        bad = [c for e in flows for c in ast.walk(e) if isinstance(c, ast.Call) and unparse(c.func) in SIGN_DESTROYING]
        res.inst(f"BlockModel.{name}: no abs / sort / unique on the flow from the delimiters to the result", nontrivial=True, ok=not bad)
        for c in bad[:1]:
            res.find("BlockModel", name, f"{unparse(c.func)} on the flow to the result ({unparse(c)[:40]})", f"{g.module.relpath}:{c.lineno}",
                     "cell sizes must stay the signed differences of consecutive delimiters (a model whose z delimiters decrease has negative cell "
                     "heights and centres below the origin); discarding the sign or the order mirrors those centres")
    return res


def rule_origin(ctx) -> RuleResult:
    import ast

    from ..model import unparse

    res = RuleResult(
        "C17.ORIGIN",
        "C17",
        "every class whose geometry code reads the origin by field name (self.origin['x']) stores only structured "
        "(x, y, z) records in _origin — in the setter and in the constructor default alike: centres can be computed "
        "whether or not an origin was given",
        floor=2,
    )
    p = ctx.p
    for K in p.subclasses(p.cls("GridObject")):
        if K.synthetic:
            continue
        reads = False
        for c in K.mro:
            if isinstance(c, str):
                continue
            fns = list(c.methods.values()) + [f for pr in c.props.values() for f in (pr.getter, pr.setter) if f is not None]
            for fn in fns:
                sn = fn.self_name or "self"
                str_loop_vars = {t.id for lp in ast.walk(fn.node) if isinstance(lp, ast.For) for t in ast.walk(lp.target) if isinstance(t, ast.Name)
                                 if any(isinstance(e, ast.Constant) and isinstance(e.value, str) for e in ast.walk(lp.iter))}
                if any(isinstance(x, ast.Subscript) and unparse(x.value) == f"{sn}.origin"
                       and (isinstance(x.slice, ast.Constant) and isinstance(x.slice.value, str) or isinstance(x.slice, ast.Name) and x.slice.id in str_loop_vars)
                       for x in ast.walk(fn.node)):
                    reads = True
        if not reads:
            continue
        for c in K.mro:
            if isinstance(c, str):
                continue
            fns = list(c.methods.values()) + [f for pr in c.props.values() for f in (pr.getter, pr.setter) if f is not None and f.cls is c]
            for fn in fns:
                sn = fn.self_name or "self"
                local = {}
                for n in sorted((x for x in ast.walk(fn.node) if hasattr(x, "lineno")), key=lambda x: (x.lineno, x.col_offset)):
                    if isinstance(n, (ast.Assign, ast.AnnAssign)) and n.value is not None:
                        tg = n.targets if isinstance(n, ast.Assign) else [n.target]
                        for t in tg:
                            if isinstance(t, ast.Name):
                                local.setdefault(t.id, []).append(n.value)

                def structured(v, depth=0):
                    if isinstance(v, ast.Call) and unparse(v.func) in ("np.asarray", "np.array", "numpy.asarray", "numpy.array"):
                        dt = next((k.value for k in v.keywords if k.arg == "dtype"), None)
                        if dt is not None:
                            names = [e.elts[0].value for e in getattr(dt, "elts", []) if isinstance(e, ast.Tuple) and e.elts and isinstance(e.elts[0], ast.Constant)]
                            return names == ["x", "y", "z"]
                        return False
                    if isinstance(v, ast.Name) and v.id in local and depth < 3:
                        # the last binding decides (the setters normalise `value` step by step)
                        return structured(local[v.id][-1], depth + 1)
                    return False

                for n in ast.walk(fn.node):
                    if isinstance(n, (ast.Assign, ast.AnnAssign)) and n.value is not None:
                        tg = n.targets if isinstance(n, ast.Assign) else [n.target]
                        if any(unparse(t) == f"{sn}._origin" for t in tg):
                            ok = structured(n.value)
                            if c is K or K.lookup("origin") is not None:
                                res.inst(f"{K.name}: {fn.qualname}:{n.lineno} stores {unparse(n.value)[:40]} in _origin", nontrivial=True, ok=ok)
                                if not ok:
                                    res.find(c.name, fn.prop or fn.name, f"_origin = {unparse(n.value)[:40]} is not an (x, y, z) record", f"{fn.module.relpath}:{n.lineno}",
                                             f"{K.name}'s geometry reads self.origin['x'/'y'/'z']; with this value stored the centroids getter raises IndexError "
                                             "(e.g. an object created without an explicit origin)", resolved_on=K.name)
    return res


RULES = [rule_cache, rule_rot, rule_origin]
