"""C17 — derived geometry: memoised centroids are invalidated by every setter of their inputs."""

from __future__ import annotations

from ..cache import CacheAnalysis, deps, memo_getters, readers_of_cache
from ..model import AnalysisError
from ..report import RuleResult


def cache_rule(ctx, rule_id, prop_id, base_names, floor, clause, only_fields=None):
    res = RuleResult(rule_id, prop_id, clause, floor=floor)
    p = ctx.p
    classes = []
    for b in base_names:
        base = p.cls(b)
        classes += [c for c in p.subclasses(base) if c not in classes]
    n_memo = 0
    for K in classes:
        for prop, fld, getter in memo_getters(K):
            if only_fields and fld not in only_fields:
                continue
            d = deps(K, getter, fld)
            if not d:
                continue
            n_memo += 1
            refill = readers_of_cache(K, prop, fld)
            ana = CacheAnalysis(K, fld, d, refill, max_depth=5 if ctx.tier == "quick" else 12)
            res.notes.append(f"{K.name}.{prop}: cache {fld}, deps {sorted(d)}") if len(res.notes) < 40 else None
            seen = set()
            for c in K.mro:
                if isinstance(c, str):
                    continue
                members = list(c.methods.values())
                for pr in c.props.values():
                    members += [f for f in (pr.getter, pr.setter, pr.deleter) if f is not None and f.cls is c]
                for fn in members:
                    # the member actually reached on K
                    key = (fn.name, fn.kind)
                    if key in seen:
                        continue
                    seen.add(key)
                    if fn.name == "__init__":
                        continue
                    if K.lookup(fn.prop or fn.name) is None or _reached(K, fn) is not fn:
                        continue
                    bad, fresh, touched = ana.summary(fn)
                    if not touched:
                        continue
                    res.inst(f"{K.name}: {fn.qualname} stores an input of {prop} -> must reset {fld}", nontrivial=True, ok=not bad)
                    for dep, line in sorted(bad):
                        res.find(
                            fn.cls.name, fn.prop or fn.name, f"stores {dep} without resetting {fld}",
                            f"{fn.module.relpath}:{line}",
                            f"{fn.qualname} changes {dep}, an input of the memoised {K.name}.{prop}, but a path reaches the "
                            f"exit without `self.{fld} = None`: the next read of .{prop} returns values computed from the old {dep}",
                            resolved_on=K.name,
                        )
    if n_memo == 0:
        raise AnalysisError(f"{rule_id}: no memoised getter found (anchor lost)")
    return res


def _reached(K, fn):
    m = K.lookup(fn.prop or fn.name)
    if m is None:
        return None
    if m[1] == "prop":
        return getattr(m[2], fn.kind, None) if fn.kind in ("getter", "setter", "deleter") else None
    return m[2] if m[1] == "method" else None


def _stores_any(fn, fields):
    import ast

    out = set()
    sn = fn.self_name
    for n in ast.walk(fn.node):
        if isinstance(n, ast.Attribute) and isinstance(n.value, ast.Name) and n.value.id == sn and isinstance(n.ctx, (ast.Store, ast.Del)) and n.attr in fields:
            out.add(n.attr)
        if isinstance(n, ast.Subscript) and isinstance(n.ctx, (ast.Store, ast.Del)):
            b = n.value
            if isinstance(b, ast.Attribute) and isinstance(b.value, ast.Name) and b.value.id == sn and b.attr in fields:
                out.add(b.attr)
    return out


def rule_cache(ctx):
    return cache_rule(
        ctx, "C17.CACHE", "C17", ["GridObject", "Curve"], 20,
        "every setter/method that stores an input field of a memoised geometry getter (centroids of Grid2D, BlockModel, "
        "Octree, DrapeModel; Curve cells<->parts) resets the cache on every path on which it stores",
        only_fields={"_centroids", "_parts"},
    )


RULES = [rule_cache]
